"""Obligations shared by the FAB-writing accessors (colander, combine, chef, chk2plt): G6 header/data
agreement, G7 offset capture, F-order serialisation, write targets."""
from vk import fabio
from vk.fabio import Num, Ratio, ArrV, BytesV, HdrV, ListAcc, Tup, D
import ast

from vk.model import parents, enclosing, loc, norm, walk_no_nested


def loop_groups(path):
    """events of one path grouped by innermost loop label that contains a write"""
    groups = {}
    for e in path.events:
        if e.kind in ("tell", "write", "append") and e.loops:
            groups.setdefault(e.loops[-1], []).append(e)
    return groups


def path_subst(path):
    """atoms fixed by the path condition: `len(X) > 0` false / `X != []` false / `not X` ... => len(X) = 0"""
    import re
    sub = {}
    for c in path.conds:
        cond, pol = c[0], c[1]
        m = re.fullmatch(r"len\((.+)\) > 0", cond) or re.fullmatch(r"(.+) != \[\]", cond) or \
            re.fullmatch(r"len\((.+)\) != 0", cond)
        if m and pol is False:
            sub[f"len({m.group(1)})"] = 0
        m = re.fullmatch(r"len\((.+)\) == 0", cond) or re.fullmatch(r"(.+) == \[\]", cond) or \
            re.fullmatch(r"not (.+)", cond)
        if m and pol is True:
            sub[f"len({m.group(1)})"] = 0
    return sub


def check_fab_writes(ctx, prefix, res, wpath, comps_ok, hdr_fab_ok=None, offsets_list=None, dims_fab=""):
    """res: AccessorResult. wpath: text of the write handle's path. comps_ok(arr, path) -> (bool, text)."""
    fi = res.fi
    ip = res.interp
    site = fi.site
    n_checked = 0
    for p in res.paths:
        if getattr(p, "from_handler", False) or getattr(p, "raised", False):
            continue
        for label, evs in loop_groups(p).items():
            wr = [e for e in evs if e.kind == "write" and e.h.path.text() == wpath]
            if not wr:
                continue
            n_checked += 1
            tells = [e for e in evs if e.kind == "tell" and e.h.path.text() == wpath]
            key = "|".join(f"{c[0]}={c[1]}" for c in p.conds if not c[0].startswith("except"))[:80]
            # G7
            ok = len(tells) == 1 and p.events.index(tells[0]) < p.events.index(wr[0])
            ctx.check(ok, f"{prefix}.G7", site,
                      "the new offset of a box is tell() taken before that box's header is written, once per FAB",
                      f"offset capture: {len(tells)} tell() per FAB" + (", taken after bytes of the FAB were written"
                                                                        if tells and not ok else "") +
                      " — the recorded offset must be the position of the FAB header", key=key,
                      where=loc(fi, (tells[0] if tells else wr[0]).node))
            aps = [e for e in evs if e.kind == "append" and isinstance(e.value, Num) and
                   e.value.text().startswith("tell")]
            ctx.check(len(aps) == 1, f"{prefix}.G7", site, "the captured offset is appended to the offsets list once",
                      f"{len(aps)} offsets appended per FAB", key="append:" + key)
            # exactly header then data
            vals = [e.value for e in wr]
            ok = len(vals) == 2 and isinstance(vals[0], HdrV) and vals[0].kind == "bytes" and \
                isinstance(vals[1], BytesV) and vals[1].kind == "data"
            # a written value the interpreter cannot classify (an array handed to write() through the buffer protocol,
            # a memoryview ...) is outside the rule's domain: undecided, not a wrong sequence
            decidable = all(isinstance(v, (HdrV, BytesV)) for v in vals)
            ctx.decide(ok, decidable, f"{prefix}.G6", site, "each FAB is written as one bytes header followed by one data block",
                       f"per-FAB writes are {[v.text()[:60] for v in vals]} (needs header bytes, then data bytes)",
                       key="seq:" + key, where=loc(fi, wr[0].node),
                       why_unknown="a written value is not bytes the interpreter can account for")
            if not ok:
                continue
            hdr, data = vals
            arr = data.arr
            nb = arr.ncomps() if arr is not None and arr.has_comp_axis else None
            sub = path_subst(p)
            ok = nb is not None and ip.eq(Num(hdr.ncomp.r.subs(sub)), Num(nb.r.subs(sub)))
            ctx.check(ok, f"{prefix}.G6", site,
                      f"component count in the written FAB header ({hdr.ncomp.text()}) = components written after it",
                      f"the FAB header announces {hdr.ncomp.text()} components but "
                      f"{nb.text() if nb is not None else '?'} components are written after it: every later FAB of "
                      f"the file is misaligned for readers and validation", key="count:" + key,
                      where=loc(fi, wr[0].node), objects={"header": hdr.ncomp.text(),
                                                          "data": nb.text() if nb is not None else None})
            if hdr_fab_ok is not None:
                ok, txt = hdr_fab_ok(hdr, p)
                ctx.check(ok, f"{prefix}.G6-IDX", site, f"written header carries the box's index range ({txt})",
                          f"written header's index range comes from {txt}", key="idx:" + key, where=loc(fi, wr[0].node))
            # serialisation order and extents
            ok = arr.flat and arr.order == "F"
            ctx.check(ok, f"{prefix}.G2-ORDER", site, "data is serialised with flatten(order='F') (x fastest)",
                      f"data is serialised with order {arr.order!r} flat={arr.flat}", key="ser:" + key,
                      where=loc(fi, wr[1].node))
            dims = arr.dims
            ok = dims is not None and len(dims) >= ip.roles.ndims and all(
                ip.eq(dims[i], D(dims_fab, i)) for i in range(ip.roles.ndims)) and not arr.spatial
            ctx.check(ok, f"{prefix}.SHAPE", site, "written block has the box's extents, no spatial sub-selection",
                      f"written block has dims {[d.text() for d in dims or []]} spatial={arr.spatial}",
                      key="dims:" + key, where=loc(fi, wr[1].node))
            ok, txt = comps_ok(arr, p)
            ctx.check(ok, f"{prefix}.COMPONENTS", site, f"components written: {txt}",
                      f"components written are {txt}", key="comps:" + key, where=loc(fi, wr[1].node))
    return n_checked


def returns_offsets_first(ctx, prefix, res, tuple_ok=True):
    """the accessor returns the offsets list (alone or as element 0)"""
    fi = res.fi
    for e in res.events("return"):
        v = e.value
        first = v.items[0] if isinstance(v, Tup) and v.items else v
        ok = isinstance(first, ListAcc) and first.items and all(
            isinstance(i, Num) and i.text().startswith("tell") for i in first.items)
        ctx.check(ok, f"{prefix}.RETURN", fi.site, "returns the per-FAB offsets (in write order) first",
                  f"returns {v.text()[:80]}", where=loc(fi, e.node))


def rule_offset_capture(ctx, prefix, fi):
    """G7 for writers that are not run through the byte-accounting interpreter: the offset recorded for a box is the
    position of *its* binary file (`H.tell()` of the handle the box is written to) taken in the iteration that writes
    the box, before that iteration's first write to H.  Decided by provenance of the value appended to an offsets
    list inside the `with open(..., 'wb') as H` block; a hand-kept byte counter is a finding (it is not the position
    in the file the box goes to as soon as a level is split over several files)."""
    site = fi.site
    pm = parents(fi.node)
    handles = {}
    for w in walk_no_nested(fi.node):
        if isinstance(w, ast.With):
            for it in w.items:
                c = it.context_expr
                if isinstance(c, ast.Call) and norm(c.func) == "open" and it.optional_vars is not None:
                    mode = norm(c.args[1]) if len(c.args) > 1 else ""
                    if "b" in mode and ("w" in mode or "a" in mode):
                        handles[norm(it.optional_vars)] = w
    if not handles:
        ctx.unknown(f"{prefix}.G7", site, "no binary file opened for writing in a with-block", key="offset-capture")
        return
    verdicts = []
    for h, w in handles.items():
        writes = [c for c in ast.walk(w) if isinstance(c, ast.Call) and norm(c.func) == f"{h}.write"]
        tells = [c for c in ast.walk(w) if isinstance(c, ast.Call) and norm(c.func) == f"{h}.tell"]
        appends = [c for c in ast.walk(w) if isinstance(c, ast.Call) and isinstance(c.func, ast.Attribute)
                   and c.func.attr == "append" and len(c.args) == 1]
        for ap in appends:
            a = ap.args[0]
            loop = enclosing(ap, pm, (ast.For, ast.While))
            first_write = min((x.lineno for x in writes if loop is not None and enclosing(x, pm, (ast.For, ast.While)) is loop
                               or (loop is not None and any(x is y for y in ast.walk(loop)))), default=None)
            if isinstance(a, ast.Call) and norm(a.func) == f"{h}.tell":
                ok = first_write is None or a.lineno < first_write
                verdicts.append((ok, ap, f"`{norm(ap)}`" + ("" if ok else " is taken after the box was (partly) written")))
            elif isinstance(a, ast.Name):
                binds = [n for n in walk_no_nested(fi.node) if isinstance(n, (ast.Assign, ast.AugAssign)) and
                         norm(n.targets[0] if isinstance(n, ast.Assign) else n.target) == a.id]
                from_tell = [n for n in binds if isinstance(n, ast.Assign) and isinstance(n.value, ast.Call)
                             and norm(n.value.func) == f"{h}.tell"]
                by_hand = [n for n in binds if isinstance(n, ast.AugAssign) or
                           (isinstance(n, ast.Assign) and isinstance(n.value, ast.Constant))]
                counts_writes = any(isinstance(n, ast.AugAssign) and any(isinstance(c, ast.Call) and
                                    norm(c.func) == f"{h}.write" for c in ast.walk(n.value)) for n in binds) or \
                    any(isinstance(n, ast.AugAssign) and any(isinstance(c, ast.Call) and norm(c.func) in ("len",)
                                                             for c in ast.walk(n.value)) for n in binds)
                if from_tell and not by_hand:
                    t = from_tell[0]
                    same_loop = enclosing(t, pm, (ast.For, ast.While)) is loop
                    ok = same_loop and t.lineno < ap.lineno and (first_write is None or t.lineno < first_write)
                    verdicts.append((ok, ap, f"`{norm(t)}` then `{norm(ap)}`" + ("" if ok else
                                     " — the position is not taken in the iteration that writes the box, before its first write")))
                elif by_hand and (counts_writes or not from_tell) and any(
                        isinstance(n, ast.AugAssign) for n in binds) and tells == [] and counts_writes:
                    verdicts.append((False, ap, f"`{a.id}` is a byte counter kept by hand ({', '.join(norm(n)[:40] for n in by_hand[:3])}), "
                                                f"not `{h}.tell()`: it keeps counting across binary files, so every box of the "
                                                f"second and later files of a level gets an offset shifted by the size of the files "
                                                f"before it"))
    if not verdicts:
        ctx.unknown(f"{prefix}.G7", site, "no offset capture recognised (neither H.tell() provenance nor a hand-kept "
                                          "write counter)", key="offset-capture")
        return
    bad = [v for v in verdicts if not v[0]]
    ctx.check(not bad, f"{prefix}.G7", site,
              "the recorded box offset is the position of the box's own file, taken before the box is written: "
              + "; ".join(v[2] for v in verdicts[:2]),
              "; ".join(v[2] for v in bad[:2]), key="offset-capture", where=loc(fi, bad[0][1]) if bad else None,
              semantic=True)
