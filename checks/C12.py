"""C12 — results do not depend on worker count, task order or serial/parallel mode.

Non-interference argument over *all* pool call sites: tasks are deterministic lists; workers are pure functions
of (task, input files) (P3); outputs are disjoint (P4); results are paired positionally only through
order-preserving primitives or are self-describing (P1); scatter maps partition the boxes and follow the
worker's access order (P5, P6); nothing depends on the worker count (P7); serial twins run the same callee set
over the same task list in order (P8); lazy results are fetched (X2).
"""
import ast

from vk import pools, rules
from vk.model import norm, loc, AnalysisError, walk_no_nested, parents, enclosing
from checks import taskmaps

P = "C12"


def run(ctx):
    prog = ctx.prog
    n_par, n_ser = 0, 0
    by_fn = {}
    for fi in prog.all_functions():
        sites = pools.find_sites(prog, fi)
        if not sites:
            continue
        by_fn[fi.site] = sites
        for s in sites:
            if s.pool_kind in ("builtin-map", "serial-loop"):
                n_ser += 1
            else:
                n_par += 1
            if s.pool_kind == "unbound":
                # fails deterministically (NameError) whatever the schedule: decided by C03, not a schedule matter
                ctx.info(f"{P}.P1", fi.site, f"{s.key}: `{s.pool_expr}` is bound to no pool (deterministic failure; "
                                             f"see C03)")
                continue
            pools.rule_P1(ctx, P, s)
            pools.rule_X2(ctx, P, s)
            # task-key agreement (P2) is schedule-independent and owned by C03/C05/C06/C11
            pools.rule_P3(ctx, P, prog, s)
        pools.rule_P7(ctx, P, prog, fi)
    pools.rule_P3_full_state(ctx, P, prog)
    pools.rule_P3_module_ref(ctx, P, prog, ["amr_kitchen/chef/chef.py"])
    ctx.floor("parallel pool call sites", n_par, 18)
    ctx.floor("serial twins", n_ser, 3)
    ctx.note("sites", {k: [s.key for s in v] for k, v in by_fn.items()})
    # P8: serial twins apply the same callee set to the same task list
    for site, sites in by_fn.items():
        par = [s for s in sites if s.pool_kind not in ("builtin-map", "serial-loop")]
        ser = [s for s in sites if s.pool_kind in ("builtin-map", "serial-loop")]
        for t in ser:
            twins = [p for p in par if {w.qualname for w in p.workers} == {w.qualname for w in t.workers}]
            ok = bool(twins) and any(norm(p.task) == norm(t.task) for p in twins)
            ctx.check(ok, f"{P}.P8", site,
                      f"serial twin applies {sorted(w.qualname for w in t.workers)} to the same task list "
                      f"({norm(t.task)}) in order",
                      f"serial branch applies {sorted(w.qualname for w in t.workers)} to {norm(t.task)}; the parallel "
                      f"branch uses {[norm(p.task) for p in par]}: serial and parallel results can differ",
                      key=t.key, where=loc(t.fi, t.call))
            # P8b: between the point where the two modes part and the two calls, the task list is modified in the
            # same way in both (a sort / shuffle / filter in one mode only changes result order or content there)
            tname = t.task.id if isinstance(t.task, ast.Name) else None
            for p in twins if tname else []:
                fnode = t.fi.node
                pm = parents(fnode)
                anc_t = [a for a in _anc(t.call, pm)]
                fork = next((a for a in _anc(p.call, pm) if isinstance(a, ast.If) and a in anc_t), None)
                if fork is None:
                    continue

                def edits(stmts):
                    out = []
                    for st in stmts:
                        for n in ast.walk(st):
                            if isinstance(n, ast.Call) and isinstance(n.func, ast.Attribute) and \
                                    isinstance(n.func.value, ast.Name) and n.func.value.id == tname and \
                                    n.func.attr in ("sort", "reverse", "pop", "insert", "append", "extend", "remove", "clear"):
                                out.append(norm(n))
                            elif isinstance(n, ast.Call) and norm(n.func).split(".")[-1] in ("shuffle",) and n.args and \
                                    isinstance(n.args[0], ast.Name) and n.args[0].id == tname:
                                out.append(norm(n))
                            elif isinstance(n, (ast.Assign, ast.AugAssign)):
                                tg = n.targets if isinstance(n, ast.Assign) else [n.target]
                                for x in tg:
                                    b = x
                                    while isinstance(b, ast.Subscript):
                                        b = b.value
                                    if isinstance(b, ast.Name) and b.id == tname:
                                        out.append(norm(n))
                            elif isinstance(n, ast.Delete) and any(tname in norm(x) for x in n.targets):
                                out.append(norm(n))
                    return sorted(out)
                in_body = any(t.call is x for st in fork.body for x in ast.walk(st))
                e_ser = edits(fork.body if in_body else fork.orelse)
                e_par = edits(fork.orelse if in_body else fork.body)
                ctx.check(e_ser == e_par, f"{P}.P8", site,
                          f"the task list `{tname}` reaches the serial and the parallel call unchanged (or changed alike)",
                          f"the task list `{tname}` is modified in one mode only (serial branch: {e_ser or 'nothing'}; "
                          f"parallel branch: {e_par or 'nothing'}): results are collected in task order, so the two modes "
                          f"produce differently ordered (or different) outputs", key=t.key + ":edits",
                          where=loc(t.fi, fork), semantic=True)
    # P5/P6 scatter maps of the three per-file writers + combine
    specs = [("amr_kitchen/colander/colander.py", "Colander.strain", "self.cells[lv]['files']",
              "len(self.cells[lv]['files'])", "self.cells[lv]['offsets']", "box_index_map", "mp_calls", False),
             ("amr_kitchen/chef/chef.py", "Chef.cook", "self.cells[lv]['files']", "len(self.cells[lv]['files'])",
              "self.cells[lv]['offsets']", "box_index_map", "mp_calls", True),
             ("amr_kitchen/chk2plt/chk2plt.py", "chk2plt.convert", "self.boxes[level]['state_paths']",
              "self.nboxes[level]", "self.boxes[level]['state_offsets']", "state_bin_box_ids", "mp_args", True)]
    for rel, q, tab, n, offs, mp, tasks, srt in specs:
        taskmaps.map_and_tasks(ctx, P, prog.func(rel, q, P), tab, n, offs, mp, tasks, srt)
    # P4 for combine's task generators: distinct output file per task of one pool call
    from checks import C06
    for q in ("PlotfileCooker.by_binfile_output", "PlotfileCooker.by_matched_offsets_output"):
        g = prog.func("amr_kitchen/plotfile_cooker.py", q, P)
        pl, _forms = C06.generator_order(ctx, g)
        if pl is None:
            ctx.unknown(f"{P}.P4", g.site, "per-file task loop of the generator not recognised", key="bfile_w")
        else:
            C06.generator_p4(ctx, P, g, pl)
    # whip: levels strictly sequential around the unordered pool (P1b barrier)
    wm = prog.func("amr_kitchen/whip/cli.py", "main", P)
    for s in by_fn.get(wm.site, []):
        pm = parents(wm.node)
        lvloop = [a for a in _anc(s.call, pm) if isinstance(a, ast.For) and "limit_level" in norm(a.iter)]
        withs = [a for a in _anc(s.call, pm) if isinstance(a, ast.With)]
        inside = bool(lvloop) and bool(withs) and any(w in list(ast.walk(lvloop[0])) for w in withs)
        ctx.check(inside, f"{P}.P1b", wm.site,
                  "the unordered pool lives inside the ascending level loop and is drained there: finer levels "
                  "overwrite coarser ones only after the coarser level is complete",
                  "the unordered pool call is not enclosed (with its pool context) by the ascending level loop: "
                  "coarse results may overwrite fine ones depending on completion order", where=loc(wm, s.call))
    # mandoline: per-level results collected in level order, reduction ascending
    for q in ("Mandoline.slice", "Mandoline.plate"):
        fi = prog.func("amr_kitchen/mandoline/mandoline.py", q, P)
        pm = parents(fi.node)
        for s in by_fn.get(fi.site, []):
            lvloop = [a for a in _anc(s.call, pm) if isinstance(a, ast.For)]
            ok = bool(lvloop) and norm(lvloop[0].iter) == "range(self.limit_level + 1)" and s.consumer[0] == "positional"
            ctx.check(ok, f"{P}.P1b", fi.site, f"{s.pool_kind}: one ordered result list per level, appended in ascending "
                                               f"level order", f"{s.pool_kind}: per-level collection changed",
                      key=s.key + ":" + s.pool_kind)
    ctx.assume("multiprocessing.Pool.map/imap and pathos imap return results in task order; imap_unordered/uimap do not")
    return ("Static non-interference over all pool call sites of the package: primitive ordering vs consumer kind, "
            "task keys, worker purity incl. parent-assigned globals vs persistent pools, no worker-count reads, lazy "
            "results fetched, serial twins, scatter maps in semantic normal form, level barriers. Every completion "
            "order is covered because the rules do not depend on any order. Decides DESIGN §4.C12.",
            ["vk/pools.py", "multiprocessing / pathos ordering and pool-lifetime semantics (encoded)"])


def _anc(n, pm):
    n = pm.get(n)
    while n is not None:
        yield n
        n = pm.get(n)
