"""C13 — tools never touch their inputs and report failures instead of returning.

E3: every write sink classified by path class (W1), default outputs derived from the input are
normalised siblings (W2), read-only tools have no sink (W3); exception flow: no sink under a
swallowing handler (X1), lazy pool results fetched (X2), CLI mains do not turn a failure into exit
status 0 (X3).
"""
import ast

from vk import paths, pools, rules
from vk.model import norm, loc, AnalysisError, walk_no_nested, parents, FunctionInfo

P = "C13"
BROAD = {None, "Exception", "BaseException", "OSError", "IOError", "EnvironmentError", "PermissionError"}
READ_ONLY_MAINS = [("amr_kitchen/taste/cli.py", "main"), ("amr_kitchen/menu/cli.py", "main"),
                   ("amr_kitchen/minuterie.py", "main"), ("amr_kitchen/pestle/cli.py", "main")]
MAINS = ["amr_kitchen/chef/cli.py", "amr_kitchen/chk2plt/cli.py", "amr_kitchen/colander/cli.py",
         "amr_kitchen/combine/cli.py", "amr_kitchen/mandoline/cli.py", "amr_kitchen/menu/cli.py",
         "amr_kitchen/pestle/cli.py", "amr_kitchen/taste/cli.py", "amr_kitchen/whip/cli.py",
         "amr_kitchen/minuterie.py", "amr_kitchen/marinate.py"]


def evaluator(penv, wk, fi):
    if fi.site in wk:
        return paths.WorkerEval(penv, fi, wk[fi.site]).run()
    return paths.FunEval(penv, fi).run()


def sink_rules(ctx, prefix, modules=None, floor=None):
    """W1 over every sink of the selected modules; returns (sinks, functions with sinks)"""
    prog = ctx.prog
    penv = paths.PathEnv(prog)
    wk = paths.worker_param_classes(penv, prog)
    all_sinks = []
    for fi in prog.all_functions():
        if modules is not None and fi.module.relpath not in modules:
            continue
        sinks, opens = paths.find_sinks(prog, fi)
        if not sinks and not opens:
            continue
        fe = evaluator(penv, wk, fi)
        for s in sinks:
            s.classes = fe.ev(s.path_node)
            all_sinks.append(s)
            inside = s.classes & paths.INSIDE
            known = s.classes - {"UNK", "NONE", "OTHER"}
            if not known:
                raise AnalysisError(f"{prefix}.W1", fi.site, f"cannot classify the path of write sink {s.key} "
                                                             f"(classes {sorted(s.classes)})")
            if "MANGLED" in s.classes:
                ctx.finding(f"{prefix}.W1", fi.site,
                            f"write sink {s.kind} on `{norm(s.path_node)[:70]}`: the path is cut by text at a character "
                            f"that is not the separator (split/rsplit/partition); when that character sits in a "
                            f"directory component (`./out/x`, `run.1/plt00000`) the piece kept names another "
                            f"directory — the file lands outside the requested output, possibly inside an input "
                            f"(use os.path.splitext)", key=s.key + ":mangled", where=loc(fi, s.node), semantic=True)
            ctx.check(not inside, f"{prefix}.W1", fi.site,
                      f"sink {s.kind} on `{norm(s.path_node)[:50]}` is rooted at {sorted(known)} (never inside an input)",
                      f"write sink {s.kind} on `{norm(s.path_node)[:60]}` can be {sorted(inside)}: it creates/modifies/"
                      f"removes something inside an input plotfile or checkpoint", key=s.key, where=loc(fi, s.node),
                      objects={"classes": sorted(s.classes)})
        pm = parents(fi.node)
        for o, mode in opens:
            if set(mode) & paths.WRITE_MODES or mode == "?":
                # X5: a handle opened for writing is closed deterministically (with-statement, or an explicit close
                # of the name it is bound to): an I/O error of the final flush then raises in the tool instead of
                # being swallowed when the handle is garbage-collected
                raw = any(k.arg == "buffering" and isinstance(k.value, ast.Constant) and k.value.value == 0 for k in o.keywords) \
                    or (len(o.args) > 2 and isinstance(o.args[2], ast.Constant) and o.args[2].value == 0)
                ctx.check(not raw, f"{prefix}.X6", fi.site,
                          f"write handle on `{norm(o.args[0])[:40]}` is buffered (write() takes all bytes or raises)",
                          f"`{norm(o)[:70]}` opens an unbuffered (raw) file for writing: its write() may accept fewer bytes "
                          f"than it is given (disk full, quota) and only returns the count - an I/O fault inside that "
                          f"write is neither retried nor raised and the tool returns normally with a truncated file",
                          key=f"raw:{norm(o.args[0])[:40]}", where=loc(fi, o), semantic=True)
                par = pm.get(o)
                managed = isinstance(par, ast.withitem) and par.context_expr is o
                if not managed and isinstance(par, ast.Assign) and len(par.targets) == 1 and isinstance(par.targets[0], ast.Name):
                    h = par.targets[0].id
                    managed = any(isinstance(c, ast.Call) and norm(c.func) == f"{h}.close" for c in ast.walk(fi.node)) or \
                        any(isinstance(w, ast.withitem) and norm(w.context_expr) == h for w in ast.walk(fi.node))
                ctx.check(managed, f"{prefix}.X5", fi.site,
                          f"write handle on `{norm(o.args[0])[:40]}` is closed by a with-statement / explicit close",
                          f"`{norm(o)[:70]}` opens a file for writing but the handle is neither managed by a "
                          f"with-statement nor closed: its last buffered bytes are written when the object is collected, "
                          f"where an I/O error (disk full, quota) is swallowed — the tool returns normally with a "
                          f"truncated output", key=f"close:{norm(o.args[0])[:40]}", where=loc(fi, o), semantic=True)
                continue
            ctx.ok(f"{prefix}.W0", fi.site, f"open `{norm(o.args[0])[:40]}` is read-only ({mode})",
                   key=f"open:{norm(o.args[0])[:40]}")
    return all_sinks, penv, wk


def default_rules(ctx, prefix, penv, wk, modules=None):
    """W2: where a default output is derived from an input path it must be a normalised sibling"""
    prog = ctx.prog
    n = 0
    for fi in prog.all_functions():
        if modules is not None and fi.module.relpath not in modules:
            continue
        fe = None
        for a in walk_no_nested(fi.node):
            val, tgt = None, None
            if isinstance(a, ast.Assign):
                val, tgt = a.value, norm(a.targets[0])
            elif isinstance(a, ast.Call) and isinstance(a.func, ast.Name) and a.func.id == "open" and a.args:
                val, tgt = a.args[0], "open"
            elif isinstance(a, ast.Return) and a.value is not None:
                val, tgt = a.value, "return"
            if val is None:
                continue
            if not any(isinstance(x, (ast.BinOp, ast.Call, ast.JoinedStr)) for x in [val]):
                continue
            if isinstance(val, ast.Call) and any(isinstance(t, FunctionInfo) for t in prog.resolve_callable(fi, val.func)):
                continue   # the origin is the callee's return expression
            if fe is None:
                fe = evaluator(penv, wk, fi)
            cl = fe.ev(val)
            derived = cl & ({"IN_SIB", "IN_SIB_RAW", "IN_SIB_SAME", "NAMECAT_RAW"})
            if not derived:
                continue
            # origin only: no sub-expression name already carries the class
            sub = set()
            for x in ast.walk(val):
                if x is not val and isinstance(x, (ast.Name, ast.Attribute)) and not isinstance(getattr(x, "ctx", None), ast.Store):
                    sub |= fe.ev(x)
            if derived <= sub:
                continue
            n += 1
            bad = cl & paths.BAD_DEFAULT
            why = {"IN_SIB_RAW": "derived from the *unnormalised* input path: with a trailing separator "
                                 "(`tool plt00100/`) the 'sibling' lands inside the input directory",
                   "IN_SIB_SAME": "the new name is the input's name passed through str.replace, which is the identity "
                                  "when the pattern does not occur: the output is then the input directory itself",
                   "NAMECAT_RAW": "concatenates the last components of *unnormalised* input paths: with a trailing "
                                  "separator a component is '' and the output can be one of the inputs"}
            ctx.check(not bad, f"{prefix}.W2", fi.site,
                      f"default output `{tgt} = {norm(val)[:60]}` is a normalised sibling of the input",
                      f"default output `{tgt} = {norm(val)[:70]}` is {sorted(bad)}: " + "; ".join(why[b] for b in sorted(bad)),
                      key=f"{tgt}", where=loc(fi, a), objects={"classes": sorted(cl)})
    return n


def reach_sinks(prog, sinks):
    """functions that transitively reach a write sink"""
    has = {s.fi.site for s in sinks}
    changed = True
    funcs = list(prog.all_functions())
    edges = {f.site: {t.site for _, tg, _ in prog.callees(f) for t in tg} for f in funcs}
    while changed:
        changed = False
        for f in funcs:
            if f.site not in has and edges[f.site] & has:
                has.add(f.site)
                changed = True
    return has


def exception_rules(ctx, prefix, sinks, modules=None):
    prog = ctx.prog
    reach = reach_sinks(prog, sinks)
    n_try = 0
    for fi in prog.all_functions():
        if modules is not None and fi.module.relpath not in modules:
            continue
        pm = parents(fi.node)
        for t in [n for n in walk_no_nested(fi.node) if isinstance(n, ast.Try)]:
            n_try += 1
            broad = [h for h in t.handlers if (norm(h.type) if h.type is not None else None) in BROAD
                     or (isinstance(h.type, ast.Tuple) and any(norm(e) in BROAD for e in h.type.elts))]
            completing = [h for h in broad if not rules.always_raises(h.body)]
            if not completing:
                continue
            # what does the try body do?
            risky = []
            for b in t.body:
                for c in ast.walk(b):
                    if not isinstance(c, ast.Call):
                        continue
                    ext = prog.external_name(fi.module, c.func) if isinstance(c.func, (ast.Attribute, ast.Name)) else None
                    if ext in paths.SINK_CALLS:
                        risky.append(f"{ext} (sink)")
                    if isinstance(c.func, ast.Name) and c.func.id == "open" and (set(paths.open_mode(c)) & paths.WRITE_MODES):
                        risky.append("open-for-write (sink)")
                    if isinstance(c.func, ast.Attribute) and c.func.attr in ("write", "tofile", "dump", "savefig"):
                        risky.append(f".{c.func.attr}() (write)")
                    for tg in prog.resolve_callable(fi, c.func):
                        if tg.site in reach:
                            risky.append(f"call of {tg.qualname} (reaches a write sink)")
                    if isinstance(c.func, ast.Attribute) and c.func.attr in pools.ORDERED | pools.UNORDERED:
                        risky.append(f"pool.{c.func.attr} (worker failures)")
            is_main = fi.qualname == "main"
            if risky:
                ctx.finding(f"{prefix}.X1", fi.site,
                            f"a handler `except {norm(completing[0].type) if completing[0].type else ''}` that can "
                            f"complete encloses {sorted(set(risky))}: an I/O fault there is swallowed and the caller "
                            f"sees a normal return", key=f"try:{norm(t.body[0])[:40]}", where=loc(fi, completing[0]))
            else:
                ctx.ok(f"{prefix}.X1", fi.site, f"broad handler encloses no write / sink / pool fetch "
                                                f"({norm(t.body[0])[:40]})", key=f"try:{norm(t.body[0])[:40]}")
            if is_main:
                # X3: the handler must not leave with status 0
                for h in completing:
                    exits = [c for s in h.body for c in ast.walk(s) if isinstance(c, ast.Call)
                             and norm(c.func) in ("sys.exit", "exit", "quit", "os._exit")]
                    zero = [c for c in exits if not c.args or (isinstance(c.args[0], ast.Constant)
                                                               and c.args[0].value in (0, None))]
                    falls = not exits
                    ctx.check(not zero and not falls, f"{prefix}.X3", fi.site,
                              "the CLI's handler leaves with a non-zero status",
                              f"the CLI catches the failure of `{norm(t.body[0])[:50]}` and "
                              f"{'calls sys.exit() with status 0' if zero else 'continues'}: an unreadable input is "
                              f"reported as success to the caller", key=f"main-try:{norm(t.body[0])[:40]}",
                              where=loc(fi, h))
    return n_try


# functions of the confirmed tree whose fromfile results are deliberately consumed flat (one line of reason each)
FLAT_READS_CONFIRMED = {
}


def short_read_rules(ctx, prefix):
    """np.fromfile returns *fewer* values than asked for at end of file without raising; the reshape to the exact
    shape is what turns a truncated binary file into an exception.  A wildcard dimension (-1) in a reshape of
    fromfile data accepts the short read, and the tool then writes short FABs and returns normally."""
    prog = ctx.prog
    n = 0
    for fi in prog.all_functions():
        if not any(isinstance(c, ast.Call) and norm(c.func) in ("np.fromfile", "numpy.fromfile")
                   for c in walk_no_nested(fi.node)):
            continue
        n += 1
        wild = []
        for c in walk_no_nested(fi.node):
            if isinstance(c, ast.Call) and isinstance(c.func, ast.Attribute) and c.func.attr == "reshape":
                def minus_one(x):
                    return isinstance(x, ast.UnaryOp) and isinstance(x.op, ast.USub) and \
                        isinstance(x.operand, ast.Constant) and x.operand.value == 1
                for a in c.args:
                    if minus_one(a) or (isinstance(a, (ast.Tuple, ast.List)) and any(minus_one(e) for e in a.elts)):
                        wild.append(c)
        ctx.check(not wild, f"{prefix}.X4", fi.site,
                  "data read with np.fromfile is reshaped to its exact shape (a short read raises)",
                  f"`{norm(wild[0])[:70] if wild else ''}` has a wildcard dimension: np.fromfile silently returns fewer "
                  f"values at the end of a truncated file, and with -1 the reshape no longer fails — the tool carries on "
                  f"with a short box and returns normally instead of reporting the unreadable input", key="short-read",
                  where=loc(fi, wild[0]) if wild else None, semantic=True)
        # X4 (flat use): a fromfile result that is consumed without ever being reshaped to an exact shape (summed,
        # appended, compared as a flat vector) has no statement left that fails on a short read
        pm = parents(fi.node)
        flat = []
        for c in walk_no_nested(fi.node):
            if not (isinstance(c, ast.Call) and norm(c.func) in ("np.fromfile", "numpy.fromfile")):
                continue
            par = pm.get(c)
            if isinstance(par, ast.Attribute) and par.attr == "reshape":
                continue
            if isinstance(par, ast.Call) and norm(par.func) in ("np.reshape", "numpy.reshape") and par.args and par.args[0] is c:
                continue
            if isinstance(par, ast.Assign) and len(par.targets) == 1 and isinstance(par.targets[0], ast.Name):
                v = par.targets[0].id
                uses = [u for u in walk_no_nested(fi.node) if isinstance(u, ast.Name) and u.id == v and isinstance(u.ctx, ast.Load)
                        and getattr(u, "lineno", 0) >= par.lineno]
                shaped = [u for u in uses if (isinstance(pm.get(u), ast.Attribute) and pm[u].attr == "reshape") or
                          (isinstance(pm.get(u), ast.Call) and norm(pm[u].func) in ("np.reshape", "numpy.reshape"))]
                sized = [u for u in uses if isinstance(pm.get(u), ast.Call) and norm(pm[u].func) == "len" or
                         (isinstance(pm.get(u), ast.Attribute) and pm[u].attr in ("size", "shape", "nbytes"))]
                if uses and not shaped and not sized:
                    flat.append((c, v, uses[0]))
            elif isinstance(par, ast.Expr):
                continue        # a read used only to advance the file position
            else:
                # passed straight into another expression (np.sum(np.fromfile(..)), list.append(np.fromfile(..)))
                if not (isinstance(par, ast.Return)):
                    flat.append((c, None, c))
        if fi.site not in FLAT_READS_CONFIRMED:
            ctx.check(not flat, f"{prefix}.X4", fi.site, "every np.fromfile result meets an exact-shape reshape (or a size test) before it is used",
                      (f"`{norm(flat[0][0])[:60]}` is used as a flat vector (`{flat[0][1] or 'inline'}` never meets an exact-shape "
                       f"reshape or a size test): at the end of a truncated file np.fromfile returns fewer values without "
                       f"raising, and nothing downstream fails - the tool carries on with a short box and returns normally")
                      if flat else "", key="flat-read", where=loc(fi, flat[0][0]) if flat else None, semantic=True)
    ctx.floor("functions reading FAB data with np.fromfile", n, 20)


def run(ctx):
    prog = ctx.prog
    sinks, penv, wk = sink_rules(ctx, P)
    ctx.floor("write sinks classified", len(sinks), 38)
    ctx.note("sinks", {"count": len(sinks),
                       "by_class": {c: sum(1 for s in sinks if c in s.classes) for c in
                                    sorted({c for s in sinks for c in s.classes})}})
    n_def = default_rules(ctx, P, penv, wk)
    ctx.floor("default-output derivations", n_def, 4)
    # W3 read-only tools
    sink_sites = {s.fi.site for s in sinks}
    for rel, q in READ_ONLY_MAINS:
        main = prog.func(rel, q, P)
        reach = prog.reachable([main])
        # classes constructed by the main
        bad = [f.site for f in reach if f.site in sink_sites]
        ctx.check(not bad, f"{P}.W3", main.site, f"read-only tool reaches no write sink ({len(reach)} functions)",
                  f"read-only tool reaches write sinks in {bad}", key="read-only")
    exception_rules(ctx, P, sinks)
    short_read_rules(ctx, P)
    # X2 over all pool sites
    n_sites = 0
    for fi in prog.all_functions():
        for s in pools.find_sites(prog, fi):
            if s.pool_kind in ("builtin-map", "serial-loop"):
                continue
            n_sites += 1
            pools.rule_X2(ctx, P, s)
            if s.prim == "map":
                ctx.ok(f"{P}.X2", fi.site, "pool.map re-raises worker exceptions in the parent", key=s.key)
    ctx.floor("pool call sites", n_sites, 15)
    # the functions that collect worker results must not absorb a short / mismatched result (library calls that repeat,
    # truncate or clip instead of raising): the failure would end in a normal return
    from vk import generic
    for fi in prog.all_functions():
        if fi.module.relpath not in prog.excluded and pools.find_sites(prog, fi):
            generic.rule_lib_pitfall(ctx, P, fi)
    for rel in MAINS:
        prog.func(rel, "main", P)
    ctx.assume("multiprocessing / pathos re-raise a worker's exception when its result is fetched")
    ctx.assume("not modelled: symlinks, an --output the user deliberately points inside the input")
    return ("Static: path-class abstract interpretation (input raw/normalised/child/name/parent/sibling, output, "
            "cwd, new name) through locals, attributes, call arguments, generator-produced task dicts and tuple "
            "tasks; all write sinks classified; default-output derivations checked at their origin; read-only tools "
            "reach no sink; no sink/write/pool fetch under a completing broad handler; CLI handlers exit non-zero. "
            "Covers every invocation form and every crash point by exception flow. Decides structural clauses of "
            "DESIGN §4.C13.",
            ["vk/paths.py class algebra (os.path semantics)", "Python exception propagation",
             "multiprocessing/pathos re-raise on fetch"])
