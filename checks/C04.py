"""C04 — taste rejects missing, truncated, shifted or inconsistent plotfile data."""
import ast

from vk import pools, rules, formulas
from vk.model import norm, loc, AnalysisError, walk_no_nested
from checks import tastelib as tl, hfab
from checks.C03 import box_coordinate_rules

P = "C04"
TT = tl.TT


def structure_pass(ctx):
    fi = ctx.prog.func(TT, "Taster.taste_plotfile_structure", P)
    site = fi.site
    pls = pools.perfile_loops(fi)
    ok = len(pls) == 1 and pls[0].table == "self.cells[lv]['files']"
    ctx.check(ok, f"{P}.P5b", site, "missing-file scan visits np.unique(files) of each validated level",
              f"missing-file scan iterates {[p.table for p in pls]}")
    if not ok:
        return
    pl = pls[0]
    env = rules.local_env(fi.node)
    listing = env.get("lv_files")
    ok = listing is not None and norm(listing) == "os.listdir(os.path.join(self.pfile, self.cell_paths[lv]))"
    ctx.check(ok, f"{P}.STRUCTURE", site, "directory listing is taken from the same level's directory",
              f"level listing is {norm(listing) if listing is not None else None}")
    hit = False
    for n in ast.walk(pl.loop):
        if isinstance(n, ast.If) and isinstance(n.test, ast.Compare) and isinstance(n.test.ops[0], ast.NotIn):
            l, r = norm(n.test.left), norm(n.test.comparators[0])
            name_ok = rules.leaf_text(n.test.left, env, None) in (f"os.path.split({pl.var})[-1]",
                                                                  f"os.path.basename({pl.var})")
            rep = any(isinstance(x, ast.Call) and norm(x.func) == "self.raise_error" for s in n.body for x in ast.walk(s))
            hit = name_ok and r == "lv_files" and rep
    ctx.check(hit, f"{P}.STRUCTURE", site, "a binary file whose basename is not in its level directory is reported",
              "no `basename(file) not in listing -> raise_error` test in the missing-file scan", key="missing-file")
    formulas.rule_level_range(ctx, f"{P}.LEVEL-RANGE", fi)


def run(ctx):
    prog = ctx.prog
    taste, cfgs = tl.configurations(prog, P)
    # must-pass-through under the default flags, and with box coordinates on
    default = (True, True, False, False)
    must, may = cfgs[default]
    need = ["taste_plotfile_structure", "taste_binary_headers", "taste_binary_shape"]
    missing = [m for m in need if m not in must]
    ctx.check(not missing, f"{P}.MUST-PASS", taste.site,
              f"default validation runs {need} on every path of taste()",
              f"default validation can complete without {missing} (every path of taste() under the default flags "
              f"must pass through structure, binary-header and binary-shape validation)", key="default",
              where=loc(taste, taste.node))
    must_c, _ = cfgs[(True, True, False, True)]
    ctx.check("taste_box_coordinates" in must_c and not [m for m in need if m not in must_c], f"{P}.MUST-PASS",
              taste.site, "with box-coordinate validation on, taste_box_coordinates also runs on every path",
              "box-coordinate validation does not run on every path when enabled", key="box-coords")
    # early exits in taste(): no return before the passes
    rets = [n for n in walk_no_nested(taste.node) if isinstance(n, ast.Return)]
    ctx.check(not rets, f"{P}.MUST-PASS", taste.site, "taste() has no early return", f"taste() returns early at "
              f"line(s) {[r.lineno for r in rets]}", key="no-early-return")
    tl.check_error_discipline(ctx, P)
    tl.check_reader_wrapping(ctx, P)
    tl.check_workers_no_swallow(ctx, P)
    # a check the command line switches off by default rejects nothing: CLI defaults = API defaults
    tl.cli_wiring(ctx, P)
    tl.check_consumers(ctx, P)
    tl.headers_worker(ctx, P)
    tl.shape_worker(ctx, P)
    tl.task_builder(ctx, P, "Taster.taste_binary_headers",
                    {"bfile": "file", "offsets": "offsets_sorted", "indices": "indices_sorted",
                     "box_ids": "ids_sorted", "nfields": "nfields", "lv": "lv"})
    tl.task_builder(ctx, P, "Taster.taste_binary_shape",
                    {"bfile": "file", "indices": "indices_sorted", "box_ids": "ids_sorted",
                     "nfields": "nfields", "lv": "lv"})
    structure_pass(ctx)
    hfab.check_builder(ctx, P)
    for nme in ("shape_from_header", "indexes_and_shape_from_header"):
        hfab.check_parser(ctx, P, nme)
    box_coordinate_rules(ctx, P)
    for q in ("Taster.taste_binary_headers", "Taster.taste_binary_shape"):
        formulas.rule_level_range(ctx, f"{P}.LEVEL-RANGE", prog.func(TT, q, P))
    # the validator methods themselves do not swallow
    for q in ("Taster.taste", "Taster.taste_plotfile_structure", "Taster.taste_binary_headers",
              "Taster.taste_binary_shape", "Taster.taste_box_coordinates"):
        m = prog.func(TT, q, P)
        sw = rules.swallowing_handlers(m.node)
        ctx.check(not sw, f"{P}.NO-SWALLOW", m.site, "no completing exception handler in the validation pass",
                  f"exception handler at line(s) {[h.lineno for _, h in sw]} can swallow a validation failure",
                  where=loc(m, sw[0][1]) if sw else None)
    if ctx.tier == "thorough":
        hfab.check_sibling_parsers(ctx, P)
        from checks import C02
        C02.reader_grammar_rules(ctx, P)
    ctx.assume("each listed corruption changes at least one of the compared quantities (follows from the format)")
    return ("Static: must-pass-through of the default validation passes on taste()'s flag-propagated paths; error "
            "discipline (isgood stored before raise/print, raise iff fail_on_bad, constructor handler, __bool__); "
            "checked pairs decided on the abstract interpretation of the two workers (index range and component "
            "count at each recorded offset; whole-FAB step 8*C*N, next line vs canonical header of the next "
            "offset-sorted box, end of last FAB vs EOF, all exact !=); co-sorted per-file tables; full walk "
            "coverage; no swallowing handlers; reader failures re-raised. Decides structural clauses of DESIGN "
            "§4.C04, not that each concrete corruption trips a comparison.",
            ["vk/fabio.py", "vk/rules.py", "Python exception semantics"])
