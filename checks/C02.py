"""C02 — opening a plotfile exposes exactly the metadata its headers state.

H-READ: the reader's extracted line grammar equals the AMReX oracle (structure, repeat
counts, parse kinds, public attribute targets); H-TOK: per-line token semantics by
abstract evaluation of the parse fragment on a template line; limit comparator; grid
formulas; header_only guard; level/dimension coherence.
"""
import ast

from vk import grammar, rules, formulas
from vk.grammar import Line, Repeat, Cond, Rest, Until
from vk.formulas import A
from vk.model import norm, loc, AnalysisError, walk_no_nested, parents, enclosing
from vk.poly import Poly, Ratio
from checks import hfab
from checks.hfab import SEval, SFile, SInt, SVec, Unknown, flat

PC = "amr_kitchen/plotfile_cooker.py"


def parse_kind(parse):
    """semantic class of a parse form (text with LINE placeholder)"""
    try:
        t = ast.parse(parse, mode="eval").body
    except SyntaxError:
        return "other"

    def from_line(n):
        """n is LINE possibly followed by str clean-ups (strip/replace/rstrip) and token picks"""
        while True:
            if isinstance(n, ast.Name) and n.id == "LINE":
                return True
            if isinstance(n, ast.Call) and isinstance(n.func, ast.Attribute) and \
                    n.func.attr in ("strip", "rstrip", "lstrip", "replace", "split"):
                n = n.func.value
                continue
            if isinstance(n, ast.Subscript):
                n = n.value
                continue
            return False
    if isinstance(t, ast.Name) and t.id == "LINE":
        return "raw"
    if isinstance(t, ast.Compare) and len(t.ops) == 1 and isinstance(t.ops[0], ast.Eq):
        sides = [t.left, t.comparators[0]]
        for s in sides:
            if isinstance(s, ast.Call) and norm(s.func) == "int" and from_line(s.args[0]):
                other = sides[1 - sides.index(s)]
                return f"int=={norm(other)}"
    if isinstance(t, ast.Call):
        fn = norm(t.func)
        if fn in ("list", "tuple") and len(t.args) == 1 and not t.keywords:
            return parse_kind(norm(t.args[0]))      # list(tokens): the same tokens
        if fn in ("int", "float") and len(t.args) == 1 and from_line(t.args[0]):
            picks = "[" in norm(t.args[0])
            return fn + ("-first-token" if picks else "")
        if fn.endswith(".append") and t.args:
            return parse_kind(norm(t.args[0]))
        if fn in ("np.array", "numpy.array") and t.args and from_line(t.args[0]):
            dt = next((norm(k.value) for k in t.keywords if k.arg == "dtype"), "")
            if "split(',')" in norm(t.args[0]):
                return "csv"        # which values are kept is decided by evaluating the fragment (H-TOK)
            return {"float": "floats", "int": "ints"}.get(dt, "tokens")
        if isinstance(t.func, ast.Attribute) and from_line(t):
            if t.func.attr == "split":
                sep = norm(t.args[0]) if t.args else ""
                return {"": "tokens", "','": "csv"}.get(sep, f"split{sep}")
            return "str"
    if isinstance(t, ast.ListComp) and len(t.generators) == 1:
        g = t.generators[0]
        if isinstance(g.iter, ast.Call) and isinstance(g.iter.func, ast.Attribute) and g.iter.func.attr == "split" \
                and from_line(g.iter) and not g.iter.args:
            e = t.elt
            if isinstance(e, ast.Call) and norm(e.func) in ("float", "int") and norm(e.args[0]) == norm(g.target):
                return norm(e.func) + "s"
            if norm(e) == norm(g.target):
                return "tokens"
    if isinstance(t, ast.Subscript) and from_line(t):
        if "split('/')" in parse:
            return "path-head"
        if "split()" in parse:
            return "token-pick"
        return "str"
    return "other"


# oracle: (slot, kind set, public target or None)
HEADER_ORACLE = [
    ("version", {"raw"}, "self.version"),
    ("nvars", {"int"}, "self.nvars"),
    ("REP", "self.nvars", [("name", {"str"}, None)]),
    ("ndims", {"int"}, "self.ndims"),
    ("time", {"float"}, "self.time"),
    ("max_level", {"int"}, "self.max_level"),
    ("geo_low", {"floats"}, "self.geo_low"),
    ("geo_high", {"floats"}, "self.geo_high"),
    ("ref_ratio", {"ints"}, "self.factors"),
    ("domain", {"token-pick"}, None),
    ("steps", {"ints"}, "self.step_numbers"),
    ("REP", "1 + self.max_level", [("dx", {"floats"}, None)]),
    ("coord_sys", {"raw"}, "self.sys_coord"),
    ("zero", {"int==0"}, "assert"),
    ("REP", "1 + self.limit_level", [
        ("level_line", {"tokens"}, None),
        ("level_step", {"raw"}, None),
        ("REP", "n_cells", [("REP", "self.ndims", [("box_lo_hi", {"floats"}, None)])]),
        ("level_path", {"path-head"}, None),
    ]),
]

CELLH_ORACLE = [
    ("REP", "1 + self.limit_level", [
        ("version", {"raw"}, ""), ("how", {"raw"}, ""), ("nfields", {"raw"}, None), ("nghost", {"raw"}, ""),
        ("nboxes_open", {"int-first-token"}, "n_cells"),
        ("REP", "n_cells", [("index_line", {"tokens"}, None)]),
        ("close_paren", {"raw"}, ""),
        ("nfab", {"int==n_cells"}, "assert"),
        ("REP", "n_cells", [("fabondisk", {"tokens"}, None)]),
        ("COND", "maxmins", [
            ("blank", {"raw"}, ""), ("min_dims", {"raw"}, ""),
            ("REP", "n_cells", [("min_row", {"csv"}, None)]),
            ("blank", {"raw"}, ""), ("max_dims", {"raw"}, ""),
            ("REP", "n_cells", [("max_row", {"csv"}, None)]),
        ]),
    ]),
]


def normalise(items):
    """collapse `if c: LINE else: LINE` (both branches consume exactly one line) into one Line"""
    out = []
    for i in items:
        if isinstance(i, Cond) and len(i.body) == 1 and len(i.orelse) == 1 and isinstance(i.body[0], Line) \
                and isinstance(i.orelse[0], Line):
            l = Line(i.body[0].node, target=i.body[0].target or i.orelse[0].target, parse="LINE")
            out.append(l)
        elif isinstance(i, Repeat):
            out.append(Repeat(i.node, i.count, normalise(i.body), i.var, i.over))
        elif isinstance(i, Cond):
            out.append(Cond(i.node, i.test, normalise(i.body), normalise(i.orelse)))
        else:
            out.append(i)
    return out


def match(ctx, rule, fi, items, oracle, slots, path=""):
    """align extracted reader grammar with the oracle; fill slots: slot -> Line"""
    items = [i for i in items if not (isinstance(i, Repeat) and i.count == "tokens")]
    site = fi.site
    if len(items) != len(oracle):
        ctx.finding(rule, site, f"{path or 'file'}: reader consumes {len(items)} grammar items "
                                f"[{grammar.show(items)[:300]}] where the format has {len(oracle)} "
                                f"[{', '.join(o[0] if o[0] not in ('REP', 'COND') else o[0] + ':' + o[1] for o in oracle)}]",
                    key=f"structure:{path}", where=loc(fi, items[0].node) if items else None)
        return False
    ok_all = True
    for it, o in zip(items, oracle):
        if o[0] == "REP":
            if not isinstance(it, Repeat):
                ctx.finding(rule, site, f"{path}: expected a block repeated {o[1]} times, found {it.show()[:80]}",
                            key=f"structure:{path}/{o[1]}", where=loc(fi, it.node))
                ok_all = False
                continue
            ok = it.count == o[1]
            ctx.check(ok, rule, site, f"{path}: block repeated {o[1]} times",
                      f"{path}: block is repeated {it.count} times; the format repeats it {o[1]} times",
                      key=f"count:{path}/{o[1]}", where=loc(fi, it.node))
            ok_all &= ok
            ok_all &= match(ctx, rule, fi, it.body, o[2], slots, path + "/" + o[1])
        elif o[0] == "COND":
            if not (isinstance(it, Cond) and it.test == o[1] and not it.orelse):
                ctx.finding(rule, site, f"{path}: expected lines guarded by `{o[1]}`, found {it.show()[:80]}",
                            key=f"structure:{path}/if {o[1]}", where=loc(fi, it.node))
                ok_all = False
                continue
            ok_all &= match(ctx, rule, fi, it.body, o[2], slots, path + "/if " + o[1])
        else:
            slot, kinds, target = o
            if not isinstance(it, Line):
                ctx.finding(rule, site, f"{path}: expected line `{slot}`, found {it.show()[:80]}",
                            key=f"structure:{path}/{slot}", where=loc(fi, it.node))
                ok_all = False
                continue
            k = parse_kind(it.parse)
            ok = k in kinds and (target is None or it.target == target)
            ctx.check(ok, rule, site,
                      f"{path}/{slot}: parsed as {k}" + (f" into {target}" if target else ""),
                      f"{path}/{slot}: line is parsed as `{it.parse}` ({k}) into `{it.target}`; the format needs "
                      f"{sorted(kinds)}" + (f" stored into {target}" if target is not None else ""),
                      key=f"line:{path}/{slot}", where=loc(fi, it.node))
            ok_all &= ok
            slots[slot + ("@" + path if slot in slots else "")] = it
    return ok_all


# ---------------------------------------------------------------------------
# H-TOK: token semantics of single lines by abstract evaluation on a template
# ---------------------------------------------------------------------------
def eval_fragment(fi, stmts, handle, template_lines, pre=None):
    env = {handle: SFile(template_lines)}
    env.update(pre or {})

    def leaf(n):
        raise Unknown(f"free name {norm(n)}")
    ev = SEval(ast.FunctionDef(name="f", args=None, body=list(stmts), decorator_list=[]), env, leaf=None)
    try:
        ev.block(stmts)
    except Unknown as e:
        return None, str(e)
    except hfab._Return:
        pass
    return ev.env, None


def innermost_loop_body(fi, call):
    pm = parents(fi.node)
    lp = enclosing(call, pm, (ast.For,))
    return lp


def htok_rules(ctx, rule, prog, hslots, cslots):
    """token -> attribute positions on the multi-token lines"""
    ini = prog.func(PC, "PlotfileCooker.__init__", rule)
    rb = prog.func(PC, "PlotfileCooker.read_boxes", rule)
    rc = prog.func(PC, "PlotfileCooker.read_cell_headers", rule)
    # domain line: every third block from the second, +1
    ln = hslots.get("domain")
    if ln is not None:
        loop = enclosing(ln.node, parents(ini.node), (ast.For,))
        tpl = "((0,0,0) (NX0,NY0,NZ0) (0,0,0)) ((0,0,0) (NX1,NY1,NZ1) (0,0,0))\n"
        env, err = eval_fragment(ini, [loop], norm(ln.node.func.value), [tpl])
        got = flat(env.get("self.grid_sizes")) if env else None
        exp = [[str(Poly.atom(f"N{c}{l}") + 1) for c in "XYZ"] for l in (0, 1)]
        ctx.check(got == exp, f"{rule}.H-TOK", ini.site,
                  "domain line: grid size of level l = (high index of the l-th box triple) + 1",
                  f"domain line `{tpl.strip()}` is parsed to grid_sizes={got} ({err or ''}); expected {exp}",
                  key="domain", where=loc(ini, ln.node))
    # box bound lines: lo hi -> box[d] = [lo, hi], centre = lo + (hi-lo)/2
    ln = hslots.get("box_lo_hi")
    if ln is not None:
        loop = enclosing(ln.node, parents(rb.node), (ast.For,))
        env, err = eval_fragment(rb, loop.body, norm(ln.node.func.value), ["BLO BHI\n"])
        box = flat(env.get("box")) if env else None
        pt = flat(env.get("point")) if env else None
        ctx.check(box == [["BLO", "BHI"]], f"{rule}.H-TOK", rb.site,
                  "box line `lo hi` is stored as box[d] = [lo, hi]",
                  f"box line `BLO BHI` is stored as {box} ({err or ''}); expected [['BLO', 'BHI']]",
                  key="box-lo-hi", where=loc(rb, ln.node))
        mid = str((Poly.atom("BLO") + Poly.atom("BHI")).divide_by_monomial_const(2))
        if pt is None:
            # the centre is not computed in the per-direction fragment: evaluate `point` from the box built there
            for n in walk_no_nested(rb.node):
                if isinstance(n, ast.Assign) and norm(n.targets[0]) == "point" and isinstance(n.value, ast.ListComp) and \
                        len(n.value.generators) == 1 and norm(n.value.generators[0].iter) == "box" and \
                        isinstance(n.value.generators[0].target, ast.Tuple) and len(n.value.generators[0].target.elts) == 2:
                    a, b = [e.id for e in n.value.generators[0].target.elts]
                    try:
                        r = rules.expr_ratio(n.value.elt, {a: None, b: None},
                                             atom=lambda x: {a: "BLO", b: "BHI"}.get(norm(x)))
                        pt = [str(r.n.divide_by_monomial_const(1)) if r.is_poly() else str(r)]
                    except Exception:
                        pt = None
        ctx.decide(pt == [mid], pt is not None, f"{rule}.FORMULA", rb.site, "box centre = (lo + hi)/2",
                   f"box centre evaluates to {pt}; expected [{mid}]", key="box-centre", where=loc(rb, ln.node))
        # nesting: lv_boxes.append(box) per box, boxes.append(lv_boxes) per level
        txt = {norm(n) for n in walk_no_nested(rb.node) if isinstance(n, ast.Expr)}
        ok = {"lv_boxes.append(box)", "boxes.append(lv_boxes)", "lv_points.append(point)",
              "points.append(lv_points)"} <= txt
        rets = [norm(n.value) for n in walk_no_nested(rb.node) if isinstance(n, ast.Return)]
        ctx.check(ok and rets == ["(points, boxes)"], f"{rule}.H-TOK", rb.site,
                  "boxes are collected per dimension, per box, per level and returned as (centres, boxes)",
                  f"box collection is {sorted(t for t in txt if 'append' in t)} returning {rets}", key="box-nesting")
    # level line
    ln = hslots.get("level_line")
    if ln is not None:
        ok = ln.target.replace("(", "").replace(")", "").replace("[", "").replace("]", "").split(", ")[:2] == \
            ["current_level", "n_cells"]
        asserts = [norm(n.test) for n in walk_no_nested(rb.node) if isinstance(n, ast.Assert)]
        ctx.check(ok and "current_level == lv" in asserts, f"{rule}.H-TOK", rb.site,
                  "level line `lev nboxes time`: token 0 is checked against the level, token 1 is the box count",
                  f"level line is unpacked into {ln.target} with assertions {asserts}", key="level-line")
    # Cell_H index line
    ln = cslots.get("index_line")
    if ln is not None:
        loop = enclosing(ln.node, parents(rc.node), (ast.For,))
        env, err = eval_fragment(rc, loop.body, norm(ln.node.func.value),
                                 ["((LO0,LO1,LO2) (HI0,HI1,HI2) (0,0,0))\n"])
        got = flat(env.get("indexes")) if env else None
        exp = [[["LO0", "LO1", "LO2"], ["HI0", "HI1", "HI2"]]]
        ctx.check(got == exp, f"{rule}.H-TOK", rc.site, "index line -> [start vector, stop vector]",
                  f"index line is parsed to {got} ({err or ''}); expected {exp}", key="index-line",
                  where=loc(rc, ln.node))
    ln = cslots.get("fabondisk")
    if ln is not None:
        loop = enclosing(ln.node, parents(rc.node), (ast.For,))
        env, err = eval_fragment(rc, [s for s in loop.body if "os.path.join" not in norm(s)],
                                 norm(ln.node.func.value), ["FabOnDisk: FILE OFF\n"])
        got = flat(env.get("offsets")) if env else None
        joins = [norm(s) for s in loop.body if "os.path.join" in norm(s)]
        lvvar = None
        for i in rc.node.body:
            if isinstance(i, ast.For):
                lvvar = norm(i.target)
        ok_join = joins == [f"files.append(os.path.join(self.pfile, self.cell_paths[{lvvar}], file))"]
        ctx.check(got == ["OFF"] and ok_join, f"{rule}.H-TOK", rc.site,
                  "FabOnDisk line: token 1 -> file (joined under this plotfile's own level directory), token 2 -> "
                  "integer offset",
                  f"FabOnDisk line gives offsets {got} ({err or ''}) and files through {joins}", key="fabondisk",
                  where=loc(rc, ln.node))
    for slot, lst in (("min_row", "lvmins"), ("max_row", "lvmaxs")):
        ln = cslots.get(slot)
        if ln is not None:
            loop = enclosing(ln.node, parents(rc.node), (ast.For,))
            env, err = eval_fragment(rc, loop.body, norm(ln.node.func.value), ["M0,M1,M2,\n"])
            got = flat(env.get(lst)) if env else None
            ctx.check(got == [["M0", "M1", "M2"]], f"{rule}.H-TOK", rc.site,
                      f"{slot}: every comma-separated value of the row is kept, in order, into {lst}",
                      f"{slot} `M0,M1,M2,` is parsed to {lst}={got} ({err or ''})", key=slot, where=loc(rc, ln.node))
    # first block -> mins, second -> maxs; names <-> columns in header order
    stores = {}
    for n in walk_no_nested(rc.node):
        if isinstance(n, ast.For) and norm(n.iter).replace(" ", "").replace("\n", "") == \
                "zip(self.fields,np.transpose(lvmins),np.transpose(lvmaxs))":
            tg = [norm(e) for e in n.target.elts]
            for b in n.body:
                if isinstance(b, ast.Assign):
                    stores[norm(b.targets[0])] = norm(b.value)
            ok = stores.get(f"lvcells['mins'][{tg[0]}]") == tg[1] and stores.get(f"lvcells['maxs'][{tg[0]}]") == tg[2]
            ctx.check(ok, f"{rule}.H-TOK", rc.site,
                      "first min/max block -> 'mins', second -> 'maxs'; columns zipped with field names in header "
                      "order", f"min/max tables are stored as {stores}", key="minmax-tables")
    ctx.check(bool(stores), f"{rule}.H-TOK", rc.site, "min/max columns are zipped with the field names",
              "min/max columns are not zipped with self.fields in header order", key="minmax-zip")
    # table attachment
    att = {norm(n.targets[0]): norm(n.value) for n in walk_no_nested(rc.node) if isinstance(n, ast.Assign)
           and norm(n.targets[0]).startswith("lvcells[")}
    ok = att.get("lvcells['indexes']") == "indexes" and att.get("lvcells['files']") == "files" and \
        att.get("lvcells['offsets']") == "offsets"
    ctx.check(ok, f"{rule}.H-TOK", rc.site, "per-level tables indexes/files/offsets are attached under their keys",
              f"tables attached as {att}", key="tables")


def _ancestors_of(n, pm):
    n = pm.get(n)
    while n is not None:
        yield n
        n = pm.get(n)


def reader_grammar_rules(ctx, prefix):
    prog = ctx.prog
    ini = prog.func(PC, "PlotfileCooker.__init__", prefix)
    g, ex = grammar.reader_grammar(prog, ini)
    g = normalise(g)
    hslots = {}
    match(ctx, f"{prefix}.H-READ", ini, g, HEADER_ORACLE, hslots, "Header")
    rc = prog.func(PC, "PlotfileCooker.read_cell_headers", prefix)
    g2, _ = grammar.reader_grammar(prog, rc)
    g2 = normalise(g2)
    cslots = {}
    match(ctx, f"{prefix}.H-READ", rc, g2, CELLH_ORACLE, cslots, "Cell_H")
    ctx.floor("Header line slots matched", len(hslots), 17)
    ctx.floor("Cell_H line slots matched", len(cslots), 12)
    htok_rules(ctx, prefix, prog, hslots, cslots)
    return hslots, cslots


def run(ctx):
    P = "C02"
    prog = ctx.prog
    hslots, cslots = reader_grammar_rules(ctx, P)
    ini = prog.func(PC, "PlotfileCooker.__init__", P)
    site = ini.site
    # limit comparator: accept iff limit_level <= max_level, else raise
    lim = ini.params[2]
    found = False
    for n in walk_no_nested(ini.node):
        if isinstance(n, ast.If) and norm(n.test) == f"{lim} is None":
            a = [norm(s) for s in n.body]
            nxt = n.orelse[0] if len(n.orelse) == 1 and isinstance(n.orelse[0], ast.If) else None
            if nxt is None:
                continue
            try:
                d, op = rules.compare_nf(nxt.test)
            except rules.FormulaError:
                continue
            want = A(lim) - A("self.max_level")
            accept_ok = (d == want and op == "<=") and [norm(s) for s in nxt.body] == [f"self.limit_level = {lim}"]
            refuse_ok = rules.always_raises(nxt.orelse)
            found = a == ["self.limit_level = self.max_level"] and accept_ok and refuse_ok
    ctx.check(found, f"{P}.LIMIT-CMP", site,
              "limit None -> max_level; limit <= max_level accepted verbatim; otherwise ValueError",
              "the level-limit validation is not `None -> max_level / limit <= max_level -> limit / else raise`",
              where=loc(ini, ini.node))
    # header_only guards exactly the level-header read
    ok = False
    for n in walk_no_nested(ini.node):
        if isinstance(n, ast.If) and norm(n.test) == f"not {ini.params[3]}":
            calls = {norm(c.func) for c in ast.walk(n) if isinstance(c, ast.Call) and norm(c.func).startswith("self.")}
            ok = calls == {"self.read_cell_headers"}
    grids_outside = any(isinstance(n, ast.Assign) and norm(n) == "self.grids = self.compute_global_grids()"
                        for n in ini.node.body)
    ctx.check(ok and grids_outside, f"{P}.HEADER-ONLY", site,
              "header_only skips exactly read_cell_headers; global metadata and grids are always computed",
              "header_only does not guard exactly the level-header read (or the grids moved under it)")
    # maxmins / validate_mode forwarded
    c = [x for x in ast.walk(ini.node) if isinstance(x, ast.Call) and norm(x.func) == "self.read_cell_headers"]
    ok = len(c) == 1 and [norm(a) for a in c[0].args] == [ini.params[5], ini.params[4]]
    ctx.check(ok, f"{P}.WIRING", site, "maxmins and validate_mode are forwarded to read_cell_headers",
              f"read_cell_headers is called with {[norm(a) for a in c[0].args] if c else None}")
    # duplicate field names keep their column index
    dup = [n for n in walk_no_nested(ini.node) if isinstance(n, ast.Assign) and norm(n.targets[0]).startswith("self.fields[")]
    loopvar = None
    for n in walk_no_nested(ini.node):
        if isinstance(n, ast.For) and norm(n.iter) == "range(self.nvars)":
            loopvar = norm(n.target)
    # every store into the field table (one, or one per branch of the duplicate handling) stores the loop index
    ok = len(dup) >= 1 and all(norm(d.value) == loopvar for d in dup)
    ctx.check(ok, f"{P}.FIELD-INDEX", site, "every field name (also a de-duplicated one) maps to its header position",
              f"field table stores {[norm(d) for d in dup]} (needs the loop index {loopvar})")
    # repeated names: the suffix search restarts for every field (counter initialised inside the per-field loop)
    floop = [n for n in walk_no_nested(ini.node) if isinstance(n, ast.For) and norm(n.iter) == "range(self.nvars)"]
    if floop:
        wh = [n for n in ast.walk(floop[0]) if isinstance(n, ast.While)]
        if wh:
            counters = {n.target.id for n in ast.walk(wh[0]) if isinstance(n, ast.AugAssign) and isinstance(n.target, ast.Name)}
            used = {x.id for j in ast.walk(wh[0]) if isinstance(j, ast.JoinedStr) for x in ast.walk(j) if isinstance(x, ast.Name)}
            cnt = sorted(counters & used)
            pm = parents(ini.node)
            okc = bool(cnt)
            for cname in cnt:
                inits = [n for n in walk_no_nested(ini.node) if isinstance(n, ast.Assign) and norm(n.targets[0]) == cname
                         and isinstance(n.value, ast.Constant)]
                inside = [a for a in inits if floop[0] in list(_ancestors_of(a, pm)) and wh[0] not in list(_ancestors_of(a, pm))]
                okc = okc and bool(inside) and all(a.value.value == 2 for a in inside)
            ctx.check(okc, f"{P}.DEDUP-RESET", site,
                      "the suffix search for a repeated field name starts at _2 for every field (counter initialised "
                      "inside the per-field loop)",
                      f"the suffix counter {cnt} of repeated field names is not re-initialised to 2 inside the per-field "
                      f"loop: after one name reached _3, the next repeated name starts at _3 as well (density_3 instead of "
                      f"density_2) and the exposed names no longer follow from the Header", where=loc(ini, wh[0]))
        else:
            raise AnalysisError(f"{P}.DEDUP-RESET", site, "suffix search loop for repeated names not found")
    nf = formulas.find_assign(ini, "self.nfields")
    ctx.check(nf is not None and norm(nf.value) == "len(self.fields)", f"{P}.FIELD-INDEX", site,
              "nfields = len(fields)", "nfields is not len(self.fields)", key="nfields")
    # dx table
    dxa = formulas.find_assign(ini, "self.dx")
    ctx.check(dxa is not None and norm(dxa.value) == "resolutions", f"{P}.H-TOK", site,
              "dx = the per-level resolution rows in file order", "self.dx is not the list of dx rows", key="dx")
    # grids formula
    gg = prog.func(PC, "PlotfileCooker.compute_global_grids", P)
    env = rules.local_env(gg.node)
    lin = None
    for n in walk_no_nested(gg.node):
        if isinstance(n, ast.Call) and norm(n.func) in rules.LINSPACE:
            lin = n
    if lin is None:
        raise AnalysisError(f"{P}.GRID-FORMULA", gg.site, "np.linspace call not found")
    lo, dx, hi, n = A("self.geo_low[coord]"), A("self.dx[lv][coord]"), A("self.geo_high[coord]"), \
        A("self.grid_sizes[lv][coord]")
    formulas.formula_rule(ctx, f"{P}.GRID-FORMULA", gg, lin.args[0], lo + dx / 2, (), "first cell centre", "first", env)
    formulas.formula_rule(ctx, f"{P}.GRID-FORMULA", gg, lin.args[1], hi - dx / 2, (), "last cell centre", "last", env)
    formulas.formula_rule(ctx, f"{P}.GRID-FORMULA", gg, lin.args[2], n, (), "number of cell centres", "count", env)
    # nesting: the grid expression is evaluated once per dimension (inner) per level (outer), loops or comprehensions
    pm = parents(gg.node)
    its = []
    cur = pm.get(lin)
    while cur is not None and cur is not gg.node:
        if isinstance(cur, ast.For):
            its.append(norm(cur.iter))
        elif isinstance(cur, (ast.ListComp, ast.GeneratorExp)):
            its += [norm(g.iter) for g in reversed(cur.generators)]
        cur = pm.get(cur)
    ok = its in (["range(self.ndims)", "range(self.limit_level + 1)"], ["range(self.ndims)", "range(1 + self.limit_level)"])
    ctx.check(ok, f"{P}.GRID-FORMULA", gg.site, "one grid per dimension (inner) per level (outer)",
              f"the grid expression is evaluated under the iterations {its} (innermost first); expected one grid per "
              f"dimension of range(self.ndims) inside one pass per level of range(self.limit_level + 1)", key="nesting",
              semantic=True)
    for q in ("PlotfileCooker.compute_global_grids", "PlotfileCooker.read_boxes", "PlotfileCooker.read_cell_headers"):
        formulas.rule_level_range(ctx, f"{P}.LEVEL-RANGE", prog.func(PC, q, P))
    # LEVEL-COH in read_cell_headers
    rc = prog.func(PC, "PlotfileCooker.read_cell_headers", P)
    lv = next((norm(n.target) for n in rc.node.body if isinstance(n, ast.For)), None)
    subs = {norm(s.slice) for s in ast.walk(rc.node) if isinstance(s, ast.Subscript) and norm(s.value) == "self.cell_paths"}
    ctx.check(subs == {lv}, f"{P}.LEVEL-COH", rc.site, f"level directory is always cell_paths[{lv}]",
              f"self.cell_paths is subscripted with {sorted(subs)} inside the loop over {lv}")
    ap = [norm(n) for n in walk_no_nested(rc.node) if isinstance(n, ast.Expr) and norm(n).startswith("cells.append")]
    rets = [norm(n.value) for n in walk_no_nested(rc.node) if isinstance(n, ast.Return)]
    ctx.check(ap == ["cells.append(lvcells)"] and rets == ["cells"], f"{P}.LEVEL-COH", rc.site,
              "one table set per level, returned in level order", f"cells built by {ap}, returns {rets}", key="cells")
    # read_boxes: cell_paths / npoints appended per level
    rb = prog.func(PC, "PlotfileCooker.read_boxes", P)
    benv = rules.local_env(rb.node)
    lvl = [n for n in rb.node.body if isinstance(n, ast.For)]
    got = {}
    for lp in lvl[:1]:
        for st in lp.body:       # directly in the level loop: once per level
            if isinstance(st, ast.Expr) and isinstance(st.value, ast.Call) and isinstance(st.value.func, ast.Attribute) \
                    and st.value.func.attr == "append" and len(st.value.args) == 1:
                got.setdefault(norm(st.value.func.value), []).append(rules.deep(st.value.args[0], benv, rb.params))
    ok = got.get("self.cell_paths") == ["hfile.readline().split('/')[0]"] and \
        got.get("self.npoints") in (["int(n_cells)"], ["n_cells"])
    ctx.check(ok, f"{P}.LEVEL-COH", rb.site,
              "level directory (first component of the Header's path line) and box count are recorded once per level",
              f"per-level bookkeeping appends {got}", key="paths", semantic=len(lvl) == 1)
    if ctx.tier == "thorough":
        hfab.check_sibling_parsers(ctx, P)
    ctx.assume("float()/int() parse the tokens as written; AMReX plotfile format as tabulated in checks/C02.py")
    return ("Static: line-grammar extraction of the Header and Cell_H readers compared with the AMReX oracle "
            "(structure, repeat counts, parse kinds, public targets); token-position semantics of the multi-token "
            "lines by abstract evaluation of the parse fragment on template lines; limit comparator normal form; "
            "cell-centre grid and box-centre formulas as rational-function identities; header_only guard; "
            "level coherence. Decides structural clauses of DESIGN §4.C02, not float parsing.",
            ["vk/grammar.py", "checks/hfab.py template evaluator", "AMReX format oracle table"])
