"""C07 — mandoline 3D slices interpolate the right samples at every pixel."""
import ast

from vk import fabio, pools, rules, formulas
from vk import replicate
from vk.fabio import Num, N, D, Roles, Ratio
from vk.formulas import A
from vk.poly import Poly
from vk.model import norm, loc, AnalysisError, walk_no_nested, parents
from vk.rules import expr_ratio, local_env, compare_nf, FormulaError

P = "C07"
MA = "amr_kitchen/mandoline/mandoline.py"
BL = "amr_kitchen/mandoline/blades.py"


def blade_window(ctx, fi, nd):
    """E1: abs seek to the recorded offset, skip fidx whole components, read one component, reshape (dims) F"""
    eq = {}
    for i in range(nd):
        eq[f"args['indexes'][1][{i}]"] = D("", i).r.n + Poly.atom(f"args['indexes'][0][{i}]") - 1
    roles = Roles(equiv=eq, ndims=nd)
    roles.sel_kinds = {"*": "single"}
    res = fabio.analyse(ctx.prog, fi, roles, P)
    fabio.report_generic(ctx, res, P)
    ip = res.interp
    site = fi.site
    sk = {e.key for e in res.events("seek_abs")}
    ctx.check(sk == {"args['offset']"}, f"{P}.SEEK-RECORDED", site, "each field is read from the box's recorded offset",
              f"absolute seeks: {sorted(sk)}")
    c = fabio.C("", nd).r
    k = Ratio.atom("args['fidxs'][i]")
    seen = set()
    for ff in res.events("fromfile"):
        if id(ff) in seen:
            continue
        seen.add(id(ff))
        ok = ff.count is not None and ip.eq(ff.arr.win_lo, Num(Ratio(8) * c * k)) and ip.eq(ff.count, Num(c))
        ctx.decide(ok, ff.count is None or not fabio.undecidable(ff.count, ff.arr.win_lo), f"{P}.WINDOW", site,
                   "window = component fidx of the box: [8*C*fidx, +8*C)",
                   f"window starts {ff.arr.win_lo.text()[:80]} with {ff.count.text()[:60] if ff.count else None} values; "
                  f"component fidx of a box of C cells is [8*C*fidx, +8*C)", where=loc(fi, ff.node))
    for e in res.events("reshape"):
        if id(e) in seen:
            continue
        seen.add(id(e))
        dims = e.arr.dims
        ok = dims is not None and len(dims) == nd and all(ip.eq(dims[i], D("", i)) for i in range(nd)) and e.order == "F"
        ctx.check(ok, f"{P}.SHAPE", site, f"box data reshaped to its {nd} extents in order, order='F'",
                  f"reshape to {[d.text()[:30] for d in dims or []]} order {e.order}", where=loc(fi, e.node))
    # fields are appended in fidxs order; grid_level (None) skipped through the TypeError handler only
    loops = [n for n in walk_no_nested(fi.node) if isinstance(n, ast.For) and norm(n.iter) == "fidxs"]
    ok = len(loops) == 1 and any(isinstance(t, ast.Try) and all(h.type is not None and norm(h.type) == "TypeError"
                                                                for h in t.handlers) for t in loops[0].body)
    ctx.check(ok, f"{P}.FIELD-ORDER", site, "one array per requested field, in request order (None -> skipped)",
              "field loop / None handling changed")
    ctx.assume("the level header's extents of a box equal its FAB header's extents (well-formed)")
    return res


def slice_box_rules(ctx):
    fi = ctx.prog.func(BL, "slice_box", P)
    site = fi.site
    blade_window(ctx, fi, 3)
    env = local_env(fi.node)
    I = lambda s: A(f"args['indexes']{s}")
    cx, cy, cn = "args['cx']", "args['cy']", "args['cn']"
    fac = A(f"pow(2,{A(chr(97) + 'rgs[' + repr('limit_level') + ']') - A('args[' + repr('Lv') + ']')})")
    for name, want, key in (("x_start", I(f"[0][{cx}]") * fac, "x0"), ("x_stop", (I(f"[1][{cx}]") + 1) * fac, "x1"),
                            ("y_start", I(f"[0][{cy}]") * fac, "y0"), ("y_stop", (I(f"[1][{cy}]") + 1) * fac, "y1")):
        a = formulas.find_assign(fi, name)
        formulas.formula_rule(ctx, f"{P}.SPAN", fi, a.value if a else None, want, (), f"pixel span {name}", key, env)
    # normal grid: the cell centres of the box along the normal, in *physical* coordinates (the plane position and
    # the box selection are physical): first = box_lo + dx/2, step = dx, count = box extent along the normal
    blo, bhi = A(f"args['box'][{cn}][0]"), A(f"args['box'][{cn}][1]")
    dxn = A(f"args['dx'][args['Lv']][{cn}]")
    ncn = I(f"[1][{cn}]") - I(f"[0][{cn}]") + 1
    ng = formulas.find_assign(fi, "normal_grid")
    seq = None
    if ng is not None:
        try:
            seq = rules.affine_seq(ng.value, env)
        except FormulaError:
            seq = None
    if seq is None:
        ctx.unknown(f"{P}.NORMAL-GRID", site, "the normal cell-centre grid is not an arithmetic progression the "
                                             "evaluator recognises (linspace / arange forms)", key="g0",
                    where=loc(fi, ng) if ng is not None else None)
    else:
        # well-formedness of the task: box_hi = box_lo + n*dx (the task's physical bounds are those of its index range)
        rel = [{f"args['box'][{cn}][1]": blo + ncn * dxn}]
        first, step, count = seq["first"], seq["step"], seq["count"]
        last = first + (count - 1) * step
        ctx.check(formulas.equal_under(first, blo + dxn / 2, rel), f"{P}.NORMAL-GRID", site,
                  "first normal sample = box_lo + dx/2 (physical lower face of the box plus half a cell)",
                  f"first normal sample evaluates to {first}; the specification is {blo + dxn / 2}: the grid must start "
                  f"from the box's physical bounds (which carry the domain origin), since the plane position and the box "
                  f"selection are physical coordinates", key="g0", where=loc(fi, ng), semantic=True,
                  objects={"got": str(first)})
        ctx.check(formulas.equal_under(last, bhi - dxn / 2, rel), f"{P}.NORMAL-GRID", site,
                  "last normal sample = box_hi - dx/2",
                  f"last normal sample evaluates to {last}; the specification is {bhi - dxn / 2}", key="g1",
                  where=loc(fi, ng), semantic=True, objects={"got": str(last)})
        count_ok = formulas.equal_under(count, ncn, rel)
        if not count_ok:
            # `shape[cn]` with shape a display whose d-th element is the extent along d
            for c in ast.walk(ng.value):
                if isinstance(c, ast.Subscript) and norm(c.slice) in ("cn", "args['cn']"):
                    base, benv = rules.resolve(c.value, env)
                    if isinstance(base, (ast.Tuple, ast.List)) and len(base.elts) == 3:
                        try:
                            count_ok = all(expr_ratio(e, benv) == I(f"[1][{d}]") - I(f"[0][{d}]") + 1
                                           for d, e in enumerate(base.elts))
                        except FormulaError:
                            count_ok = False
        ctx.check(count_ok, f"{P}.NORMAL-GRID", site,
                  "number of normal samples = box extent along the normal",
                  f"the normal grid has {count} samples; the box has {ncn} cells along the normal", key="gn",
                  where=loc(fi, ng), semantic=True)
    # the four position cases
    chain = None
    for n in fi.node.body:
        if isinstance(n, ast.If) and "normal_grid" in norm(n.test):
            chain = n
    if chain is None:
        raise AnalysisError(f"{P}.CASES", site, "position case chain not found")
    cases = []
    cur = chain
    while True:
        cases.append((cur.test, cur.body))
        if len(cur.orelse) == 1 and isinstance(cur.orelse[0], ast.If):
            cur = cur.orelse[0]
        else:
            cases.append((None, cur.orelse))
            break

    def outputs(body):
        """side -> (index expr used to slice, dict fields)"""
        out = {}
        idx = None
        for s in body:
            if isinstance(s, ast.Assign) and norm(s.targets[0]) == "arr_indices[cn]":
                idx = norm(s.value)
            if isinstance(s, ast.Assign) and norm(s.targets[0]) in ("output[0]", "output[1]") and isinstance(s.value, ast.Dict):
                d = {k.value: norm(v) for k, v in zip(s.value.keys, s.value.values)}
                out[norm(s.targets[0])] = (idx, d)
        return out
    exp = [("pos > normal_grid[shape[cn] - 1]", {"output[0]": "shape[cn] - 1"}),
           ("pos < normal_grid[0]", {"output[1]": "0"}),
           ("np.isclose(pos, normal_grid).any()", {"output[0]": "match_idx", "output[1]": "match_idx"}),
           (None, {"output[0]": "idx_left", "output[1]": "idx_right"})]
    ok_all = len(cases) == 4
    for (test, body), (etest, esides) in zip(cases, exp):
        t = norm(test) if test is not None else None
        o = outputs(body)
        ok = t == etest and set(o) == set(esides)
        for side, idx in esides.items():
            if side in o:
                gi, d = o[side]
                ok = ok and gi == idx and d.get("normal") == f"normal_grid[{idx}]" and d.get("level") == "Lv" and \
                    d.get("sx") == "[x_start, x_stop]" and d.get("sy") == "[y_start, y_stop]" and \
                    d.get("data", "").startswith("[expand_array(arr, factor)") and "for arr in arr_data" in d.get("data", "")
        ctx.check(ok, f"{P}.CASES", site,
                  f"case `{etest or 'between samples'}`: sides {sorted(esides)} sliced at {sorted(set(esides.values()))}, "
                  f"normal = the sample's own coordinate, level = Lv, spans (sx, sy)",
                  f"case `{t}` produces { {k: (v[0], v[1].get('normal')) for k, v in o.items()} }; expected sides "
                  f"{esides} with normal_grid[idx] of the same idx", key=f"case:{etest or 'between'}",
                  where=loc(fi, test if test is not None else body[0]))
        ok_all &= ok
    e = {norm(n.targets[0]): norm(n.value) for n in walk_no_nested(fi.node) if isinstance(n, ast.Assign)}
    ok = e.get("idx_left") == "np.where(pos > normal_grid)[0][-1]" and e.get("idx_right") == "np.where(pos < normal_grid)[0][0]" \
        and e.get("match_idx") == "np.where(np.isclose(pos, normal_grid))[0][0]"
    ctx.check(ok, f"{P}.BRACKET", site, "left = last sample below the plane, right = first sample above it",
              f"bracketing indices: left={e.get('idx_left')}, right={e.get('idx_right')}, match={e.get('match_idx')}")
    ok = e.get("arr_data") == "[arr[tuple(arr_indices)] for arr in data_arrays]" and e.get("arr_indices[cx]") == "slice(0, shape[cx])" \
        and e.get("arr_indices[cy]") == "slice(0, shape[cy])"
    ctx.check(ok, f"{P}.DIM-COH", site, "the in-plane axes are taken whole (cx with shape[cx], cy with shape[cy]), the "
                                        "normal axis at the bracketing index", f"slicing indices are {e.get('arr_indices[cx]')}, "
                                                                               f"{e.get('arr_indices[cy]')}, {e.get('arr_data')}")
    aps = [norm(n) for n in walk_no_nested(fi.node) if isinstance(n, ast.Expr) and norm(n).startswith("output.append")]
    ctx.check(aps == ["output.append(header)", "output.append(args['bidx'])"], f"{P}.RETURN", site,
              "returns [left, right, header, box id]", f"output tail is {aps}")


def geometry_rules(ctx):
    prog = ctx.prog
    fi = prog.func(MA, "Mandoline.define_slicing_coordinates", P)
    site = fi.site
    env = local_env(fi.node)
    # default position
    dflt = None
    refusal = None
    for n in walk_no_nested(fi.node):
        if isinstance(n, ast.If) and norm(n.test) == "pos is None":
            for s in n.body:
                if isinstance(s, ast.Assign) and norm(s.targets[0]) == "pos":
                    dflt = s.value
            for s in n.orelse:
                if isinstance(s, ast.If) and rules.always_raises(s.body):
                    refusal = s
    # DEFAULT-POS-FLOW: the default is computed for *this call's* normal only if the caller's `pos` (None when not
    # given) reaches define_slicing_coordinates untouched; a fallback to instance state (`pos = self.pos`) hands the
    # position of the previous slice - or whatever the constructor stored - to a slice along another normal
    sl = prog.func(MA, "Mandoline.slice", P)
    calls = [c for c in walk_no_nested(sl.node) if isinstance(c, ast.Call) and norm(c.func) == "self.define_slicing_coordinates"]
    if not calls:
        ctx.unknown(f"{P}.DEFAULT-POS-FLOW", sl.site, "slice() no longer calls define_slicing_coordinates")
    for c in calls:
        arg = c.args[1] if len(c.args) > 1 else next((k.value for k in c.keywords if k.arg == "pos"), None)
        srcs = [arg] if arg is not None else []
        if isinstance(arg, ast.Name):
            srcs += [a.value for a in walk_no_nested(sl.node) if isinstance(a, ast.Assign)
                     and any(isinstance(t, ast.Name) and t.id == arg.id for t in a.targets)]
        state = [norm(x) for e in srcs for x in ast.walk(e) if isinstance(x, ast.Attribute) and isinstance(x.value, ast.Name)
                 and x.value.id == "self" and isinstance(x.ctx, ast.Load) and x.attr not in ("geo_low", "geo_high", "cn")]
        ctx.check(arg is not None and not state, f"{P}.DEFAULT-POS-FLOW", sl.site,
                  "the position handed to define_slicing_coordinates is the caller's own (None when not given), so the "
                  "default is the centre along this call's normal",
                  f"slice() replaces a missing position by instance state ({', '.join(sorted(set(state))) or 'no position passed'}) "
                  f"before define_slicing_coordinates sees it: the default is then the position of the previous slice "
                  f"(or what the constructor stored), taken along whatever normal that was - not the domain centre along "
                  f"this call's normal", key="sticky-pos", where=loc(sl, c), semantic=True)
    lo, hi = A("self.geo_low[cn]"), A("self.geo_high[cn]")
    formulas.formula_rule(ctx, f"{P}.DEFAULT-POS", fi, dflt, (lo + hi) / 2, (), "default slice position (domain centre)",
                          "default", {})
    ok = False
    if refusal is not None:
        ds = rules.disjuncts(refusal.test)
        forms = set()
        for d in ds:
            try:
                r, op = compare_nf(d)
                forms.add((str(r), op))
            except FormulaError:
                pass
        ok = forms == {(str(A("pos") - lo), "<"), (str(hi - A("pos")), "<")}
    ctx.check(ok, f"{P}.DOMAIN-CHECK", site, "positions are refused iff pos < geo_low[cn] or pos > geo_high[cn]",
              f"the domain refusal is `{norm(refusal.test) if refusal is not None else None}`; needs exactly pos < lo or "
              f"pos > hi (closed domain accepted)", where=loc(fi, refusal or fi.node))
    e = {norm(n.targets[0]): norm(n.value) for n in walk_no_nested(fi.node) if isinstance(n, ast.Assign)}
    ctx.check(e.get("(cx, cy)") == "[i for i in range(3) if i != cn]", f"{P}.DIM-COH", site,
              "in-plane axes are the two non-normal axes in ascending order", f"(cx, cy) = {e.get('(cx, cy)')}")
    # box selection margin
    mp = prog.func(MA, "Mandoline.compute_mpinput_3d", P)
    guards = [n for n in walk_no_nested(mp.node) if isinstance(n, ast.If) and "self.pos" in norm(n.test)]
    blo, bhi, pos, dx = A("box[self.cn][0]"), A("box[self.cn][1]"), A("self.pos"), A("self.dx[lv][self.cn]")
    if not guards:
        ctx.ok(f"{P}.SELECT-MARGIN", mp.site, "every box of the level is read (no guard)")
    else:
        g = guards[0]
        lo_m, hi_m = None, None
        menv = local_env(mp.node)
        for c in rules.conjuncts(g.test):
            try:
                r, op = compare_nf(c, menv)
            except FormulaError:
                continue
            # forms:  (box_lo - m) - pos <= 0   /   pos - (box_hi + m) <= 0
            if op in ("<=", "<"):
                m1 = (blo - pos) - r      # r = blo - m - pos  => m = blo - pos - r
                m2 = (pos - bhi) - r      # r = pos - bhi - m
                if not (m1.atoms() & {"box[self.cn][0]", "self.pos", "box[self.cn][1]"}):
                    lo_m = (m1, op)
                if not (m2.atoms() & {"box[self.cn][0]", "self.pos", "box[self.cn][1]"}):
                    hi_m = (m2, op)

        def enough(m):
            if m is None:
                return False
            margin, op = m
            d = margin - dx / 2          # must be >= 0: a non-negative multiple of dx
            if d.n.is_zero():
                return op == "<="
            q = d / dx
            c = q.const()
            return c is not None and c > 0
        ok = enough(lo_m) and enough(hi_m)
        ctx.check(ok, f"{P}.SELECT-MARGIN", mp.site,
                  "a box is read whenever box_lo - dx/2 <= pos <= box_hi + dx/2: within half a cell beyond a face the "
                  "box's outermost cell centre is a bracketing sample",
                  f"boxes are selected by `{norm(g.test)}` (margins lo={lo_m[0] if lo_m else None}, "
                  f"hi={hi_m[0] if hi_m else None}); for a plane within half a cell beyond a box face the neighbouring "
                  f"box that holds the other bracketing sample is not read and that side of the interpolation stays "
                  f"uninitialised (np.empty)", where=loc(mp, g), key="margin")
        inp = [n for n in ast.walk(g) if isinstance(n, ast.Dict)]
        d = {k.value: norm(v) for k, v in zip(inp[0].keys, inp[0].values)} if inp else {}
        want = {"cx": "self.cx", "cy": "self.cy", "cn": "self.cn", "dx": "self.dx", "pos": "self.pos",
                "limit_level": "self.limit_level", "fidxs": "self.fidxs", "Lv": "lv", "bidx": "idx",
                "indexes": "self.cells[lv]['indexes'][idx]", "cfile": "self.cells[lv]['files'][idx]",
                "offset": "self.cells[lv]['offsets'][idx]", "box": "box"}
        ctx.check(d == want, f"{P}.LEVEL-COH", mp.site,
                  "task tables (indexes, file, offset) are taken at the same level and box index as the box bounds",
                  f"task is {d}", key="task", where=loc(mp, g))
        lp = [n for n in walk_no_nested(mp.node) if isinstance(n, ast.For)]
        ctx.check(len(lp) == 1 and norm(lp[0].iter) == "enumerate(self.boxes[lv])" and norm(lp[0].target) == "(idx, box)",
                  f"{P}.LEVEL-COH", mp.site, "boxes are enumerated at the requested level", "box loop changed", key="loop")


def reduce_rules(ctx):
    prog = ctx.prog
    fi = prog.func(MA, "Mandoline.reducemp_data_ortho", P)
    site = fi.site
    env = local_env(fi.node)
    lv = [n for n in fi.node.body if isinstance(n, ast.For) and "limit_level" in norm(n.iter)]
    ok = len(lv) == 1 and norm(lv[0].iter) == "range(self.limit_level + 1)" and norm(lv[0].target) == "Lv"
    ctx.check(ok, f"{P}.ORDER", site, "levels are reduced in ascending order (finer data overwrites coarser)",
              f"level loop is {[norm(l.iter) for l in lv]}", where=loc(fi, fi.node))
    if not ok:
        return
    e = {norm(n.targets[0]): n.value for n in lv[0].body if isinstance(n, ast.Assign)}
    lo, hi, dx = A("self.geo_low[self.cn]"), A("self.geo_high[self.cn]"), A("self.dx[Lv][self.cn]")
    formulas.formula_rule(ctx, f"{P}.FACE-POINTS", fi, e.get("first_grid_pt"), lo + dx / 2, (), "first sample of the level",
                          "first", {})
    formulas.formula_rule(ctx, f"{P}.FACE-POINTS", fi, e.get("last_grid_pt"), hi - dx / 2, (), "last sample of the level",
                          "last", {})
    inner = [n for n in lv[0].body if isinstance(n, ast.For)]
    ok = len(inner) == 1 and norm(inner[0].iter) == "plane_data[Lv]"
    ctx.check(ok, f"{P}.LEVEL-COH", site, "results of level Lv are reduced inside level Lv's iteration",
              f"inner loop is {[norm(i.iter) for i in inner]}")
    # symmetric stores: collect store blocks
    blocks = []

    def collect(stmts, ctxdesc):
        stores = {}
        for s in stmts:
            if isinstance(s, ast.Assign) and isinstance(s.targets[0], ast.Subscript):
                t = norm(s.targets[0].value)
                stores[t] = (norm(s.targets[0].slice), norm(s.value))
            elif isinstance(s, ast.For):
                for b in s.body:
                    if isinstance(b, ast.Assign) and isinstance(b.targets[0], ast.Subscript):
                        stores[norm(b.targets[0].value)] = (norm(b.targets[0].slice), norm(b.value))
            elif isinstance(s, ast.If) and norm(s.test) == "self.do_grid":
                for b in s.body:
                    if isinstance(b, ast.Assign) and isinstance(b.targets[0], ast.Subscript):
                        stores["G:" + norm(b.targets[0].value)] = (norm(b.targets[0].slice), norm(b.value))
        if stores:
            blocks.append((ctxdesc, stores))
        for s in stmts:
            if isinstance(s, ast.If) and norm(s.test) != "self.do_grid":
                collect(s.body, ctxdesc + " & " + norm(s.test))
    for s in inner[0].body if inner else []:
        if isinstance(s, ast.If):
            collect(s.body, norm(s.test))
    n = 0
    for desc, st in blocks:
        for side in ("left", "right"):
            if f"{side}['normal']" in st:
                n += 1
                span = st[f"{side}['normal']"][0]
                has_data = f"{side}['data'][i]" in st and st[f"{side}['data'][i]"] == (span, "out['data'][i]")
                has_lvl = f"G:grid_level['{side}']" in st and st[f"G:grid_level['{side}']"] == (span, "out['level']")
                ok = st[f"{side}['normal']"][1] == "out['normal']" and has_data and has_lvl
                ctx.check(ok, f"{P}.SYMMETRIC-STORE", site,
                          f"[{desc[:60]}] the block that stores {side}['normal'] also stores {side}['data'][i] and, under "
                          f"do_grid, grid_level['{side}'] over the same span",
                          f"[{desc[:70]}] stores {side}['normal'] but " +
                          ("not the side's data" if not has_data else f"not grid_level['{side}']") +
                          f": that side keeps np.empty memory there (it enters np.min for 'grid_level' / the "
                          f"interpolation)", key=f"{side}:{desc[:50]}", where=loc(fi, fi.node))
    ctx.floor("store blocks in reducemp_data_ortho", n, 4)
    # interpolation
    e = {norm(t.targets[0]): t for t in walk_no_nested(fi.node) if isinstance(t, ast.Assign)}
    L, R = A("left['data'][i][bint]"), A("right['data'][i][bint]")
    xl, xr, p = A("left['normal'][bint]"), A("right['normal'][bint]"), A("self.pos")
    tgt = e.get("data[bint]")
    ienv = rules.local_env_at(fi.node, tgt.value if tgt else None)
    ienv["bint"] = None
    formulas.formula_rule(ctx, f"{P}.INTERPOLATION", fi, tgt.value if tgt else None, (L * (xr - p) + R * (p - xl)) / (xr - xl),
                          (), "linear interpolation between the bracketing samples", "formula", ienv)
    ok = "bint" in e and norm(e["bint"].value) == "~np.isclose(left['normal'], right['normal'])" and \
        "data[~bint]" in e and norm(e["data[~bint]"].value) in ("right['data'][i][~bint]", "left['data'][i][~bint]") \
        and "data" in e and norm(e["data"].value) == "self.limit_level_arr()"
    ctx.check(ok, f"{P}.EMPTY-COVER", site, "the output buffer is assigned through the mask and through its complement",
              "the np.empty output buffer is not assigned on both `bint` and `~bint`", key="cover")
    gl = [norm(n) for n in walk_no_nested(fi.node) if isinstance(n, ast.Assign) and norm(n.targets[0]) == "all_levels"]
    ctx.check(gl == ["all_levels = np.stack([grid_level['right'], grid_level['left']])"], f"{P}.GRID-LEVEL", site,
              "grid_level is reduced from the two stored sides only", f"grid level reduction is {gl}")
    # buffers come from limit_level_arr: grid of the limit level on (cx, cy)
    la = prog.func(MA, "Mandoline.limit_level_arr", P)
    lenv = local_env(la.node)
    allocs = [c for c in walk_no_nested(la.node) if isinstance(c, ast.Call) and norm(c.func) in ("np.empty", "np.zeros")
              and c.args]
    shapes = [norm(rules.resolve(c.args[0], lenv)[0]) for c in allocs]
    ctx.check(shapes == ["self.grid_sizes[self.limit_level][[self.cx, self.cy]]"],
              f"{P}.DIM-COH", la.site, "buffers have the limit level's (cx, cy) grid size",
              f"buffer shape is {shapes}")


def output_rules(ctx):
    prog = ctx.prog
    fo = prog.func(MA, "Mandoline.format_array_output", P)
    lp = [n for n in walk_no_nested(fo.node) if isinstance(n, ast.For)]
    ok = len(lp) == 1 and norm(lp[0].iter) == "enumerate(self.fields_in_slice())" and \
        [norm(b) for b in lp[0].body] == ["output[name] = all_data[i]"]
    ctx.check(ok, f"{P}.NAME-ORDER", fo.site, "array i is stored under the i-th requested field name",
              "names are not paired with arrays by position")
    g = [n for n in walk_no_nested(fo.node) if isinstance(n, ast.If) and norm(n.test) == "self.do_grid"]
    ctx.check(len(g) == 1 and [norm(b) for b in g[0].body] == ["output['grid_level'] = all_data[-1]"], f"{P}.NAME-ORDER",
              fo.site, "grid_level is the last array", "grid_level pairing changed", key="grid")
    fs = prog.func(MA, "Mandoline.fields_in_slice", P)
    fenv = local_env(fs.node)
    e = [rules.deep(n.value, fenv, fs.params) for n in walk_no_nested(fs.node) if isinstance(n, ast.Return)]
    ok = e == ["[list(self.fields)[idx] for idx in self.fidxs if idx is not None]"]
    ctx.check(ok, f"{P}.NAME-ORDER", fs.site, "names follow fidxs order, skipping grid_level (None)",
              f"fields_in_slice builds {e}")
    sc = prog.func(MA, "Mandoline.slice_plane_coordinates", P)
    env = local_env(sc.node)
    for nm, c in (("x_grid", "self.cx"), ("y_grid", "self.cy")):
        a = formulas.find_assign(sc, nm)
        if a is None or not isinstance(a.value, ast.Call):
            raise AnalysisError(f"{P}.COORDS", sc.site, f"{nm} not found")
        lo, hi = A(f"self.geo_low[{c}]"), A(f"self.geo_high[{c}]")
        dx, n = A(f"self.dx[self.limit_level][{c}]"), A(f"self.grid_sizes[self.limit_level][{c}]")
        formulas.formula_rule(ctx, f"{P}.COORDS", sc, a.value.args[0], lo + dx / 2, (), f"{nm} first centre", nm + "0", env)
        formulas.formula_rule(ctx, f"{P}.COORDS", sc, a.value.args[1], hi - dx / 2, (), f"{nm} last centre", nm + "1", env)
        formulas.formula_rule(ctx, f"{P}.COORDS", sc, a.value.args[2], n, (), f"{nm} count", nm + "n", env)
    # slice(): per-level map with serial twin; level order
    sl = prog.func(MA, "Mandoline.slice", P)
    sites = pools.find_sites(prog, sl)
    for s in sites:
        pools.rule_P1(ctx, P, s)
        ctx.check([w.qualname for w in s.workers] == ["slice_box"] and norm(s.task) == "pool_inputs", f"{P}.P8", sl.site,
                  f"{s.pool_kind}: slice_box over pool_inputs", f"{s.pool_kind}: {norm(s.worker_expr)} over {norm(s.task)}",
                  key=s.pool_kind)
    ctx.check(len(sites) == 2, f"{P}.P8", sl.site, "parallel map and serial twin", f"{len(sites)} sites", key="twins")
    e = [norm(n) for n in walk_no_nested(sl.node) if isinstance(n, ast.Assign)]
    ok = "pool_inputs = self.compute_mpinput_3d(Lv)" in e and \
        "self.cn, self.cx, self.cy, self.pos = self.define_slicing_coordinates(normal, pos)" in e and \
        "all_data = self.reducemp_data_ortho(plane_data)" in e
    ctx.check(ok, f"{P}.SEQUENCE", sl.site, "coordinates defined, per-level inputs, reduction", f"slice() assigns {e[:6]}")
    formulas.rule_level_range(ctx, f"{P}.LEVEL-RANGE", sl)
    # expand_array: each in-plane axis repeated by factor
    ea = prog.func("amr_kitchen/mandoline/utils.py", "expand_array", P)
    replicate.rule(ctx, f"{P}.EXPAND", ea, 2, "expand_array repeats each in-plane axis by factor (values unchanged)")


def run(ctx):
    slice_box_rules(ctx)
    geometry_rules(ctx)
    reduce_rules(ctx)
    output_rules(ctx)
    ctx.assume("level-0 boxes cover every pixel on both sides of the plane (run-time box set; not decided)")
    return ("Static: byte window of slice_box in the polynomial domain; span / normal-grid / face-point / default "
            "position / interpolation formulas as rational-function identities; comparator normal forms of the domain "
            "refusal and of the box-selection guard (margin >= dx/2); the four position cases with their bracketing "
            "indices and per-side outputs; ascending level reduction; symmetric stores over all store blocks; mask and "
            "complement cover of the np.empty buffer; name/array pairing. Decides structural clauses of DESIGN §4.C07.",
            ["vk/fabio.py", "vk/rules.py formula evaluator"])
