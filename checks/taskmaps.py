"""Per-binary-file task builders and scatter maps (P4, P5, P6) shared by colander, chef, chk2plt, combine."""
import ast

from vk import pools, rules
from vk.model import norm, loc, AnalysisError, walk_no_nested, parents, enclosing, call_name
from checks.tastelib import _sem, _seq_env


def sem_in(fi, node, filevar, at=None):
    env = _seq_env([n for n in walk_no_nested(fi.node) if isinstance(n, ast.Assign)])
    return _sem(node, env, filevar, at if at is not None else getattr(node, "lineno", None))


def find_appends(fi, listname):
    out = []
    for n in walk_no_nested(fi.node):
        if isinstance(n, ast.Call) and call_name(n) == "append" and isinstance(n.func, ast.Attribute) \
                and norm(n.func.value) == listname and n.args:
            out.append(n)
    return out


def map_and_tasks(ctx, prefix, fi, table, ids_len, offsets_table, map_name, tasks_name, sorted_by_offsets):
    """the scatter map entry and the task are appended once each in the same per-file loop over np.unique(table);
    map entry = box ids of the file (sorted by the file's offsets when the worker scans sequentially)"""
    site = fi.site
    pls = [p for p in pools.perfile_loops(fi) if p.table == table]
    # no per-file loop at all (tasks built per box / per something else) is a violation; several loops over the same
    # unique sequence (map and tasks built separately) is a form this rule does not follow: undecided
    ctx.decide(len(pls) == 1, len(pls) == 0, f"{prefix}.P5b", site,
               f"one per-file loop over np.unique({table}) (each binary file exactly once)",
              f"{len(pls)} per-file loops over np.unique({table}); other per-file loops: "
              f"{[p.table for p in pools.perfile_loops(fi)]}", where=loc(fi, fi.node))
    if len(pls) != 1:
        return None
    pl = pls[0]
    pm = parents(fi.node)
    maps = find_appends(fi, map_name)
    tasks = find_appends(fi, tasks_name)
    same_loop = len(maps) == 1 and len(tasks) == 1 and enclosing(maps[0], pm, (ast.For,)) is pl.loop \
        and enclosing(tasks[0], pm, (ast.For,)) is pl.loop
    ctx.check(same_loop, f"{prefix}.P5", site,
              f"{map_name} and {tasks_name} get exactly one entry each per file, in the same loop (same order)",
              f"{map_name} ({len(maps)} appends) and {tasks_name} ({len(tasks)} appends) are not appended once each "
              f"in the per-file loop: results would be scattered with another file's box ids", where=loc(fi, pl.loop))
    if not same_loop:
        return None
    mask = f"MASK({table}=={pl.var})"
    ids = f"SEL(ARANGE({ids_len}),{mask})"
    alt_ids = f"FLATNONZERO({mask})"
    offs = f"SEL({offsets_table},{mask})"
    if sorted_by_offsets:
        want = {f"SEL({ids},ARGSORT({offs}))", f"SEL({alt_ids},ARGSORT({offs}))",
                f"SEL({ids},ARGSORT(SEL({offsets_table},{ids})))"}
        desc = "box ids of the file in ascending offset order (the worker scans the file sequentially)"
    else:
        want = {ids, alt_ids}
        desc = "box ids of the file"
    got = sem_in(fi, maps[0].args[0], pl.var, maps[0].lineno)
    ctx.check(got in want, f"{prefix}.P6", site, f"scatter map entry = {desc}",
              f"scatter map entry is {got}; expected {desc}: {sorted(want)[0]} — the i-th result of a file must be "
              f"scattered to the box that the worker processed i-th", key="map-entry", where=loc(fi, maps[0]),
              objects={"got": got})
    pl.ids_sem = got
    pl.mask, pl.ids, pl.offs = mask, ids, offs
    return pl


def scatter_rule(ctx, prefix, fi, map_name, results_name, targets, size_expr):
    """for idx, res in zip(map, results): target[idx] = res[...]"""
    site = fi.site
    loops = [n for n in walk_no_nested(fi.node) if isinstance(n, ast.For) and isinstance(n.iter, ast.Call)
             and call_name(n.iter) == "zip" and len(n.iter.args) == 2
             and {norm(n.iter.args[0]), norm(n.iter.args[1])} == {map_name, results_name}]
    ctx.check(len(loops) == 1, f"{prefix}.P5", site, f"results are scattered through zip({map_name}, {results_name})",
              f"{len(loops)} scatter loops zip {map_name} with {results_name}", key="scatter-loop")
    if len(loops) != 1:
        return
    lp = loops[0]
    a0 = norm(lp.iter.args[0])
    tgt = [norm(e) for e in lp.target.elts] if isinstance(lp.target, ast.Tuple) else []
    idxvar = tgt[0] if a0 == map_name else tgt[1]
    resvar = tgt[1] if a0 == map_name else tgt[0]
    stores = {}
    for b in lp.body:
        if isinstance(b, ast.Assign) and isinstance(b.targets[0], ast.Subscript):
            t = b.targets[0]
            stores[norm(t.value)] = (norm(t.slice), norm(b.value))
    for name, (idx_form, val_form) in targets.items():
        got = stores.get(name)
        ok = got is not None and got[0] == idx_form.replace("IDX", idxvar) and got[1] == val_form.replace("RES", resvar)
        ctx.check(ok, f"{prefix}.P5", site, f"{name}[{idx_form.replace('IDX', idxvar)}] = {val_form.replace('RES', resvar)}",
                  f"{name} is scattered as {got}; expected index {idx_form.replace('IDX', idxvar)} and value "
                  f"{val_form.replace('RES', resvar)}", key=f"scatter:{name}", where=loc(fi, lp))
    # buffer sizes
    env = rules.local_env(fi.node)
    for name in targets:
        a = [n for n in walk_no_nested(fi.node) if isinstance(n, ast.Assign) and norm(n.targets[0]) == name]
        ok = len(a) == 1 and isinstance(a[0].value, ast.Call) and norm(a[0].value.func) in ("np.empty", "np.zeros") \
            and (norm(a[0].value.args[0]) == size_expr or norm(a[0].value.args[0]).startswith(f"({size_expr},"))
        ctx.check(ok, f"{prefix}.P5", site, f"{name} has one slot per box of the level ({size_expr})",
                  f"{name} is allocated as {[norm(x.value) for x in a]}; needs one slot per box ({size_expr})",
                  key=f"size:{name}")


def task_value_rule(ctx, prefix, fi, dict_node, filevar, want):
    """want: key -> set of accepted semantic normal forms (or a str)"""
    got = {}
    for k, v in zip(dict_node.keys, dict_node.values):
        if isinstance(k, ast.Constant):
            got[k.value] = sem_in(fi, v, filevar, dict_node.lineno)
    for key, forms in want.items():
        forms = {forms} if isinstance(forms, str) else set(forms)
        g = got.get(key)
        ctx.check(g in forms, f"{prefix}.TASK", fi.site, f"task['{key}'] = {sorted(forms)[0][:90]}",
                  f"task['{key}'] is {g}; expected {sorted(forms)[0]}", key=f"task:{key}", where=loc(fi, dict_node),
                  objects={"got": g})
    return got
