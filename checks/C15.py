"""C15 — level iteration yields every box exactly once, whatever the schedule."""
import ast

from vk import pools, rules
from vk.model import norm, loc, AnalysisError, walk_no_nested
from checks import readers
from checks.C01 import check_box_selection

P = "C15"
PC = readers.PC


def run(ctx):
    prog = ctx.prog
    _, disp = readers.stream_dispatch(prog, P)
    slots = readers.task_slots(prog, P)
    n = 0
    readers.selector_identity(ctx, P)
    # the level key reaches the stream through the selector's __getitem__: anchored for the generic lints
    prog.func(PC, "LevelDataSelector.__getitem__", P)
    prog.func(PC, "LevelDataSelector.__init__", P)
    for kind, funs in sorted(disp.items()):
        if "file_fun" not in funs:
            ctx.finding(f"{P}.DISPATCH", PC + "::LevelDataStream.__init__", f"no file_fun stored for {kind} selectors")
            continue
        res = readers.check_reader(ctx, P, funs["file_fun"], kind, "bfile", slots)
        n += 1
        # exactly one append per FAB on the scanning path
        for p in res.paths:
            if getattr(p, "from_handler", False):
                continue
            aps = [e for e in p.events if e.kind == "append" and e.loops]
            hdrs = [e for e in p.events if e.kind == "readline" and e.loops]
            if hdrs:
                ctx.check(len(aps) == len(hdrs) == 1, f"{P}.ONCE-PER-FAB", funs["file_fun"].site,
                          "each scanned FAB header is followed by exactly one appended array",
                          f"{len(hdrs)} header reads and {len(aps)} appends per scan iteration: boxes would be "
                          f"dropped or duplicated")
        # the scan must stop only through the parse failure at end of file (break in the handler)
        fi = funs["file_fun"]
        whiles = [w for w in walk_no_nested(fi.node) if isinstance(w, ast.While)]
        ok = len(whiles) == 1 and isinstance(whiles[0].test, ast.Constant) and whiles[0].test.value is True
        brk = [b for b in ast.walk(fi.node) if isinstance(b, ast.Break)]
        in_handler = all(any(b in list(ast.walk(h)) for t in ast.walk(fi.node) if isinstance(t, ast.Try)
                             for h in t.handlers) for b in brk)
        ctx.check(ok and brk and in_handler, f"{P}.SCAN-END", fi.site,
                  "the scan loop is `while True` left only from the parse-failure handler (end of file)",
                  "the scan can stop before the end of the file (bounded loop or break outside the EOF handler)")
    ctx.floor("per-file scan accessors", n, 3)
    # __iter__: every file of the level exactly once, with the level's own table and the stored selector
    it = prog.func(PC, "LevelDataStream.__iter__", P)
    rets = [r for r in walk_no_nested(it.node) if isinstance(r, ast.Return)]
    ok = False
    for r in rets:
        c = r.value
        if isinstance(c, ast.Call) and norm(c.func) == "LevelDataIterator" and len(c.args) == 3:
            a = [norm(x) for x in c.args]
            ok = a == ["self.file_fun", "np.unique(self.bfiles)", "self.farg"]
    ctx.check(ok, f"{P}.P5b", it.site,
              "iteration visits np.unique(bfiles) (each binary file exactly once) with file_fun and the selector",
              f"__iter__ builds {[norm(r.value) for r in rets]}: every binary file of the level must be scanned "
              f"exactly once (np.unique of the level's file table)", where=loc(it, it.node))
    # LevelDataIterator
    li = prog.func(PC, "LevelDataIterator.__init__", P)
    sites = pools.find_sites(prog, li)
    ctx.check(len(sites) == 1 and sites[0].prim in ("imap", "imap_unordered", "map"), f"{P}.POOL", li.site,
              "one pool call feeds the chained iterator (any order is allowed: the property leaves box order "
              "unspecified)", f"pool sites {sites}")
    for s in sites:
        pools.rule_X2(ctx, P, s)
        t = s.task
        ok = isinstance(t, ast.Call) and norm(t.func) == "zip" and len(t.args) == 2 and \
            norm(t.args[0]) == li.params[2] and norm(t.args[1]) in (f"[{li.params[3]}] * len({li.params[2]})",
                                                                    f"itertools.repeat({li.params[3]})",
                                                                    f"repeat({li.params[3]})")
        ctx.check(ok, f"{P}.TASKS", li.site, "one (file, selector) task per file",
                  f"tasks are {norm(t) if t is not None else None}: one (file, selector) pair per binary file is "
                  f"needed (a shorter selector list truncates the zip)", where=loc(li, s.call))
        ctx.check(norm(s.worker_expr) == li.params[1], f"{P}.TASKS", li.site, "the pool applies the given file_fun",
                  f"the pool applies {norm(s.worker_expr)}", key="worker")
    nx = prog.func(PC, "LevelDataIterator.__next__", P)
    trys = [t for t in nx.node.body if isinstance(t, ast.Try)]
    ok = False
    if len(trys) == 1:
        t = trys[0]
        body_ret = [norm(r.value) for r in t.body if isinstance(r, ast.Return)]
        hs = t.handlers
        if len(hs) == 1 and hs[0].type is not None and norm(hs[0].type) == "StopIteration":
            hb = [norm(s) for s in hs[0].body]
            nxt = {"self._data.__next__()", "next(self._data)"}
            adv = {"self._data = self.iterator.__next__().__iter__()", "self._data = iter(next(self.iterator))",
                   "self._data = iter(self.iterator.__next__())", "self._data = next(self.iterator).__iter__()"}
            ok = len(body_ret) == 1 and body_ret[0] in nxt and len(hb) == 2 and hb[0] in adv and \
                hb[1] in {"return " + x for x in nxt}
    ctx.check(ok, f"{P}.CHAIN", nx.site,
              "__next__ drains the current file's list, then advances to the next file's list; the outer "
              "iterator's StopIteration ends the iteration",
              "__next__ does not chain the per-file lists (drain current, on StopIteration advance the outer "
              "iterator once and yield from it)", where=loc(nx, nx.node))
    it2 = prog.func(PC, "LevelDataIterator.__iter__", P)
    ctx.check([norm(r.value) for r in walk_no_nested(it2.node) if isinstance(r, ast.Return)] == ["self"],
              f"{P}.CHAIN", it2.site, "__iter__ returns self", "__iter__ does not return self", key="iter-self")
    prim = [norm(s) for s in li.node.body if isinstance(s, ast.Assign) and norm(s.targets[0]) == "self._data"]
    ctx.check(prim in (["self._data = self.iterator.__next__().__iter__()"], ["self._data = iter(next(self.iterator))"]),
              f"{P}.CHAIN", li.site, "the first file's list is primed at construction", f"priming is {prim}", key="prime")
    # on-demand iterator: requested order
    check_box_selection(ctx, prog.func(PC, "LevelDataStream.iter", P), P)
    ctx.assume("every binary file listed in a level header holds at least one box of that level (well-formed)")
    ctx.assume("the scan's parse failure happens only at end of file for well-formed files")
    return ("Static: abstract interpretation of the three per-file scan readers (whole-FAB advance 8*C*N per "
            "iteration, window/shape/components per selector kind, one append per header), np.unique over the "
            "level's own file table, one task per file, chained-iterator protocol, ordered primitive and "
            "same-index tasks for the on-demand iterator. Decides structural clauses of DESIGN §4.C15.",
            ["vk/fabio.py", "vk/pools.py", "multiprocessing imap/map ordering semantics"])
