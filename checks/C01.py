"""C01 — box data read through the indexing interface is exactly what is on disk.

Decides (DESIGN §4.C01): byte windows / F-order reshape / selector space of the three
seek-addressed readers (E1, roles derived from the dispatch), same-index and count
agreement of the task tuples, order-preserving pool primitives, exhaustive dispatch,
selector validation (bounds present, negative index normalised), level guard.
"""
import ast

from vk import fabio, pools, rules
from vk.model import norm, loc, AnalysisError, walk_no_nested, call_name
from checks import readers, hfab

PC = readers.PC
P = "C01"


def branch_kind(test):
    kinds = set()
    for c in ast.walk(test):
        if isinstance(c, ast.Call) and isinstance(c.func, ast.Name) and c.func.id == "isinstance" and len(c.args) == 2:
            types = c.args[1].elts if isinstance(c.args[1], ast.Tuple) else [c.args[1]]
            for t in types:
                k = {"int": "int", "slice": "slice", "list": "seq", "np.ndarray": "seq",
                     "np.integer": "int", "numbers.Integral": "int"}.get(norm(t))
                if k:
                    kinds.add(k)
    return kinds


def check_box_selection(ctx, fi, P=P):
    """LevelDataStream.__getitem__ / iter"""
    site = fi.site
    idxp = fi.params[1] if len(fi.params) > 1 else "idx"
    chains = rules.isinstance_chains(fi.node)
    chains = [c for c in chains if c[0] == idxp]
    if len(chains) != 1:
        raise AnalysisError(f"{P}.U5", site, f"expected one isinstance dispatch over `{idxp}`, found {len(chains)}")
    subj, branches, tail, node, rest = chains[0]
    # U5: selections that match no branch must raise, not fall through to None
    falls = tail is None and not rules.always_raises(rest)
    tail_ok = tail is not None and rules.always_raises(tail)
    ctx.check(tail_ok or (tail is None and rules.always_raises(rest)), f"{P}.U5", site,
              f"a box selector of an unsupported type raises",
              f"a box selector matching none of the isinstance tests (e.g. numpy.int64 from np.nonzero / "
              f"np.argmax) falls through and the call returns None instead of raising",
              key="dispatch", where=loc(fi, node))
    # EMPTY-GUARD: a shortcut that answers "no boxes" tests the *length* of the selection, not its values (index 0
    # and False are values)
    for g in ast.walk(fi.node):
        if isinstance(g, ast.If) and len(g.body) == 1 and isinstance(g.body[0], ast.Return) and \
                isinstance(g.body[0].value, (ast.List, ast.Tuple)) and not g.body[0].value.elts and \
                any(isinstance(x, ast.Name) and x.id == idxp for x in ast.walk(g.test)):
            t = norm(g.test)
            by_len = t in (f"len({idxp}) == 0", f"not len({idxp})", f"len({idxp}) < 1", f"{idxp}.size == 0",
                           f"0 == len({idxp})", f"not {idxp}.size", f"np.size({idxp}) == 0")
            by_value = any(isinstance(c, ast.Call) and norm(c.func).split(".")[-1] in
                           ("any", "all", "sum", "count_nonzero", "max", "min", "nonzero") for c in ast.walk(g.test)) or \
                t in (f"not {idxp}",)
            ctx.decide(by_len, by_value, f"{P}.EMPTY-GUARD", site,
                       "the empty-selection shortcut tests the length of the selection",
                       f"the shortcut `if {t}: return []` decides on the *values* of the selection: an integer selection "
                       f"made only of box 0 (or a list holding only index 0) is answered with no boxes at all",
                       key=f"empty:{t[:30]}", where=loc(fi, g))
    # per branch: the task tuple
    n_tasks = 0
    for br in branches:
        kinds = branch_kind(br.test)
        reads = [c for c in ast.walk(ast.Module(body=br.body, type_ignores=[])) if isinstance(c, ast.Call)
                 and norm(c.func) == "self.read_fun"]
        zips = [c for c in ast.walk(ast.Module(body=br.body, type_ignores=[])) if isinstance(c, ast.Call)
                and call_name(c) == "zip"]
        if "int" in kinds:
            # direct call self.read_fun((self.bfiles[idx], self.offsets[idx], self.farg))
            ok = False
            for c in reads:
                if c.args and isinstance(c.args[0], ast.Tuple) and len(c.args[0].elts) == 3:
                    f, o, s = c.args[0].elts
                    ok = (norm(f) == f"self.bfiles[{idxp}]" and norm(o) == f"self.offsets[{idxp}]"
                          and norm(s) == "self.farg")
                    n_tasks += 1
            ctx.check(ok, f"{P}.SAME-INDEX", site,
                      "integer selection reads (bfiles[i], offsets[i], farg) with one index i",
                      "integer selection does not pair bfiles[i] with offsets[i] of the same i",
                      key="int", where=loc(fi, br))
            continue
        for z in zips:
            if len(z.args) != 3:
                continue
            n_tasks += 1
            f, o, s = z.args
            fidx = norm(f.slice) if isinstance(f, ast.Subscript) else None
            oidx = norm(o.slice) if isinstance(o, ast.Subscript) else None
            ok = (isinstance(f, ast.Subscript) and isinstance(o, ast.Subscript) and
                  norm(f.value) == "self.bfiles" and norm(o.value) == "self.offsets" and fidx == oidx == idxp)
            bk = "slice" if "slice" in kinds else "seq"
            both_tables = isinstance(f, ast.Subscript) and isinstance(o, ast.Subscript) and \
                norm(f.value) == "self.bfiles" and norm(o.value) == "self.offsets"
            ctx.check(ok, f"{P}.SAME-INDEX", site,
                      f"{bk} selection zips bfiles[{idxp}] with offsets[{idxp}] (same selector on both tables)",
                      f"{bk} selection zips {norm(f)} with {norm(o)}: file and offset are not selected by the "
                      f"same index expression", key=bk, where=loc(fi, z), semantic=both_tables)
            check_count(ctx, fi, br, bk, s, idxp, z, P)
    ctx.floor(f"{fi.qualname} task constructions", n_tasks, 3)
    # pool primitives
    for s in pools.find_sites(ctx.prog, fi):
        pools.rule_P1(ctx, P, s)
        # the i-th result is the i-th selected box: the ordered pool result is handed back as it is; a selection
        # that is read in another order has to undo that order exactly (inverse permutation), which a re-indexing
        # of the results by the same index array does not
        ctx.check(s.consumer[0] == "returned", f"{P}.ORDER", site,
                  "the ordered pool result is returned to the caller unchanged (result i = selected box i)",
                  f"the pool results are {s.consumer[1] if len(s.consumer) > 1 else s.consumer[0]} before they are "
                  f"returned: the boxes come back in an order that is not the order of the selection unless the "
                  f"re-ordering is the exact inverse of the order the tasks were issued in",
                  key="result:" + s.key, where=loc(fi, s.call), semantic=True)
        ws = {w.qualname for w in s.workers}
        exp = {d["read_fun"].qualname for d in readers.stream_dispatch(ctx.prog, P)[1].values() if "read_fun" in d}
        ctx.check(ws == exp and norm(s.worker_expr) == "self.read_fun", f"{P}.WORKER", site,
                  f"pool applies self.read_fun (callee set {sorted(ws)})",
                  f"pool applies {norm(s.worker_expr)} (callees {sorted(ws)}); the seek-addressed readers are "
                  f"{sorted(exp)}", key=s.key, where=loc(fi, s.call))


def check_count(ctx, fi, br, bk, rep, idxp, z, P=P):
    """the selector list repeated `count` times must be as long as the selection"""
    site = fi.site
    env = rules.local_env(ast.Module(body=br.body, type_ignores=[]))
    t = norm(rep)
    if t in ("itertools.repeat(self.farg)", "repeat(self.farg)"):
        ctx.ok(f"{P}.COUNT", site, "selector repeated without bound", key=bk)
        return
    if isinstance(rep, ast.Attribute) and isinstance(rep.value, ast.Name) and rep.value.id == "self" and fi.cls is not None:
        # a repetition prepared once on the object: read through its (single) definition in the class
        defs = [a.value for m in fi.cls.methods.values() for a in ast.walk(m.node) if isinstance(a, ast.Assign)
                and any(norm(x) == t for x in a.targets)]
        if len(defs) == 1:
            rep = defs[0]
    if not (isinstance(rep, ast.BinOp) and isinstance(rep.op, ast.Mult)):
        ctx.unknown(f"{P}.COUNT", site, f"unrecognised selector repetition {t}", key=bk)
        return
    cnt = rep.right if norm(rep.left) == "[self.farg]" else rep.left
    if norm(cnt) == "self.size":
        # zip stops at its shortest operand: a repetition of at least the selection's length is enough.  The number of
        # boxes of the level bounds every slice selection; it does not bound an index list, which may repeat boxes
        if bk == "slice":
            ctx.ok(f"{P}.COUNT", site, "slice selection: selector repeated once per box of the level (at least the "
                                       "selection's length; zip stops at the selection)", key="slice")
        else:
            ctx.finding(f"{P}.COUNT", site,
                        "index-list / mask selection: the selector is repeated once per box of the LEVEL (self.size), and "
                        "zip stops at its shortest operand: an index list longer than the level (repeated box ids, one id "
                        "per probe point) is silently cut to self.size results instead of one array per requested box",
                        key="seq", where=loc(fi, z), semantic=True)
        return
    if bk == "slice":
        c = cnt
        if isinstance(c, ast.Name) and env.get(c.id) is not None:
            c = env[c.id]
        ok = norm(c) in (f"len(range(*{idxp}.indices(self.size)))", f"len(self.bfiles[{idxp}])",
                         f"len(self.offsets[{idxp}])")
        ctx.check(ok, f"{P}.COUNT", site, "slice selection: selector repeated len(range(*idx.indices(size))) times",
                  f"slice selection repeats the selector {norm(c)} times, not the number of selected boxes "
                  f"(zip truncates silently)", key="slice", where=loc(fi, z))
        # self.size must be the number of boxes
        return
    # sequence: count assigned under dtype tests
    assigns = []
    for n in ast.walk(ast.Module(body=br.body, type_ignores=[])):
        if isinstance(n, ast.If):
            tt = norm(n.test)
            for b in n.body:
                if isinstance(b, ast.Assign) and norm(b.targets[0]) == norm(cnt):
                    assigns.append((tt, norm(b.value)))
    if not assigns:
        c = cnt
        if isinstance(c, ast.Name) and env.get(c.id) is not None:
            c = env[c.id]
        ok = norm(c) in (f"len(self.bfiles[{idxp}])", f"len(self.offsets[{idxp}])")
        ctx.check(ok, f"{P}.COUNT", site, "sequence selection: selector repeated len(selection) times",
                  f"sequence selection repeats the selector {norm(c)} times", key="seq", where=loc(fi, z))
        return
    good = True
    why = []
    for tt, val in assigns:
        if "bool" in tt:
            g = val in (f"np.count_nonzero({idxp})", f"{idxp}.sum()", f"np.sum({idxp})", f"int({idxp}.sum())")
        elif "int" in tt:
            g = val in (f"len({idxp})", f"{idxp}.size", f"{idxp}.shape[0]")
        else:
            g = False
        good &= g
        if not g:
            why.append(f"under `{tt}` count = {val}")
    ctx.check(good and len(assigns) >= 2, f"{P}.COUNT", site,
              "sequence selection: count = len(idx) for integer arrays and count_nonzero(idx) for masks",
              f"selector repetition count does not match the number of selected boxes: {why or assigns}",
              key="seq", where=loc(fi, z))


def check_stream_init(ctx):
    prog = ctx.prog
    fi, disp = readers.stream_dispatch(prog, P)
    site = fi.site
    ctx.check(set(disp) >= {"single", "slice", "list"}, f"{P}.DISPATCH", site,
              "field-selector dispatch covers int, slice and list/ndarray",
              f"field-selector dispatch covers only {sorted(disp)}")
    # table attributes
    txt = {norm(n.targets[0]): norm(n.value) for n in fi.node.body if isinstance(n, ast.Assign)}
    p = fi.params
    ok = (txt.get("self.bfiles", "").replace("np.array(", "").rstrip(")") == p[1] and
          txt.get("self.offsets", "").replace("np.array(", "").rstrip(")") == p[2] and
          txt.get("self.size") in (f"len({p[1]})", f"len({p[2]})", "len(self.bfiles)"))
    ctx.check(ok, f"{P}.TABLES", site, "stream keeps the level's files and offsets tables and their length",
              f"stream attributes are {txt}")
    readers.selector_identity(ctx, P, fi)
    return disp


def check_selector(ctx):
    prog = ctx.prog
    fi = prog.func(PC, "LevelDataSelector.__init__", P)
    site = fi.site
    fa = fi.params[3]  # field_arg
    fields = fi.params[1]
    # BOUNDS-PRESENT: an indexing of the field table by the selector inside a try whose IndexError handler raises
    found = None
    store_line = None
    for n in walk_no_nested(fi.node):
        if isinstance(n, ast.Try):
            idx_hit = any(isinstance(s, ast.Subscript) and norm(s.slice) == fa and
                          ("keys()" in norm(s.value) or fields in norm(s.value) or "arange" in norm(s.value)
                           or "range(" in norm(s.value))
                          for b in n.body for s in ast.walk(b))
            handler_raises = any(h.type is not None and "IndexError" in norm(h.type) and rules.always_raises(h.body)
                                 for h in n.handlers)
            if idx_hit and handler_raises:
                found = n
    stores = [n for n in walk_no_nested(fi.node) if isinstance(n, ast.Assign)
              and any(norm(t) == "self.farg" for t in n.targets)]
    if not stores:
        raise AnalysisError(f"{P}.BOUNDS-PRESENT", site, "no store to self.farg")
    guarded = found is not None and all(
        any(s is b or s in list(ast.walk(b)) for b in found.body) or s.lineno > found.end_lineno for s in stores)
    ctx.check(guarded, f"{P}.BOUNDS-PRESENT", site,
              "the selector is validated by indexing the field table (IndexError -> raise) before it is stored",
              "the field selector is stored without the bounds validation against the field table: an "
              "out-of-range field index seeks past the FAB and returns another box's bytes",
              where=loc(fi, stores[0]))
    # VALIDATE-RAW: the bounds probe must see the selector as given; wrapping a negative index (k += N, k %= N)
    # *before* the probe turns every k in [-2N, -N) into a valid index instead of an error
    if found is not None:
        probe_line = min((s.lineno for b in found.body for s in ast.walk(b)
                          if isinstance(s, ast.Subscript) and norm(s.slice) == fa), default=None)
        early = [n for n in walk_no_nested(fi.node)
                 if ((isinstance(n, ast.AugAssign) and norm(n.target) == fa) or
                     (isinstance(n, ast.Assign) and norm(n.targets[0]) == fa and isinstance(n.value, ast.BinOp)
                      and any(isinstance(x, ast.Name) and x.id == fa for x in ast.walk(n.value))))
                 and probe_line is not None and n.lineno < probe_line]
        ctx.check(not early, f"{P}.BOUNDS-PRESENT", site,
                  "the bounds validation sees the selector as given (no arithmetic normalisation before it)",
                  f"`{norm(early[0]) if early else ''}` rewrites the selector before it is validated against the field "
                  f"table: an out-of-range negative index (-2N <= k < -N) is wrapped into range and answered with "
                  f"another field's data instead of being refused", key="validate-raw",
                  where=loc(fi, early[0]) if early else None, semantic=True)
    # V-RANGE: negative integers pass the numpy-style check but make the seek polynomial 8*C*k negative
    norm_ok = False
    for n in walk_no_nested(fi.node):
        if isinstance(n, ast.If):
            for c in ast.walk(n.test):
                if isinstance(c, ast.Compare) and len(c.ops) == 1 and norm(c.left) == fa and \
                        isinstance(c.comparators[0], ast.Constant) and c.comparators[0].value == 0 and \
                        isinstance(c.ops[0], (ast.Lt, ast.GtE)):
                    body_fix = any(isinstance(b, ast.Raise) or
                                   (isinstance(b, (ast.Assign, ast.AugAssign)) and fa in norm(b)) for b in n.body)
                    norm_ok |= body_fix
        if isinstance(n, ast.BinOp) and isinstance(n.op, ast.Mod) and norm(n.left) == fa:
            norm_ok = True
    for s in stores:
        v = norm(s.value)
        if v != fa and ("range(" in v or "arange(" in v) and f"[{fa}]" in v:
            norm_ok = True
    ctx.check(norm_ok, f"{P}.V-RANGE", site,
              "a negative integer field selector is normalised (or refused) before it reaches the seek",
              f"`{fa}` passes the numpy-style bounds check for -N <= k < 0 and is stored unnormalised; the readers "
              f"seek 8*C*k bytes *backwards* from the data start and return bytes of the header/previous box",
              key="negative-int", where=loc(fi, stores[0]))
    # name -> index through the field table
    maps = [n for n in walk_no_nested(fi.node) if isinstance(n, ast.Assign) and norm(n.targets[0]) == fa]
    ok = any(norm(m.value) == f"{fields}[{fa}]" for m in maps) and \
        any(isinstance(m.value, ast.ListComp) and norm(m.value.elt).startswith(f"{fields}[") for m in maps)
    ctx.check(ok, f"{P}.NAME-MAP", site, "field names are mapped to indices through the header's field table",
              f"field names are mapped by {[norm(m.value) for m in maps]}")
    # level selection
    gi = prog.func(PC, "LevelDataSelector.__getitem__", P)
    key = gi.params[1]
    guard = None
    for n in gi.node.body:
        if isinstance(n, ast.If) and rules.always_raises(n.body):
            for c in rules.disjuncts(n.test):
                try:
                    d, op = rules.compare_nf(c)
                except rules.FormulaError:
                    continue
                from vk.poly import Ratio
                want = Ratio.atom("self.limit_level") - Ratio.atom(key)
                if (d == want and op == "<") or (d == -want and op == ">"):
                    guard = n
    ctx.check(guard is not None, f"{P}.LEVEL-GUARD", gi.site,
              f"levels above the limit are refused: raise iff {key} > self.limit_level",
              f"no guard `{key} > self.limit_level -> raise` (exact comparator) before the level tables are indexed",
              where=loc(gi, gi.node))
    ret = [n for n in walk_no_nested(gi.node) if isinstance(n, ast.Return)]
    ok = False
    for r in ret:
        if isinstance(r.value, ast.Call) and norm(r.value.func) == "LevelDataStream" and len(r.value.args) == 3:
            a = [norm(x) for x in r.value.args]
            ok = a == [f"self.cells[{key}]['files']", f"self.cells[{key}]['offsets']", "self.farg"]
    ctx.check(ok, f"{P}.LEVEL-COH", gi.site,
              "files and offsets tables are taken from the same level and passed in (files, offsets, selector) order",
              f"LevelDataStream is built from {[norm(r.value) for r in ret]}", where=loc(gi, gi.node))
    # PlotfileCooker.__getitem__ wiring
    pg = prog.func(PC, "PlotfileCooker.__getitem__", P)
    ret = [n for n in walk_no_nested(pg.node) if isinstance(n, ast.Return)]
    sel_params = fi.params[1:]
    ok = False
    for r in ret:
        if isinstance(r.value, ast.Call) and norm(r.value.func) == "LevelDataSelector":
            bound = {}
            for i, a in enumerate(r.value.args):
                bound[sel_params[i]] = norm(a)
            for k in r.value.keywords:
                bound[k.arg] = norm(k.value)
            ok = (bound.get(sel_params[0]) == "self.fields" and bound.get(sel_params[1]) == "self.cells"
                  and bound.get(sel_params[2]) == pg.params[1] and bound.get(sel_params[3]) == "self.limit_level")
    ctx.check(ok, f"{P}.WIRING", pg.site, "selector receives (fields, cells, key, limit_level) of this reader",
              "selector construction does not bind fields/cells/key/limit_level to the matching parameters")


def run(ctx):
    prog = ctx.prog
    disp = check_stream_init(ctx)
    slots = readers.task_slots(prog, P)
    n_acc = 0
    for kind, funs in sorted(disp.items()):
        if "read_fun" not in funs:
            ctx.finding(f"{P}.DISPATCH", PC + "::LevelDataStream.__init__", f"no read_fun stored for {kind} selectors")
            continue
        readers.check_reader(ctx, P, funs["read_fun"], kind, "box", slots)
        n_acc += 1
    ctx.floor("seek-addressed reader accessors", n_acc, 3)
    for q in ("LevelDataStream.__getitem__", "LevelDataStream.iter"):
        check_box_selection(ctx, prog.func(PC, q, P))
    prog.func(PC, "LevelDataSelector.__getitem__", P)      # anchored for the generic lints (level key handling)
    check_selector(ctx)
    hfab.check_parser(ctx, P, "shape_from_header")
    if ctx.tier == "thorough":
        # generic sweep: every accessor reachable from the indexing interface obeys G1..G5
        for kind, funs in sorted(disp.items()):
            if "file_fun" in funs:
                readers.check_reader(ctx, P, funs["file_fun"], kind, "bfile", slots)
    ctx.assume("a FAB header's extents equal the level header's extents of the same box (well-formed input)")
    ctx.assume("numpy semantics of fromfile/reshape/indexing as encoded in vk/fabio.py")
    return ("Static: abstract interpretation of the three seek-addressed readers in a polynomial byte-accounting "
            "domain (window = selected fields, F-order reshape, selection in window space), AST rules for the "
            "task tuples (same index on files/offsets, count), pool primitive ordering, exhaustive dispatch, "
            "selector validation and level guard. Decides the structural clauses of DESIGN §4.C01, not the "
            "behaviour on disk bytes.",
            ["vk/fabio.py transfer functions (numpy/IO semantics)", "role derivation from LevelDataStream.__init__",
             "Python ast"])
