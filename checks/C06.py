"""C06 — combine merges fields box by box, independent of either input's file layout."""
import ast

from vk import fabio, pools, rules, formulas, wiring, grammar
from vk.fabio import Num, N, D, Roles, Ratio
from vk.model import norm, loc, AnalysisError, walk_no_nested, call_name, parents
from checks import writers, headers, taskmaps, C13
from checks.headers import joined

P = "C06"
CB = "amr_kitchen/combine/combine.py"
PC = "amr_kitchen/plotfile_cooker.py"
WORKERS = ["parallel_combine_by_binfile", "parallel_combine_by_binfile_offsets", "parallel_combine_by_boxes_offsets"]


def worker_rules(ctx, fi):
    eq = {f"D{i}@2": D("1", i).r.n for i in range(3)}
    roles = Roles(fabs={"args['bfile_r1']": "1", "args['bfile_r2']": "2", "args['bfile_r2'][i]": "2",
                        "args['bfile_w']": "w"}, equiv=eq)
    roles.sel_kinds = {"args['vidxs1']": "list", "args['vidxs2']": "list"}
    res = fabio.analyse(ctx.prog, fi, roles, P)
    fabio.report_generic(ctx, res, P)
    ip = res.interp
    site = fi.site
    # whole FAB read on each side
    for ff in {id(e): e for e in res.events("fromfile")}.values():
        fab = ff.arr.fab
        full = fabio.C(fab, 3).r * N(fab).r
        ok = ff.count is not None and ip.eq(ff.arr.win_lo, Num(0)) and ip.eq(ff.count, Num(full))
        wtxt = f"{ff.arr.win_lo.text()} | {ff.count.text() if ff.count else ''}"
        ends = not ok and "vidxs" in wtxt and ("][0]" in wtxt or "][-1]" in wtxt)
        if ends:
            # decided on the window polynomial: a window from the list's FIRST entry to its LAST entry holds the selected
            # components only for an ascending list; combine's lists are in the order the user names the fields
            srt = any("sort" in norm(a.value) for a in ast.walk(fi.module.tree) if isinstance(a, ast.Assign)
                      and any("vidxs" in norm(t) for t in a.targets))
            ctx.decide(False, not srt, f"{P}.WINDOW", site, f"side {fab}: the whole FAB is read",
                       f"side {fab}: the read window runs from the first to the last entry of the field-index list "
                       f"({ff.arr.win_lo.text()} .. +{ff.count.text() if ff.count else None}): the list is in the order the "
                       f"fields were named, not ascending - with `vars` such as 'a1 a0 a2' the lowest / highest selected "
                       f"component lies outside the window (wrong data or IndexError)", key=f"side{fab}",
                       where=loc(fi, ff.node))
            continue
        ctx.check(ok, f"{P}.WINDOW", site, f"side {fab}: the whole FAB is read",
                  f"side {fab}: read window ({ff.arr.win_lo.text()}, {ff.count.text() if ff.count else None}) is not "
                  f"the whole FAB", key=f"side{fab}", where=loc(fi, ff.node))
    # SIDE-COH: absolute seeks use the offsets of their own side
    for sk in res.events("seek_abs"):
        side = sk.h.fab
        ok = f"offst_r{side}" in sk.key
        ctx.check(ok, f"{P}.SIDE-COH", site, f"side {side} is addressed with its own offsets ({sk.key})",
                  f"side {side}'s file is seeked with {sk.key}: offsets of the other plotfile", key=f"seek{side}",
                  where=loc(fi, sk.node))

    def comps_ok(arr, path):
        cs = arr.comps or []
        txt = " ++ ".join(c.text() for c in cs)
        ok = len(cs) == 2 and cs[0].kind == "list" and cs[1].kind == "list" and \
            (cs[0].fab, cs[0].a.text()) == ("1", "args['vidxs1']") and \
            (cs[1].fab, cs[1].a.text()) == ("2", "args['vidxs2']") and not arr.arith
        return ok, f"selected fields of plotfile 1 (vidxs1 on side 1) followed by those of plotfile 2 (vidxs2 on " \
                   f"side 2): {txt}"

    def hdr_ok(hdr, path):
        return hdr.source == "built" and hdr.idx_prov == "fab" and hdr.idx_fab in ("1", "2"), \
            f"canonical header built from the source FAB's index range (side {hdr.idx_fab})"
    n = writers.check_fab_writes(ctx, P, res, "args['bfile_w']", comps_ok, hdr_ok, dims_fab="1")
    ctx.floor(f"{fi.qualname} FAB write groups", n, 1)
    writers.returns_offsets_first(ctx, P, res)
    # access kind per side
    kinds = {}
    for rl in res.events("readline"):
        kinds.setdefault(rl.h.fab, set()).add("seek" if rl.fabkey.startswith("abs:") else "scan")
    return res, {k: sorted(v)[0] if len(v) == 1 else "mixed" for k, v in kinds.items()}


def mode_enum(ctx):
    """U3/U4: every mode the dispatch compares against is produced, and vice versa"""
    prog = ctx.prog
    v = prog.func(CB, "validate_combine_input", P)
    c = prog.func(CB, "combine", P)
    produced, noeffect = set(), []
    for n in walk_no_nested(v.node):
        if isinstance(n, ast.Assign) and norm(n.targets[0]) in ("output['mode']",) and isinstance(n.value, ast.Constant):
            produced.add(n.value.value)
        if isinstance(n, ast.Expr) and isinstance(n.value, ast.Compare):
            noeffect.append(n)
    consumed = {}
    for n in walk_no_nested(c.node):
        if isinstance(n, ast.Compare) and len(n.ops) == 1 and isinstance(n.ops[0], ast.Eq) and \
                norm(n.left) == "cbmode" and isinstance(n.comparators[0], ast.Constant):
            consumed[n.comparators[0].value] = n
    src = formulas.find_assign(c, "cbmode")
    ctx.check(src is not None and norm(src.value) == "clean_args['mode']", f"{P}.U3", c.site,
              "the dispatch variable is the validated mode", "cbmode is not clean_args['mode']", key="source")
    for stmt in noeffect:
        ctx.finding(f"{P}.U4", v.site, f"`{norm(stmt)}` is a comparison used as a statement: it has no effect "
                                       f"(an assignment was meant)", key=norm(stmt)[:40], where=loc(v, stmt))
    # MODE-DECISION: 'byfile' survives only if every box lives in the same-named file in both inputs (per-box tables
    # compared, not just the sets of file names); otherwise the box-by-box mode is selected
    env = rules.local_env(v.node)
    dec = None
    for n in walk_no_nested(v.node):
        if isinstance(n, ast.If) and any(isinstance(b, ast.Assign) and norm(b.targets[0]) == "output['mode']" and
                                         isinstance(b.value, ast.Constant) and b.value.value == "bybox" for b in n.body):
            dec = n
    ok = False
    got = None
    if dec is not None:
        t = dec.test
        if isinstance(t, ast.UnaryOp) and isinstance(t.op, ast.Not) and isinstance(t.operand, ast.Call) and \
                norm(t.operand.func) in ("np.array_equal", "numpy.array_equal") and len(t.operand.args) == 2:
            ops = sorted(rules.leaf_text(a, env, None) for a in t.operand.args)
            got = ops
            vecs = ("np.vectorize(lambda s: os.path.split(s)[-1])", "np.vectorize(os.path.basename)",
                    "np.vectorize(lambda s: os.path.basename(s))")
            ok = any(ops == [f"{vc}(args[0].cells[lv]['files'])", f"{vc}(args[1].cells[lv]['files'])"] for vc in vecs)
    ctx.check(ok, f"{P}.MODE-DECISION", v.site,
              "the file-by-file mode is kept only when the *per-box* file-name tables of the two inputs are equal "
              "(box i lives in the same-named file in both); otherwise box-by-box",
              f"the decision for 'bybox' compares {got}: unless the full per-box file tables (basename of "
              f"cells[lv]['files'] of each input, in box order) are compared, inputs that use the same set of file names "
              f"but assign boxes to files differently are merged file-by-file and boxes of different index ranges are "
              f"paired silently", where=loc(v, dec or v.node))
    for m, node in sorted(consumed.items()):
        ctx.check(m in produced, f"{P}.U3", c.site, f"mode '{m}' is produced by the validation",
                  f"combine() dispatches on mode '{m}', which validate_combine_input never produces (produced: "
                  f"{sorted(produced)}): inputs with the same files but different box order inside a file are "
                  f"combined with the 'byfile' worker, pairing different boxes silently", key=m, where=loc(c, node))
    for m in sorted(produced - set(consumed)):
        ctx.finding(f"{P}.U3", c.site, f"mode '{m}' is produced but combine() has no branch for it", key="unhandled:" + m)
    return produced, consumed


def dispatch_sites(ctx):
    """mode -> PoolSite in combine()"""
    prog = ctx.prog
    c = prog.func(CB, "combine", P)
    pm = parents(c.node)
    out = {}
    for s in pools.find_sites(prog, c):
        n = s.call
        while n is not None:
            p = pm.get(n)
            if isinstance(p, ast.If) and isinstance(p.test, ast.Compare) and norm(p.test.left) == "cbmode" and \
                    any(n is b or n in list(ast.walk(b)) for b in p.body):
                out[p.test.comparators[0].value] = s
                break
            n = p
    return c, out


def generator_order(ctx, gen):
    """semantic form of the per-file index array a generator uses for the *other* side's per-box lists"""
    pls = pools.perfile_loops(gen)
    if len(pls) != 1:
        return None, None
    pl = pls[0]
    forms = {}
    for n in ast.walk(pl.loop):
        if isinstance(n, ast.Dict):
            for k, v in zip(n.keys, n.values):
                forms[k.value] = taskmaps.sem_in(gen, v, pl.var, n.lineno)
    return pl, forms


def generator_p4(ctx, prefix, g, pl):
    """P4: the output file of a task is named after the per-file loop variable (one distinct target per binary file
    of the first plotfile), never after anything of the other plotfile: two tasks of one pool call must not open the
    same file for writing"""
    env = rules.local_env(g.node)
    dicts = [n for n in ast.walk(pl.loop) if isinstance(n, ast.Dict)]
    for d in dicts:
        for k, v in zip(d.keys, d.values):
            if isinstance(k, ast.Constant) and k.value == "bfile_w":
                txt = rules.deep(v, env, g.params)
                node = ast.parse(txt, mode="eval").body
                last = node.args[-1] if isinstance(node, ast.Call) and norm(node.func) == "os.path.join" and node.args else node
                names = {x.id for x in ast.walk(last) if isinstance(x, ast.Name)}
                attrs = {norm(x) for x in ast.walk(last) if isinstance(x, ast.Attribute)}
                from_other = "other" in names or any(a.startswith("other.") for a in attrs)
                ok = pl.var in names and not from_other and norm(last).startswith("os.path.basename(")
                ctx.decide(ok, (pl.var in names) or from_other, f"{prefix}.P4", g.site,
                           f"output file = <out>/<level dir>/basename(<file of plotfile 1 handled by the task>): one "
                           f"distinct target per task",
                           f"the output file name is `{norm(last)[:90]}`: it is not derived from the per-file loop "
                           f"variable `{pl.var}` alone" + (" but from the other plotfile's file table" if from_other else "")
                           + " — two tasks of the same pool call can open the same Cell_D file with 'wb', and its "
                           "bytes then depend on which task finishes last", key="bfile_w", where=loc(g, d),
                           objects={"bfile_w": txt[:200]})


def run(ctx):
    prog = ctx.prog
    access = {}
    for w in WORKERS:
        fi = prog.func(CB, w, P)
        _, access[w] = worker_rules(ctx, fi)
    produced, consumed = mode_enum(ctx)
    c, sites = dispatch_sites(ctx)
    ctx.floor("mode branches with a pool call", len(sites), 3)
    mp = prog.func(PC, "PlotfileCooker.map_bfile_offsets", P)
    map_pl = pools.perfile_loops(mp)
    map_form = None
    if len(map_pl) == 1:
        ap = taskmaps.find_appends(mp, "offsets_map")
        if len(ap) == 1:
            map_form = taskmaps.sem_in(mp, ap[0].args[0], map_pl[0].var, ap[0].lineno)
    map_table = map_pl[0].table if len(map_pl) == 1 else None
    if map_form is None:
        # the same map written as one comprehension: return [<entry(f)> for f in np.unique(<files>)]
        for r in walk_no_nested(mp.node):
            if isinstance(r, ast.Return) and isinstance(r.value, ast.ListComp) and len(r.value.generators) == 1 \
                    and not r.value.generators[0].ifs and isinstance(r.value.generators[0].target, ast.Name):
                g0 = r.value.generators[0]
                it = rules.deep(g0.iter, rules.local_env(mp.node), mp.params)
                if it in ("np.unique(np.array(self.cells[lv]['files']))", "np.unique(self.cells[lv]['files'])"):
                    map_table = "self.cells[lv]['files']"
                    map_form = taskmaps.sem_in(mp, r.value.elt, g0.target.id, r.lineno)
    ctx.check(map_table == "self.cells[lv]['files']" and map_form is not None,
              f"{P}.P5", mp.site, "the scatter map has one entry per np.unique(files) of the first plotfile's level",
              f"map_bfile_offsets iterates {[p.table for p in map_pl]}")
    sorted_form = map_form is not None and "ARGSORT" in map_form
    for mode, s in sorted(sites.items()):
        pools.rule_P1(ctx, P, s)
        pools.rule_X2(ctx, P, s)
        pools.rule_P2(ctx, P, prog, s)
        pools.rule_P3(ctx, P, prog, s)
        # generator iterates the same unique files as the map
        gens = prog.resolve_callable(c, s.task.func) if isinstance(s.task, ast.Call) else []
        for g in gens:
            pl, forms = generator_order(ctx, g)
            ok = pl is not None and pl.table == "self.cells[lv]['files']"
            ctx.check(ok, f"{P}.P5", g.site, "tasks are generated per np.unique(files) of the first plotfile, like "
                                             "the scatter map", f"{g.qualname} iterates {pl.table if pl else None}",
                      key=f"{mode}:unique")
            if pl is not None:
                generator_p4(ctx, P, g, pl)
            # SIDE-COH: where side 2 is addressed per box, its file list and its offset list are the per-box
            # selections of plotfile 2's own tables by the *same* box index array (the file group's box ids)
            if forms and "offst_r2" in forms and isinstance(forms.get("bfile_r2"), str):
                import re as _re
                o2, f2 = forms["offst_r2"], forms["bfile_r2"]
                mo = _re.fullmatch(r"SEL\(other\.cells\[lv\]\['offsets'\],(.+)\)", o2)
                sel = mo.group(1) if mo else None
                want_f = {f"MAP(os.path.join(os.getcwd(), •),SEL(other.cells[lv]['files'],{sel}))",
                          f"SEL(other.cells[lv]['files'],{sel})"}
                # any box-independent directory prefix joined in front of the selected name keeps the pairing
                pm = _re.fullmatch(r"MAP\(os\.path\.join\(([^•]*), •\),(SEL\(.+\))\)", f2)
                good = f2 in want_f or (pm is not None and sel is not None and
                                        pm.group(2) == f"SEL(other.cells[lv]['files'],{sel})")
                decidable = mo is not None and (good or f2.startswith(("MAP(", "SEL(", "REP(")))
                ctx.decide(good, decidable, f"{P}.SIDE-COH", g.site,
                           f"mode {mode}: box i of a file group takes plotfile 2's file and offset of the same box "
                           f"(both selected by {sel})",
                           f"mode {mode}: side 2's per-box offsets are {o2} but its per-box files are {f2}: every box "
                           f"must take the file *and* the offset of its own box in plotfile 2 — when the boxes of one "
                           f"file of plotfile 1 are spread over several files of plotfile 2 another box's data is merged",
                           key=f"{mode}:side2-files", where=loc(g, pl.loop), objects={"files": f2, "offsets": o2})
            # P6: access kind <-> order
            for w in s.workers:
                acc = access.get(w.qualname, {})
                if acc.get("1") == "scan":
                    ctx.check(sorted_form, f"{P}.P6", c.site,
                              f"mode {mode}: file 1 is scanned sequentially, so results come back in on-disk order and "
                              f"the scatter map must be offset-sorted",
                              f"mode {mode}: {w.qualname} scans the first plotfile's binary file sequentially (results "
                              f"in on-disk order) but map_bfile_offsets scatters them in box order ({map_form}); a first "
                              f"input whose boxes are not stored in ascending box order gets its new offsets attached to "
                              f"the wrong boxes", key=f"{mode}:scan-vs-map", where=loc(c, s.call),
                              objects={"map_entry": map_form})
                    if acc.get("2") == "seek" and forms:
                        o2 = forms.get("offst_r2")
                        ok = o2 is not None and "ARGSORT" in o2
                        ctx.check(ok, f"{P}.P6", g.site,
                                  f"mode {mode}: side 2 is addressed per box in the order side 1 is scanned",
                                  f"mode {mode}: side 1 is scanned in on-disk order while side 2's per-box files/offsets "
                                  f"are listed in box order ({o2}): box i of file 1 on disk is merged with a different "
                                  f"box of plotfile 2 when file 1 is not stored in box order", key=f"{mode}:side2-order",
                                  where=loc(g, g.node))
                if acc.get("1") == "scan" and acc.get("2") == "scan":
                    ctx.assume(f"mode {mode} (both files scanned): relies on the validation's same-files / same-order "
                               f"decision")
    # scatter in combine()
    sc = [n for n in walk_no_nested(c.node) if isinstance(n, ast.For) and "map_bfile_offsets" in norm(n.iter)]
    ok = len(sc) == 1 and norm(sc[0].iter) == "zip(pck1.map_bfile_offsets(lv), new_offsets)" and \
        [norm(b) for b in sc[0].body] == [f"mapped_offsets[{norm(sc[0].target.elts[0])}] = {norm(sc[0].target.elts[1])}"]
    ctx.check(ok, f"{P}.P5", c.site, "new offsets are scattered through the first plotfile's per-file box map",
              f"scatter loop is {[norm(n.iter) for n in sc]}")
    # names / indices / header agreement ------------------------------------------------------
    env = {norm(n.targets[0]): norm(n.value) for n in walk_no_nested(c.node) if isinstance(n, ast.Assign)}
    # what the generators and the level-header rewrite receive as vidxs1 / vidxs2, whatever the locals are called
    denv = rules.local_env(c.node)
    got = set()
    for cl in walk_no_nested(c.node):
        if isinstance(cl, ast.Call):
            kw = {k.arg: k.value for k in cl.keywords if k.arg}
            if "vidxs1" in kw or "vidxs2" in kw:
                got.add((rules.deep(kw.get("vidxs1"), denv, c.params), rules.deep(kw.get("vidxs2"), denv, c.params)))
    names = {k: rules.deep(ast.parse(k, mode="eval").body, denv, c.params) for k in ("vars1", "vars2", "cbvars", "nfields")}
    want = {("[pck1.fields[v] for v in vars1]", "[pck2.fields[v] for v in vars2]"),
            ("[pck1.fields[v] for v in clean_args['vars1']]", "[pck2.fields[v] for v in clean_args['vars2']]")}
    ok = bool(got) and got <= want and names["cbvars"] in ("clean_args['cbvars']", "cbvars") and \
        names["nfields"] in ("len(clean_args['cbvars'])", "len(cbvars)") and \
        (env.get("(vars1, vars2)") == "(clean_args['vars1'], clean_args['vars2'])" or
         (names["vars1"], names["vars2"]) == ("clean_args['vars1']", "clean_args['vars2']"))
    ctx.check(ok, f"{P}.ORDER", c.site, "indices of side k are looked up in plotfile k's own field table, in the order "
                                        "of the selected names", f"index construction: the generators receive {sorted(got)}; "
                                        f"names are {names}", key="vidxs")
    v = prog.func(CB, "validate_combine_input", P)
    venv = {norm(n.targets[0]): norm(n.value) for n in walk_no_nested(v.node) if isinstance(n, ast.Assign)}
    ok = venv.get("output['cbvars']") == "vars1 + vars2" and venv.get("output['vars1']") == "vars1" and \
        venv.get("output['vars2']") == "vars2"
    ctx.check(ok, f"{P}.ORDER", v.site, "combined names = names of 1 followed by names of 2",
              f"combined names are {venv.get(chr(34))}", key="cbvars")
    # "not already taken" filter precedes the concatenation
    filt = [n for n in walk_no_nested(v.node) if isinstance(n, ast.Assign) and norm(n.targets[0]) == "vars2"
            and isinstance(n.value, ast.ListComp)]
    cat = [n for n in walk_no_nested(v.node) if isinstance(n, ast.Assign) and norm(n.targets[0]) == "output['cbvars']"]
    ok = len(filt) == 1 and rules.norm_comp(filt[0].value) == "[v0 for v0 in vars2 if v0 not in vars1]" and cat and \
        filt[0].lineno < cat[0].lineno
    ctx.check(ok, f"{P}.DEDUP", v.site, "fields of 2 already taken from 1 are dropped before names are concatenated",
              "vars2 is not filtered by `not in vars1` before the combined names are built")
    # SIBLING: the two selections are normalised the same way
    def norm_form(k):
        for n in walk_no_nested(v.node):
            if isinstance(n, ast.If) and norm(n.test) == f"kwargs['{k}'] is None":
                its = [norm(x.iter) for b in n.orelse for x in ast.walk(b) if isinstance(x, ast.For)]
                pre = [norm(x.value) for b in n.orelse for x in ast.walk(b) if isinstance(x, ast.Assign)
                       and f"kwargs['{k}']" in norm(x.value)]
                return (pre[0].replace(k, "K") if pre else None, [i.replace(k, "K") for i in its])
        return None
    f1, f2 = norm_form("vars1"), norm_form("vars2")
    def iterates(f):
        if f is None:
            return None
        pre, its = f
        if pre and ".split()" in pre:
            return "str.split()"
        if any("kwargs['K']" in i for i in its):
            return "iterated as given"
        return "?"
    i1, i2 = iterates(f1), iterates(f2)
    ctx.check(i1 == i2 and i1 is not None, f"{P}.SIBLING", v.site,
              f"both selections are normalised the same way ({i1})",
              f"vars1 is normalised by {i1} but vars2 is {i2}: a space-separated string works only for side 1 (side 2 "
              f"iterates its characters -> no field matches), a list works only for side 2 (side 1 calls .split() on "
              f"it) — no calling convention selects fields on both sides", key="vars-normalisation", where=loc(v, v.node))
    # dominance: validation (structure comparison) before any sink
    calls = [(n.lineno, norm(n.func)) for n in walk_no_nested(c.node) if isinstance(n, ast.Call)]
    first_val = min((l for l, f in calls if f == "validate_combine_input"), default=None)
    sink_calls = [l for l, f in calls if f in ("pck1.make_dir_tree", "pck1.write_global_header_new_fields",
                                               "rewrite_level_header", "pool.map", "pool.imap")]
    eff = rules.effective(c.node.body)
    ok = first_val is not None and sink_calls and first_val < min(sink_calls) and eff and isinstance(eff[0], ast.Assign) \
        and "validate_combine_input" in norm(eff[0].value)
    ctx.check(ok, f"{P}.DOMINANCE", c.site, "validate_combine_input is the first statement: it dominates every write",
              "a write (directory tree, header, pool) can happen before validate_combine_input has accepted the pair",
              where=loc(c, c.node))
    tests = [n for n in v.node.body if isinstance(n, ast.If)]
    ttx = [norm(t.test) for t in tests if rules.always_raises(t.body)]
    ok = "args[0] != args[1]" in ttx and "args[0].limit_level != args[1].limit_level" in ttx and \
        any("ndims < 3" in t for t in ttx)
    first_assign = next((n.lineno for n in v.node.body if isinstance(n, ast.Assign) and "mode" in norm(n)), 10 ** 9)
    ctx.check(ok and all(t.lineno < first_assign for t in tests if norm(t.test) in ("args[0] != args[1]",)),
              f"{P}.DOMINANCE", v.site, "different structure / level count / 2D inputs raise before anything else",
              f"refusing tests are {ttx}", key="refusals")
    # __eq__
    eq = prog.func(PC, "PlotfileCooker.__eq__", P)
    cmp_pairs = []
    for n in walk_no_nested(eq.node):
        if isinstance(n, ast.If) and [norm(b) for b in n.body] == ["return False"]:
            t = n.test
            if isinstance(t, ast.Compare) and isinstance(t.ops[0], ast.NotEq):
                cmp_pairs.append((norm(t.left), norm(t.comparators[0])))
            elif isinstance(t, ast.UnaryOp) and isinstance(t.operand, ast.Call) and \
                    norm(t.operand.func) in ("np.allclose", "np.array_equal"):
                cmp_pairs.append((norm(t.operand.args[0]), norm(t.operand.args[1])))
    need = [("self.limit_level", "other.limit_level"), ("self.boxes[lv]", "other.boxes[lv]"),
            ("self.cells[lv]['indexes']", "other.cells[lv]['indexes']")]
    missing = [p for p in need if p not in cmp_pairs]
    last = eq.node.body[-1]
    # decidable when the predicate has the recognised form: every return hands back a constant (`return False`
    # under a failed comparison, `return True` at the end); `return all(...)` and the like are not evaluated here
    rets = [r for r in walk_no_nested(eq.node) if isinstance(r, ast.Return)]
    recognised = bool(rets) and all(isinstance(r.value, ast.Constant) for r in rets)
    ctx.decide(not missing and isinstance(last, ast.Return) and norm(last.value) == "True", recognised,
               f"{P}.STRUCTURE-EQ", eq.site,
               "structure equality compares level count, box bounds and index ranges of every level (self vs other, "
               "same level)", f"__eq__ does not compare {missing} (compares {cmp_pairs})", where=loc(eq, eq.node),
               why_unknown="__eq__ is not a chain of `if <comparison>: return False` ending in `return True`")
    formulas.rule_level_range(ctx, f"{P}.LEVEL-RANGE", eq)
    formulas.rule_level_range(ctx, f"{P}.LEVEL-RANGE", c, obj="pck1")
    formulas.rule_level_range(ctx, f"{P}.LEVEL-RANGE", v, obj="args[0]")
    # headers -----------------------------------------------------------------------------------
    gh = prog.func(PC, "PlotfileCooker.write_global_header_new_fields", P)
    items, _ = grammar.writer_grammar(prog, gh, nl_attrs={"self.version", "self.sys_coord"})
    L = "self.limit_level"
    o = dict(version="self.version", ncount={"nfields", "len(field_names)"}, names_count="len(field_names)",
             namevar="f", names_over="field_names", ndims="self.ndims", time="self.time", levels=L, lv="lv",
             geo_low=joined("self.geo_low"), geo_high=joined("self.geo_high"),
             ref_ratio=joined({f"self.factors[:{L} + 1]", f"self.factors[:{L}]", "BLANK"}, elem_exact=False),
             domain=lambda line: len(line.tokens) == 1 and headers.join_of(line.tokens[0]) is not None and
             headers.join_of(line.tokens[0])[3] == f"range:1 + {L}",
             steps=joined(f"self.step_numbers[:{L} + 1]", elem_exact=False),
             dx=joined("self.dx[lv]"), coord="self.sys_coord", level_step="self.step_numbers[lv]",
             boxes_count="len(self.boxes[lv])", boxvar="box", box_lo_hi=("box[d][0]", "box[d][1]"),
             boxes_iter="len(self.boxes[lv])", ndims_iter="self.ndims")
    headers.match_writer(ctx, f"{P}.H-WRITE", gh, items, headers.global_header_oracle(o))
    headers.domain_tuple_rule(ctx, f"{P}.H-WRITE", gh)
    call = [n for n in walk_no_nested(c.node) if isinstance(n, ast.Call) and norm(n.func) == "pck1.write_global_header_new_fields"]
    ctx.check(len(call) == 1 and [norm(a) for a in call[0].args] == ["pltout", "cbvars"], f"{P}.H-WRITE", c.site,
              "the global header is written with the combined names into the output", "header call changed", key="call")
    rw = prog.func(CB, "rewrite_level_header", P)
    headers.rewriter_rules(ctx, P, rw, "nfields", "mapped_offsets", minmax_rules, src_handles=("ch_r1", "ch_r2"))
    rc = [n for n in walk_no_nested(c.node) if isinstance(n, ast.Call) and norm(n.func) == "rewrite_level_header"]
    rargs = [rules.deep(a, denv, c.params) for a in rc[0].args] if len(rc) == 1 else []
    ok = len(rc) == 1 and len(rargs) == 8 and rargs[:2] == ["pck1", "pck2"] and rargs[3] == "lv" and \
        rargs[4] in ("len(clean_args['cbvars'])", "nfields", "len(cbvars)") and rargs[5] == "mapped_offsets" and \
        (rargs[6], rargs[7]) in want | {("vidxs1", "vidxs2")} and \
        rw.params == ["pck1", "pck2", "pltout", "lv", "nfields", "mapped_offsets", "field_indices1", "field_indices2"]
    ctx.check(ok, f"{P}.SIDE-COH", c.site, "level-header rewrite receives (vidxs1, vidxs2) as (field_indices1, "
                                           "field_indices2)", "rewrite_level_header call / signature changed", key="rw-call")
    # CLI
    cli = prog.func("amr_kitchen/combine/cli.py", "main", P)
    opts = wiring.cli_options(cli)
    call_, b = wiring.call_bindings(prog, cli, lambda t: t == "combine")
    for param, dest in (("pltout", "output"), ("vars1", "vars1"), ("vars2", "vars2")):
        wiring.rule_wired(ctx, f"{P}.WIRING", cli, b, param, dest, opts)
    ok = b.get("pck1") == "PlotfileCooker(args.plotfile1)" and b.get("pck2") == "PlotfileCooker(args.plotfile2)"
    ctx.check(ok, f"{P}.WIRING", cli.site, "plotfile1/plotfile2 are opened as the first/second input",
              f"inputs bound as {b.get('pck1')}, {b.get('pck2')}", key="inputs")
    C13.sink_rules(ctx, P, modules={CB})
    ctx.assume("the two inputs have the same boxes (checked by the dominance rule), so extents of paired FABs agree")
    return ("Static: abstract interpretation of the three combine workers (whole-FAB reads, side-coherent selectors "
            "and offsets, [v1 ++ v2] component order, header count, offset capture); mode enumeration agreement "
            "between validation and dispatch; task keys per worker x generator; access kind (scan / seek) of each side "
            "against the order of the scatter map and of the other side's per-box lists; names/indices/min-max order "
            "agreement; dominance of the structure validation; writer grammars. Decides structural clauses of DESIGN "
            "§4.C06.", ["vk/fabio.py", "vk/pools.py", "vk/grammar.py"])


def minmax_rules(ctx, rule, fi, rest, desc):
    """blank copied (src 1), `ncells,nfields`, ncells rows = concat(row1[idx1], row2[idx2]); twice; side 2 advanced
    in lock-step"""
    site = fi.site
    seq = []
    for it in rest:
        if isinstance(it, grammar.Line):
            if it.copy_of:
                seq.append("copy:" + it.copy_of)
            elif it.tokens is None:
                seq.append("read:" + norm(it.node.func.value))
            else:
                seq.append("write:" + it.show())
        elif isinstance(it, grammar.Repeat):
            seq.append(f"rep:{it.count}:" + ",".join(
                ("read:" + norm(b.node.func.value)) if (isinstance(b, grammar.Line) and b.tokens is None)
                else "write:" + b.show() for b in it.body))
    row = "write:W[<join ',' {elem} over np.concatenate([np.array(line1)[field_indices1], np.array(line2)[field_indices2]])>,]"
    block = ["copy:ch_r1", "read:ch_r1", "read:ch_r2", "read:ch_r2", "write:W[{ncells},{nfields}]",
             "rep:ncells:read:ch_r1,read:ch_r2," + row]
    ok = seq == block + block
    ctx.check(ok, f"{rule}.H-COPY", site,
              "min/max tables: both sources advanced in lock-step; each row = side-1 values at field_indices1 followed "
              "by side-2 values at field_indices2 (strings copied)",
              f"min/max part is {seq}; expected {block} twice", key="minmax", where=loc(fi, fi.node))
    srcs = [norm(n.value) for n in walk_no_nested(fi.node) if isinstance(n, ast.Assign)
            and norm(n.targets[0]) in ("line1", "line2")]
    ok = srcs.count("ch_r1.readline().split(',')[:-1]") == 2 and srcs.count("ch_r2.readline().split(',')[:-1]") == 2
    ctx.check(ok, f"{rule}.SIDE-COH", site, "line1 is read from source 1 and line2 from source 2",
              f"row sources are {srcs}", key="minmax-sides")
