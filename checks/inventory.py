"""Accessor inventory (thorough tier): every function that opens a binary file belongs to a role table of an
owning check; a new accessor cannot dodge the byte-accounting analysis."""
from vk import fabio
from vk.model import AnalysisError

OWNED = {
    "amr_kitchen/chef/chef.py": {"chefs_knife_byreaction_field": "C11", "chefs_knife_byspecies_field": "C11",
                                 "chefs_knife_single_field": "C11", "chefs_knife_user_pfile": "C11",
                                 "chefs_knife_user_sarray": "C11"},
    "amr_kitchen/chk2plt/checkpoint_reader.py": {"CheckpointReader.read_box": "not on any tool's path (library reader); "
                                                                              "generic obligations only"},
    "amr_kitchen/chk2plt/chk2plt.py": {"write_plt_bin_from_chk": "C17"},
    "amr_kitchen/colander/colander.py": {"parallel_strain_2d": "C05", "parallel_strain_3d": "C05"},
    "amr_kitchen/combine/combine.py": {"parallel_combine_by_binfile": "C06", "parallel_combine_by_binfile_offsets": "C06",
                                       "parallel_combine_by_boxes_offsets": "C06"},
    "amr_kitchen/mandoline/blades.py": {"plate_box": "C08", "slice_box": "C07"},
    "amr_kitchen/mandoline/mandoline.py": {"Mandoline.write_cell_data_at_level": "C16"},
    "amr_kitchen/marinate.py": {"main": "C18 (pickle writer, no FAB access)"},
    "amr_kitchen/pestle/pestle.py": {"increment_sum": "C09", "increment_sum_masked": "C09"},
    "amr_kitchen/plotfile_cooker.py": {"mp_read_bfile_index_field": "C15", "mp_read_bfile_single_field": "C15",
                                       "mp_read_bfile_slice_field": "C15", "mp_read_box_index_field": "C01",
                                       "mp_read_box_single_field": "C01", "mp_read_box_slice_field": "C01"},
    "amr_kitchen/taste/taste.py": {"mp_fun_headers": "C04", "mp_fun_shape": "C04",
                                   "mp_read_binary_data": "C03 (reached only by the known-defective taste_binary_data)"},
    "amr_kitchen/whip/cli.py": {"readfieldfrombinfile": "C10"},
}


def sweep(ctx, prefix):
    prog = ctx.prog
    n = 0
    for fi in prog.all_functions():
        if not fabio.is_accessor(fi):
            continue
        n += 1
        owner = OWNED.get(fi.module.relpath, {}).get(fi.qualname)
        if owner is None:
            raise AnalysisError(f"{prefix}.INVENTORY", fi.site,
                                "a function that opens a binary file is in no role table: its byte accounting is not "
                                "analysed by any check (add it to the owning check's role table)")
        ctx.ok(f"{prefix}.INVENTORY", fi.site, f"binary-file accessor owned by {owner}")
    # generic obligations for the library reader that no tool uses
    rb = prog.func("amr_kitchen/chk2plt/checkpoint_reader.py", "CheckpointReader.read_box", prefix)
    res = fabio.analyse(prog, rb, fabio.Roles(), prefix)
    fabio.report_generic(ctx, res, prefix, skip=("G2",))
    ctx.floor("binary-file accessors", n, 28)
