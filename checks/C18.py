"""C18 — header-only tools report what the full reader holds."""
import ast

from vk import rules, formulas, grammar, wiring
from vk.model import norm, loc, AnalysisError, walk_no_nested, parents
from checks import C02, C13

P = "C18"
ME = "amr_kitchen/menu/menu.py"
PC = "amr_kitchen/plotfile_cooker.py"


def prefix_kinds(items, upto):
    """sequence of (kind, count) for the leading lines of a reader grammar"""
    out = []

    def flat(its):
        r = []
        for i in its:
            if isinstance(i, grammar.Cond):
                r += flat(i.body) + flat(i.orelse)
            else:
                r.append(i)
        return r
    for i in flat(items):
        if isinstance(i, grammar.Line):
            k = C02.parse_kind(i.parse)
            if k == "other" and "float(LINE)" in i.parse:
                k = "float"
            out.append(("line", k, i.target))
        elif isinstance(i, grammar.Repeat):
            out.append(("rep", i.count, [("line", C02.parse_kind(b.parse), b.target) for b in i.body if isinstance(b, grammar.Line)]))
        if len(out) >= upto:
            break
    return out


def run(ctx):
    prog = ctx.prog
    # minuterie: version, nvars, nvars names, ndims, then time
    mi = prog.func("amr_kitchen/minuterie.py", "main", P)
    g, _ = grammar.reader_grammar(prog, mi)
    pk = prefix_kinds(g, 5)
    ok = len(pk) == 5 and pk[0][:2] == ("line", "raw") and pk[1][:2] == ("line", "int") and pk[1][2] == "nfields" and \
        pk[2][0] == "rep" and pk[2][1] == "nfields" and len(pk[2][2]) == 1 and pk[3][:2] == ("line", "raw") and \
        pk[4][:2] == ("line", "float")
    ctx.check(ok, f"{P}.H-READ", mi.site,
              "minuterie consumes version, nvars, nvars names, ndims and then parses the time as float — the reader's "
              "own prefix", f"minuterie's header walk is {pk}: the line parsed as time is not the Header's time line "
                            f"(version, nvars, names x nvars, ndims, time)", where=loc(mi, mi.node))
    menv = rules.local_env(mi.node)
    tm = [norm(n.targets[0]) for n in walk_no_nested(mi.node) if isinstance(n, ast.Assign) and
          isinstance(n.targets[0], ast.Name) and norm(n.value).startswith("float(") and ".readline()" in norm(n.value)]
    pr = [norm(c) for c in walk_no_nested(mi.node) if isinstance(c, ast.Call) and norm(c.func) == "print" and
          ("float(" in norm(c) or any(isinstance(x, ast.Name) and x.id in tm for a in c.args for x in ast.walk(a)))]
    ctx.check(len(pr) == 1, f"{P}.H-READ", mi.site, "the parsed time is what is printed", f"prints: {pr}", key="print")
    op = [rules.deep(c.args[0], menv, mi.params) for c in walk_no_nested(mi.node)
          if isinstance(c, ast.Call) and norm(c.func) == "open"]
    ctx.check(op == ["os.path.join(sys.argv[1], 'Header')"], f"{P}.H-READ", mi.site, "reads <plotfile>/Header",
              f"opens {op}", key="open")
    # Menu.__init__ private walk
    mn = prog.func(ME, "Menu.__init__", P)
    g, _ = grammar.reader_grammar(prog, mn)
    pk = prefix_kinds(g, 3)
    ok = len(pk) == 3 and pk[0][:2] == ("line", "raw") and pk[1] == ("line", "int", "self.nvars") and pk[2][0] == "rep" \
        and pk[2][1] == "self.nvars"
    lp = [n for n in ast.walk(mn.node) if isinstance(n, ast.For) and norm(n.iter) == "range(self.nvars)"]
    body = [norm(b) for b in lp[0].body] if lp else []
    ok = ok and body == ["self.fields[hfile.readline().replace('\\n', '')] = i"]
    ctx.check(ok, f"{P}.H-READ", mn.site, "menu's private header walk reads version, nvars and the nvars names in order "
                                          "into the field table", f"menu's header walk is {pk} / {body}")
    sup = [c for c in ast.walk(mn.node) if isinstance(c, ast.Call) and norm(c.func) == "super().__init__"]
    ok = len(sup) == 1 and any(k.arg == "maxmins" and norm(k.value) == "True" for k in sup[0].keywords)
    guard = [n for n in mn.node.body if isinstance(n, ast.If) and norm(n.test) == "self.min_max or self.finest_lv"]
    ctx.check(ok and len(guard) == 1, f"{P}.WIRING", mn.site, "min/max modes open the full reader with maxmins=True",
              "the min/max modes do not open the reader with maxmins=True", key="maxmins")
    # the tables menu reduces are the reader's per-box tables: anchor their parser (generic lints sweep it)
    prog.func(PC, "PlotfileCooker.read_cell_headers", P)
    # find_min_max
    fm = prog.func(ME, "Menu.find_min_max", P)
    # reducer <-> table pairing, decided on the reducer calls themselves (wherever their results are named)
    red = []
    for c in walk_no_nested(fm.node):
        if isinstance(c, ast.Call) and norm(c.func) in ("np.min", "np.max", "np.nanmin", "np.nanmax", "np.amin", "np.amax",
                                                          "min", "max") and c.args:
            kind = "min" if "min" in norm(c.func) else "max"
            tables = {k.value for a in c.args for k in ast.walk(a) if isinstance(k, ast.Constant) and k.value in ("mins", "maxs")}
            finest = any(norm(x) == "self.cells[self.limit_level]" for a in c.args for x in ast.walk(a))
            alllv = any(isinstance(x, (ast.ListComp, ast.GeneratorExp)) and
                        norm(x.generators[0].iter) in ("range(self.limit_level + 1)", "range(1 + self.limit_level)")
                        for a in c.args for x in ast.walk(a))
            if tables:
                red.append((c, kind, tables, finest, alllv, norm(c.func)))
    # a reducer nested in the argument of another one (the per-level minimum inside the all-levels minimum) is part
    # of the outer reduction
    inner = {id(x) for r in red for a in r[0].args for x in ast.walk(a)}
    red = [r for r in red if id(r[0]) not in inner]
    for kind, table in (("min", "mins"), ("max", "maxs")):
        mine = [r for r in red if r[1] == kind]
        wrong = [r for r in mine if r[2] != {table}]
        builtin = [r for r in mine if r[5] in ("min", "max")]
        scopes = {("finest" if r[3] else "") + ("all" if r[4] else "") for r in mine}
        ok = len(mine) == 2 and not wrong and not builtin and scopes == {"finest", "all"}
        ctx.check(ok, f"{P}.REDUCER-PAIRING", fm.site,
                  f"{kind}imum = np.{kind} over the '{table}' table: of the finest selected level under finest_lv, of all "
                  f"levels 0..limit otherwise",
                  f"{kind}imum reducers are {[norm(r[0])[:90] for r in mine]}: " +
                  ("a reducer reads the other table; " if wrong else "") +
                  ("the builtin compares with < / > and keeps or drops a NaN depending on where it sits, np."
                   f"{kind} propagates it; " if builtin else "") +
                  (f"level scopes are {sorted(scopes)}, expected one finest-level and one all-levels reducer" if scopes != {"finest", "all"} or len(mine) != 2 else ""),
                  key=kind, where=loc(fm, mine[0][0]) if mine else loc(fm, fm.node), semantic=True)
    # three significant digits on both values
    specs = [norm(c.func.value) for c in walk_no_nested(fm.node) if isinstance(c, ast.Call) and isinstance(c.func, ast.Attribute)
             and c.func.attr == "format" and isinstance(c.func.value, ast.Constant)]
    specs += ["{:" + norm(v.format_spec.values[0])[1:-1] + "}" for v in walk_no_nested(fm.node)
              if isinstance(v, ast.FormattedValue) and v.format_spec is not None and v.format_spec.values
              and isinstance(v.format_spec.values[0], ast.Constant)]
    specs = [x.strip("'\"") for x in specs]
    ctx.check(len(specs) == 2 and set(specs) == {"{:.3}"}, f"{P}.REDUCER-PAIRING", fm.site,
              "both extrema are formatted to three significant digits ('{:.3}')",
              f"format specifications applied to the extrema are {specs}; the table shows three significant digits "
              f"('{{:.3}}') for the minimum and the maximum", key="digits", semantic=True)
    # which reducer each element of the entry comes from (name flow through the assignments of the loop body)
    def origin(name, seen=()):
        out = set()
        for n in walk_no_nested(fm.node):
            if isinstance(n, ast.Assign) and norm(n.targets[0]) == name:
                for c, kind, *_ in red:
                    if any(x is c for x in ast.walk(n.value)):
                        out.add(kind)
                for x in ast.walk(n.value):
                    if isinstance(x, ast.Name) and x.id != name and x.id not in seen:
                        out |= origin(x.id, seen + (name,))
        return out
    fl = [n for n in fm.node.body if isinstance(n, ast.For) and norm(n.iter) == "self.fields"]
    ents = [n for n in walk_no_nested(fm.node) if isinstance(n, ast.Assign) and norm(n.targets[0]) == "min_and_max[field]"]
    br = [n for n in walk_no_nested(fm.node) if isinstance(n, ast.If) and norm(n.test) == "self.finest_lv"]
    shape_ok = len(fl) == 1 and len(ents) == 1 and isinstance(ents[0].value, ast.Tuple) and len(ents[0].value.elts) == 3 \
        and all(isinstance(x, ast.Name) for x in ents[0].value.elts) and len(br) == 1
    flow = [sorted(origin(x.id)) for x in ents[0].value.elts[:2]] if shape_ok else None
    ctx.check(shape_ok and flow == [["min"], ["max"]] and norm(ents[0].value.elts[2]) == "units", f"{P}.EVERY-FIELD",
              fm.site, "every header field gets exactly one (min, max, units) entry, the finest-level mode chosen by "
                       "`finest_lv`",
              f"entries: {[norm(x) for x in ents]}; their first two elements derive from {flow} reducers; mode tests: "
              f"{[norm(n.test) for n in walk_no_nested(fm.node) if isinstance(n, ast.If) and 'self.' in norm(n.test)][:3]}",
              semantic=len(ents) == 1)
    # PARITY-PAD
    sm = prog.func(ME, "Menu.show_min_max", P)
    d = sm.params[1]
    pad = [n for n in sm.node.body if isinstance(n, ast.If) and any(norm(b) == f"{d}[''] = ('', '', '')" for b in n.body)]
    odd_forms = {f"len({d}) % 2", f"len({d}) % 2 == 1", f"len({d}) % 2 != 0", f"len({d}) & 1", f"len({d}) % 2 > 0"}
    ok = len(pad) == 1 and norm(pad[0].test) in odd_forms
    ctx.check(ok, f"{P}.PARITY-PAD", sm.site, "the two-column table is padded exactly when the number of entries is odd",
              f"the padding guard is `{norm(pad[0].test) if pad else None}`, which is not a test of oddness: with an odd "
              f"number of fields middle = n//2 rows are printed and the last field never appears",
              where=loc(sm, pad[0]) if pad else None)
    e2 = {norm(n.targets[0]): norm(n.value) for n in walk_no_nested(sm.node) if isinstance(n, ast.Assign)}
    rows = [n for n in sm.node.body if isinstance(n, ast.For) and norm(n.iter) == "range(middle)"]
    mid = (e2.get("middle") or "").replace(f"len(list({d}))", f"len({d})")
    ok = mid in (f"int(len({d}) / 2)", f"len({d}) // 2") and len(rows) == 1 and \
        e2.get("(field1, field2)") == f"(list({d})[i], list({d})[i + middle])"
    ctx.check(ok, f"{P}.PARITY-PAD", sm.site, "row i shows entries i and i + n/2: every entry exactly once",
              f"row layout is middle={e2.get('middle')}, fields={e2.get('(field1, field2)')}", key="rows")
    pr = [norm(c) for c in ast.walk(rows[0]) if isinstance(c, ast.Call) and norm(c.func) == "print"] if rows else []
    ok = len(pr) == 1 and all(x in pr[0] for x in ("{field1}", "{mini1}", "{maxi1}", "{units1}", "{field2}", "{mini2}", "{maxi2}", "{units2}"))
    ctx.check(ok, f"{P}.PARITY-PAD", sm.site, "a row prints name, min, max and units of both entries", "row print changed", key="print")
    # LISTING: the plain listings print every name exactly once — the padded names are cut into consecutive chunks
    # x[i:i+k] for i in range(0, len(x), k) (a partition of the list), each chunk one printed line
    for q in ("Menu.show_species", "Menu.show_variables"):
        sf = prog.func(ME, q, P)
        env = rules.local_env(sf.node)
        part = None
        for n in walk_no_nested(sf.node):
            if isinstance(n, ast.ListComp) and len(n.generators) == 1 and isinstance(n.generators[0].iter, ast.Call) and \
                    norm(n.generators[0].iter.func) == "range":
                g = n.generators[0]
                a = [norm(x) for x in g.iter.args[:2]] + [rules.deep(x, env, sf.params) for x in g.iter.args[2:]]
                sl = [x for x in ast.walk(n.elt) if isinstance(x, ast.Subscript) and isinstance(x.slice, ast.Slice)]
                if len(a) == 3 and len(sl) == 1 and isinstance(g.target, ast.Name):
                    i, x = g.target.id, norm(sl[0].value)
                    lo = norm(sl[0].slice.lower) if sl[0].slice.lower is not None else None
                    hi = rules.deep(sl[0].slice.upper, env, sf.params) if sl[0].slice.upper is not None else None
                    part = a[0] == "0" and a[1] == f"len({x})" and lo == i and hi == f"{i} + {a[2]}" and sl[0].slice.step is None
        ctx.decide(bool(part), part is not None, f"{P}.LISTING", sf.site,
                   "names are printed in consecutive chunks x[i:i+k], i = 0, k, 2k, …: every name exactly once",
                   "the chunks of the listing are not x[i:i+k] for i in range(0, len(x), k): names are dropped or repeated",
                   key="chunks", why_unknown="listing not built by range-stepped chunks")
    # menu(): modes
    mu = prog.func(ME, "Menu.menu", P)
    uenv = rules.local_env(mu.node)
    def src(a):     # a call argument, or the call a single-assignment local names
        v = uenv.get(a.id) if isinstance(a, ast.Name) else None
        return norm(v) if isinstance(v, ast.AST) else norm(a)
    calls = [f"{norm(c.func)}({', '.join(src(a) for a in c.args)})" for c in walk_no_nested(mu.node)
             if isinstance(c, ast.Call) and norm(c.func).startswith("self.show")]
    ok = "self.show_min_max(self.find_min_max())" in calls and "self.show_variables(self.variables_finder())" in calls \
        and "self.show_species(self.species_finder())" in calls
    ctx.check(ok, f"{P}.WIRING", mu.site, "min/max data flows into the table; plain mode lists variables and species",
              f"menu() calls {calls}")
    # every field classified exactly once
    vf = prog.func(ME, "Menu.variables_finder", P)
    outer = [n for n in vf.node.body if isinstance(n, ast.For) and norm(n.iter) == "list(self.fields)"]
    ok = len(outer) == 1 and any(isinstance(b, ast.For) and b.orelse for b in outer[0].body)
    ctx.check(ok, f"{P}.EVERY-FIELD", vf.site, "every header field is classified, or listed under its own name (for-else)",
              "a field that matches no pattern is dropped", key="classify")
    sf = prog.func(ME, "Menu.species_finder", P)
    lp = [n for n in sf.node.body if isinstance(n, ast.For) and norm(n.iter) == "self.fields"]
    ok = len(lp) == 1 and [norm(b) for b in lp[0].body] == ["if self.regexp_species.search(field):\n    Y_species.append(field)"]
    ctx.check(ok, f"{P}.EVERY-FIELD", sf.site, "every Y(...) field of the header is listed once as a species",
              "species listing changed", key="species")
    # the species name is the field name without `Y(` and its *one* closing parenthesis (species such as CH2(S) end
    # in a parenthesis of their own): character-set stripping removes every trailing `)`
    strips = [c for c in walk_no_nested(sf.node) if isinstance(c, ast.Call) and isinstance(c.func, ast.Attribute)
              and c.func.attr in ("strip", "rstrip", "lstrip") and c.args and isinstance(c.args[0], ast.Constant)
              and isinstance(c.args[0].value, str) and set(c.args[0].value) & set("()Y")]
    ctx.check(not strips, f"{P}.EVERY-FIELD", sf.site,
              "the `Y(` prefix and the closing parenthesis are removed as anchored patterns (exactly one of each)",
              f"`{norm(strips[0]) if strips else ''}` strips a *set of characters*, i.e. every trailing/leading `(`/`)`: "
              f"`Y(CH2(S))` is listed as `CH2(S`, a name the header does not have", key="species-name",
              where=loc(sf, strips[0]) if strips else None, semantic=True)
    # marinate: picklability of the reader + arguments
    ma = prog.func("amr_kitchen/marinate.py", "main", P)
    call, b = wiring.call_bindings(prog, ma, lambda t: t == "PlotfileCooker")
    ok = b.get("plotfile_path") == "sys.argv[1]" and b.get("maxmins") == "True" and b.get("ghost") == "True"
    dumps = [norm(c) for c in walk_no_nested(ma.node) if isinstance(c, ast.Call) and norm(c.func) == "pickle.dump"]
    ctx.check(ok and dumps == ["pickle.dump(pck, pfile)"], f"{P}.MARINATE", ma.site,
              "the full reader (maxmins, ghost) of the given plotfile is pickled", f"reader built with {b}; dumps {dumps}")
    cls = prog.cls(PC, "PlotfileCooker")
    bad = []
    for m in cls.methods.values():
        for n in walk_no_nested(m.node):
            if isinstance(n, ast.Assign):
                for t in n.targets:
                    if isinstance(t, ast.Attribute) and norm(t.value) == "self":
                        v = n.value
                        ext = prog.external_name(m.module, v.func) if isinstance(v, ast.Call) and isinstance(v.func, (ast.Name, ast.Attribute)) else None
                        if isinstance(v, (ast.Lambda, ast.GeneratorExp)) or ext in ("open", "multiprocessing.Pool") or \
                                (isinstance(v, ast.Call) and isinstance(v.func, ast.Name) and v.func.id == "open") or \
                                (isinstance(v, ast.Call) and isinstance(v.func, ast.Attribute) and v.func.attr in ("imap", "imap_unordered")):
                            bad.append(f"{m.qualname}: self.{t.attr} = {norm(v)[:40]}")
    ctx.check(not bad, f"{P}.PICKLABLE", PC + "::PlotfileCooker",
              "no attribute of the reader holds a file object, pool, generator or lambda (it pickles)",
              f"unpicklable resources stored on the reader: {bad}")
    # CLI
    cli = prog.func("amr_kitchen/menu/cli.py", "main", P)
    opts = wiring.cli_options(cli)
    call, b = wiring.call_bindings(prog, cli, lambda t: t == "Menu")
    for param, dest, pol in (("plt_file", "plotfile", None), ("has_var", "has_var", None), ("every", "every", "store_true"),
                             ("description", "description", "store_true"), ("min_max", "min_max", "store_true"),
                             ("finest_lv", "finest_lv", "store_true")):
        wiring.rule_wired(ctx, f"{P}.WIRING", cli, b, param, dest, opts, pol)
    for rel in ("amr_kitchen/menu/menu.py", "amr_kitchen/menu/cli.py", "amr_kitchen/minuterie.py"):
        sinks, _, _ = C13.sink_rules(ctx, P, modules={rel})
        ctx.check(not sinks, f"{P}.W3", rel, "read-only tool: no write sink", f"{len(sinks)} sinks", key=rel)
    C13.sink_rules(ctx, P, modules={"amr_kitchen/marinate.py"})
    ctx.assume("printed layout, classification regexes and the empty-species case are not decided")
    return ("Static: header-walk prefix agreement of minuterie and menu with the reader's grammar, reducer <-> table "
            "pairing and level ranges of the min/max table, 3-significant-digit format, parity of the two-column "
            "layout, every field classified/listed once, picklability of the reader's attributes, CLI wiring, no sinks "
            "in the read-only tools. Decides structural clauses of DESIGN §4.C18.",
            ["vk/grammar.py", "vk/paths.py"])
