"""C09 — pestle integrates every point of the domain exactly once."""
import ast

from vk import fabio, pools, rules, formulas, wiring
from vk import replicate
from vk.fabio import Num, N, D, Roles, Ratio, ArrV
from vk.formulas import A
from vk.model import norm, loc, AnalysisError, walk_no_nested, parents
from vk.rules import local_env

P = "C09"
PE = "amr_kitchen/pestle/pestle.py"
PC = "amr_kitchen/plotfile_cooker.py"


def worker_rules(ctx, name, masked):
    fi = ctx.prog.func(PE, name, P)
    site = fi.site
    roles = Roles()
    roles.sel_kinds = {"*": "single"}
    res = fabio.analyse(ctx.prog, fi, roles, P)
    fabio.report_generic(ctx, res, P)
    ip = res.interp
    sk = {e.key for e in res.events("seek_abs")}
    ctx.check(sk == {"args['offset']"}, f"{P}.SEEK-RECORDED", site, "every read starts from the box's recorded offset",
              f"absolute seeks: {sorted(sk)}")
    c = fabio.C("", 3).r
    wins = {}
    for ff in {id(e): e for e in res.events("fromfile")}.values():
        lo = ff.arr.win_lo
        for key in ("id_int", "id_vol"):
            if ff.count is not None and ip.eq(lo, Num(Ratio(8) * c * Ratio.atom(f"args['{key}']"))) and ip.eq(ff.count, Num(c)):
                wins[key] = ff
    ctx.check(set(wins) == {"id_int", "id_vol"}, f"{P}.WINDOW", site,
              "windows = component id_int (the field) and component id_vol (the volume fraction): [8*C*id, +8*C)",
              f"recognised windows: {sorted(wins)}; every read must be one whole component selected by id_int / id_vol",
              where=loc(fi, fi.node))
    for e in {id(e): e for e in res.events("reshape")}.values():
        dims = e.arr.dims
        ok = dims is not None and all(ip.eq(dims[i], D("", i)) for i in range(3)) and e.order == "F"
        ctx.check(ok, f"{P}.SHAPE", site, "data reshaped to the FAB's extents, order='F'", f"reshape {e.arr.text()[:60]}",
                  where=loc(fi, e.node))
    # returned expressions per branch (summary for the sibling comparison)
    rets = {}
    for blk in formulas._blocks(fi.node):
        for i, n in enumerate(blk):
            if isinstance(n, ast.If) and norm(n.test) == "args['id_vol'] is not None":
                for s in n.body:
                    if isinstance(s, ast.Return):
                        rets["vol"] = norm(s.value)
                # the other case: the else branch, or what follows a branch that always returns
                other = n.orelse if n.orelse else (blk[i + 1:] if rules.always_leaves(n.body) else [])
                for s in other:
                    if isinstance(s, ast.Return):
                        rets["novol"] = norm(s.value)
                        break
    m = "[args['covering_mask']]" if masked else ""
    exp_vol = {f"args['dV'] * np.sum(data{m} * data_volfrag{m})", f"np.sum(data{m} * data_volfrag{m}) * args['dV']"}
    exp_nov = {f"args['dV'] * np.sum(data{m})", f"np.sum(data{m}) * args['dV']"}
    ctx.check(rets.get("vol") in exp_vol and rets.get("novol") in exp_nov, f"{P}.SIBLING", site,
              f"box contribution = dV * sum(value{' [uncovered cells]' if masked else ''} (* volume fraction iff id_vol is "
              f"given))", f"contributions are {rets}; expected {sorted(exp_vol)[0]} / {sorted(exp_nov)[0]}",
              where=loc(fi, fi.node))
    return res


def run(ctx):
    prog = ctx.prog
    worker_rules(ctx, "increment_sum_masked", True)
    worker_rules(ctx, "increment_sum", False)
    vi = prog.func(PE, "volume_integral", P)
    site = vi.site
    # must-pass-through: masked loop over coarser levels and unmasked finest sum on every path
    def is_masked_loop(s):
        return isinstance(s, ast.For) and any(isinstance(c, ast.Call) and any(norm(a) == "increment_sum_masked" for a in c.args)
                                              for c in ast.walk(s))

    def is_finest(s):
        return (isinstance(s, ast.For) or isinstance(s, ast.Expr)) and any(
            isinstance(c, ast.Call) and any(norm(a) == "increment_sum" for a in c.args) for c in ast.walk(s))
    body = vi.node.body
    for pred, what, key in ((is_masked_loop, "the masked sums over the coarser levels", "masked"),
                            (is_finest, "the unmasked sum over the finest selected level", "finest")):
        top = [s for s in body if pred(s)]
        guarded = [s for s in body if isinstance(s, (ast.If, ast.Try, ast.While)) and any(pred(x) for x in ast.walk(s) if isinstance(x, ast.stmt))]
        ok = len(top) == 1 and not guarded
        g = guarded[0] if guarded else None
        ctx.check(ok, f"{P}.MUST-PASS", site, f"{what} run on every path from entry to return",
                  f"{what} are guarded by `{norm(g.test) if isinstance(g, ast.If) else type(g).__name__ if g else '?'}`: "
                  f"for some arguments whole levels are left out of the integral", key=key,
                  where=loc(vi, g or vi.node))
    rets = [n for n in walk_no_nested(vi.node) if isinstance(n, ast.Return)]
    ctx.check(len(rets) == 1 and norm(rets[0].value) == "integral" and body[-1] is rets[0], f"{P}.MUST-PASS", site,
              "single return of the accumulated integral at the end", "early return / other return value", key="return")
    # level loops
    formulas.rule_level_range(ctx, f"{P}.LEVEL-RANGE", vi, obj="pck", exceptions={
        "range(pck.limit_level)": "levels below the finest selected one are masked; the finest is summed unmasked"})
    lv_loops = [n for n in body if isinstance(n, ast.For) and norm(n.iter) == "range(pck.limit_level)"]
    ctx.check(len(lv_loops) == 2, f"{P}.LEVEL-RANGE", site, "mask construction and masked sums both cover levels "
                                                          "0..limit-1", f"{len(lv_loops)} loops over range(pck.limit_level)", key="two-loops")
    # masks: sentinel and polarity
    ba = prog.func(PC, "PlotfileCooker.compute_box_array", P)
    fill = formulas.find_assign(ba, "box_array")
    sent = None
    if fill is not None:
        t = norm(fill.value)
        if t.startswith("-1 * np.ones(") or t.startswith("np.full(") and ", -1" in t:
            sent = "-1"
    e = {norm(n.targets[0]): norm(n.value) for n in walk_no_nested(vi.node) if isinstance(n, ast.Assign)}
    ok = sent == "-1" and e.get("mask[next_lv_map == -1]") in ("1", "True") and \
        e.get("mask") == "np.zeros_like(next_lv_map, dtype=bool)"
    ctx.check(ok, f"{P}.SENTINEL", site,
              "the 'no box' value written into the occupancy array (-1) is the one the mask compares with, and the mask is "
              "true on the *uncovered* cells",
              f"occupancy fill is {norm(fill.value) if fill is not None else None}; mask is built by "
              f"mask = {e.get('mask')}, mask[next_lv_map == -1] = {e.get('mask[next_lv_map == -1]')}",
              where=loc(vi, vi.node))
    # LEVEL-COH
    mask_loop, sum_loop = (lv_loops + [None, None])[:2]
    if mask_loop is not None:
        # what the mask is cut from, with every local substituted (naming / hoisting independent)
        denv = rules.local_env(vi.node)
        srcs = [rules.deep(n.value, denv, vi.params) for n in ast.walk(mask_loop)
                if isinstance(n, ast.Assign) and norm(n.targets[0]) == "next_lv_map"]
        F = "(pck.grid_sizes[lv + 1] // pck.box_arrays[lv + 1].shape)"
        lo = f"np.array(indices[0] * 2 // {F}, dtype=int)"
        hi = f"np.array(indices[1] * 2 // {F}, dtype=int)"
        want = (f"expand_array3d(pck.box_arrays[lv + 1][{lo}[0]:{hi}[0] + 1, {lo}[1]:{hi}[1] + 1, "
                f"{lo}[2]:{hi}[2] + 1], {F}[0] // 2)")
        inner = [n for n in mask_loop.body if isinstance(n, ast.For)]
        it_ok = len(inner) == 1 and (
            (norm(inner[0].iter) == "enumerate(pck.cells[lv]['indexes'])" and isinstance(inner[0].target, ast.Tuple)
             and norm(inner[0].target.elts[1]) == "indices") or
            (norm(inner[0].iter) == "pck.cells[lv]['indexes']" and norm(inner[0].target) == "indices"))
        ctx.check(srcs == [want] and it_ok, f"{P}.LEVEL-COH", site,
                  "the mask of a level-lv box is cut from the occupancy array of level lv+1 (frozen exception) at the "
                  "box's index range scaled by 2, and expanded back to level-lv cells",
                  f"the mask source is {srcs} over {[norm(i.iter) for i in inner]}; expected {want} for every box "
                  f"`indices` of pck.cells[lv]['indexes']", key="masks", where=loc(vi, mask_loop), semantic=len(srcs) == 1)
        aps = [norm(n) for n in ast.walk(mask_loop) if isinstance(n, ast.Expr) and ".append(" in norm(n)]
        ctx.check(aps == ["lv_masks.append(mask)", "covering_masks.append(lv_masks)"] or
                  sorted(aps) == ["covering_masks.append(lv_masks)", "lv_masks.append(mask)"], f"{P}.LEVEL-COH", site,
                  "masks are collected per box, per level", f"mask collection is {aps}", key="collect")
    if sum_loop is not None:
        t = {norm(n.targets[0]): norm(n.value) for n in ast.walk(sum_loop) if isinstance(n, ast.Assign)}
        d = next((n for n in ast.walk(sum_loop) if isinstance(n, ast.Dict)), None)
        dd = {k.value: norm(v) for k, v in zip(d.keys, d.values)} if d is not None else {}
        zl = [n for n in sum_loop.body if isinstance(n, ast.For) and "zip(" in norm(n.iter)]
        ok = t.get("dV") == "np.prod(pck.dx[lv])" and dd == {"file": "file", "offset": "offset", "id_vol": "id_vol",
                                                            "id_int": "id_int", "covering_mask": "covering_masks[lv][bid]",
                                                            "dV": "dV"} and len(zl) == 1 and \
            norm(zl[0].iter).replace(" ", "") == "zip(range(len(pck.boxes[lv])),pck.cells[lv]['files'],pck.cells[lv]['offsets'])"
        ctx.check(ok, f"{P}.LEVEL-COH", site,
                  "cell volume, files, offsets and masks of the masked sums are all taken at the same level lv and box",
                  f"masked task is {dd} with dV = {t.get('dV')}", key="masked-task", where=loc(vi, sum_loop))
    # finest
    fin = [s for s in body if isinstance(s, ast.For) and "zip(" in norm(s.iter) and "pck.limit_level" in norm(s.iter)]
    ok = False
    if len(fin) == 1:
        d = next((n for n in ast.walk(fin[0]) if isinstance(n, ast.Dict)), None)
        dd = {k.value: norm(v) for k, v in zip(d.keys, d.values)} if d is not None else {}
        ok = dd == {"file": "file", "offset": "offset", "id_vol": "id_vol", "id_int": "id_int", "dV": "dV"} and \
            norm(fin[0].iter).replace(" ", "") == ("zip(range(len(pck.boxes[pck.limit_level])),pck.cells[pck.limit_level]"
                                                  "['files'],pck.cells[pck.limit_level]['offsets'])")
    dvs = [norm(n.value) for n in body if isinstance(n, ast.Assign) and norm(n.targets[0]) == "dV"]
    ctx.check(ok and dvs == ["np.prod(pck.dx[pck.limit_level])"], f"{P}.LEVEL-COH", site,
              "the finest sum uses files, offsets and cell volume of the limit level", f"finest task / dV = {dvs}", key="finest-task")
    ok = e.get("id_int") == "pck.fields[field]" and e.get("id_vol") in ("None", "pck.fields['volFrac']")
    vf = [n for n in walk_no_nested(vi.node) if isinstance(n, ast.If) and norm(n.test) == "'volFrac' in pck.fields and use_volfrac"]
    ctx.check(ok and len(vf) == 1, f"{P}.WIRING", site, "field index from the header table; volume fraction used iff "
                                                        "requested and present", f"id_int = {e.get('id_int')}")
    # pools
    for s in pools.find_sites(prog, vi):
        pools.rule_P1(ctx, P, s)
        pools.rule_P2(ctx, P, prog, s)
        pools.rule_P3(ctx, P, prog, s)
        pools.rule_X2(ctx, P, s)
        ctx.check(s.consumer[0] == "accumulate" and s.ordered, f"{P}.P1", site,
                  "floating-point accumulation consumes results in task order (order-preserving imap)",
                  f"accumulation over {s.prim}: the sum depends on completion order", key="accumulate:" + s.key)
    # DIV-ALL: occupancy resolution is a common divisor of every box boundary
    rez = formulas.find_assign(ba, "box_rez")
    t = norm(rez.value) if rez is not None else ""
    env = local_env(ba.node)
    good = False
    why = t
    if t.startswith("np.gcd.reduce("):
        arg = rez.value.args[0]
        txt = rules.leaf_text(arg, env, None)
        bounds = env.get("bounds")
        btxt = norm(bounds) if bounds is not None else ""
        good = "idx[0]" in btxt and "idx[1] + 1" in btxt and "range(self.limit_level + 1)" in btxt and \
            "self.cells[lv]['indexes']" in btxt
        why = f"gcd over {btxt[:120]}"
    elif t in ("1", "np.int64(1)"):
        good = True
    ctx.check(good, f"{P}.DIV-ALL", ba.site,
              "the occupancy resolution is the gcd of every box boundary (low index and high index + 1) of every level: "
              "idx // rez is exact at all boundaries",
              f"the occupancy resolution is `{why}`, which is not a common divisor of all box boundaries (min/max of the "
              f"box extents is recognised as NOT one): with mixed box shapes (16 and 24) idx // rez rounds boundaries and "
              f"the region covered by the next level is over-estimated", where=loc(ba, rez) if rez is not None else None)
    # naming / hoisting independent: every local but the resolution and the array itself is substituted
    keep = tuple(ba.params) + ("box_rez", "box_array")
    marks = []
    for n in walk_no_nested(ba.node):
        if isinstance(n, ast.For) and isinstance(n.iter, ast.Call) and norm(n.iter.func) == "enumerate" and \
                isinstance(n.target, ast.Tuple) and len(n.target.elts) == 2:
            bid, ix = norm(n.target.elts[0]), norm(n.target.elts[1])
            for m in ast.walk(n):
                if isinstance(m, ast.Assign) and isinstance(m.targets[0], ast.Subscript) and \
                        norm(m.targets[0].value) == "box_array":
                    marks.append((rules.deep(m.targets[0], env, keep).replace(ix, "idx"),
                                  "id" if norm(m.value) == bid else norm(m.value), norm(n.iter)))
    lo, hi = "(idx[0] // box_rez)", "(idx[1] // box_rez)"
    want = (f"box_array[{lo}[0]:{hi}[0] + 1, {lo}[1]:{hi}[1] + 1, {lo}[2]:{hi}[2] + 1]", "id",
            "enumerate(self.cells[lv]['indexes'])")
    alloc = rules.deep(fill.value, env, keep) if fill is not None else ""
    ctx.check(marks == [want] and "self.grid_sizes[lv] // box_rez" in alloc,
              f"{P}.OCCUPANCY", ba.site, "each box marks the inclusive occupancy range idx_lo//rez .. idx_hi//rez on "
                                         "every axis with its own id, in an array of grid_size // rez cells",
              f"occupancy marking is {marks} in an array allocated as {alloc}")
    formulas.rule_level_range(ctx, f"{P}.LEVEL-RANGE", ba)
    # CLI
    cli = prog.func("amr_kitchen/pestle/cli.py", "main", P)
    opts = wiring.cli_options(cli)
    call, bb = wiring.call_bindings(prog, cli, lambda t: t == "PlotfileCooker")
    ctx.check(bb.get("limit_level") == "args.limit_level" and bb.get("ghost") == "True" and
              bb.get("plotfile_path") == "args.plotfile", f"{P}.WIRING", cli.site,
              "--limit_level reaches the reader (whose limit drives masks and sums); occupancy arrays requested",
              f"the reader is built with {bb}: the level limit does not restrict the integral", key="limit",
              where=loc(cli, call) if call is not None else None)
    call2, b2 = wiring.call_bindings(prog, cli, lambda t: t == "volume_integral")
    ok = b2.get("pck") == "pck" and b2.get("field") == "args.variable" and b2.get("use_volfrac") == "args.volfrac"
    ctx.check(ok and opts.get("volfrac", {}).get("action") == "store_true", f"{P}.WIRING", cli.site,
              "--variable and --volfrac reach volume_integral", f"volume_integral is called with {b2}", key="options")
    # the covering mask is expanded by block replication (np.repeat along every axis): same rule as C10.EXPAND
    ex = prog.func("amr_kitchen/utils.py", "expand_array3d", P)
    replicate.rule(ctx, f"{P}.EXPAND", ex, 3, "expand_array3d repeats every axis by factor (block replication: the "
                   "occupancy block of a coarse cell covers exactly `factor` fine cells along every axis)")
    ctx.assume("box boundaries lie on an even blocking factor (bcast_factor = rez // 2); levels are properly nested")
    ctx.assume("the rest of the occupancy arithmetic ((idx*2)//factors, expand) is decided only as far as the "
               "LEVEL-COH and DIV-ALL rules; the numeric sum is not decided")
    return ("Static: both sums on every path (must-pass-through), limit wiring, sentinel/polarity agreement of the "
            "covering masks, level coherence of cell volume / tables / masks (lv+1 occupancy as frozen exception), byte "
            "windows of both workers with sibling contribution summaries, ordered imap under float accumulation, and "
            "the one-bit divisibility rule for the occupancy resolution. Decides structural clauses of DESIGN §4.C09.",
            ["vk/fabio.py", "vk/pools.py", "vk/rules.py"])
