"""C14 — tool outputs are valid tool inputs: pipelines equal the composed pure operations.

Closure by induction over operations: the reader's grammar equals the format oracle (C02 rules), and every
writer (colander, combine, chef, chk2plt) emits a grammar the reader accepts with the right sources, FAB headers
that all parsers read back, round-trip-exact numbers, and box contents per its own operation (the complete
rule sets of C05, C06, C11, C17 are re-evaluated here under this property, so a defect in one operation is a
defect of every pipeline through it).
"""
from checks import C02, C05, C06, C11, C17, hfab

P = "C14"


def run(ctx):
    C02.reader_grammar_rules(ctx, P)
    hfab.check_builder(ctx, P)
    hfab.check_sibling_parsers(ctx, P)
    expl = []
    for mod in (C05, C06, C11, C17):
        old = mod.P
        mod.P = P
        try:
            e, _ = mod.run(ctx)
            expl.append(mod.__name__.split(".")[-1])
        finally:
            mod.P = old
    if ctx.tier == "thorough":
        from checks import inventory
        inventory.sweep(ctx, P)
    ctx.assume("induction: a plotfile accepted by the reader grammar and written by any of the four writers is again "
               "accepted; contents per operation as decided by C05/C06/C11/C17")
    return ("Static closure argument: reader grammar = format oracle; every writer's Header / Cell_H grammar matched "
            "line by line against that oracle with reader-derived sources and round-trip-exact float formats; FAB "
            "header builder canonical and read identically by the four parsers; per-operation content rules of "
            f"{', '.join(expl)} re-evaluated under this property. Decides structural clauses of DESIGN §4.C14.",
            ["vk/grammar.py", "vk/fabio.py", "checks/hfab.py"])
