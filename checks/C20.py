"""C20 — whatever taste accepts, the reader can read completely and consistently.

Assume/guarantee between the validator's post-conditions and the reader's pre-conditions:
same parser summary, same tables at the same box index, both quantities compared at every
recorded offset, whole-FAB chain to EOF, reader shape taken from the validated FAB header.
"""
import ast

from vk import fabio, rules
from vk.model import norm, loc, AnalysisError, walk_no_nested
from checks import readers, hfab, tastelib as tl

P = "C20"
PC = readers.PC


def run(ctx):
    prog = ctx.prog
    # (1) validator and reader share the parser summary
    hfab.check_sibling_parsers(ctx, P)
    hfab.check_builder(ctx, P)
    # which parsers each side uses
    used_v = set()
    for w in ("mp_fun_headers", "mp_fun_shape"):
        fi = prog.func(tl.TT, w, P)
        for c in ast.walk(fi.node):
            if isinstance(c, ast.Call) and isinstance(c.func, ast.Name) and c.func.id in hfab.EXPECT:
                used_v.add(c.func.id)
    _, disp = readers.stream_dispatch(prog, P)
    used_r = set()
    for funs in disp.values():
        for f in funs.values():
            for c in ast.walk(f.node):
                if isinstance(c, ast.Call) and isinstance(c.func, ast.Name) and c.func.id in hfab.EXPECT:
                    used_r.add(c.func.id)
    ctx.check(bool(used_v) and bool(used_r), f"{P}.PARSERS", tl.TT, f"validator parses with {sorted(used_v)}, reader "
              f"with {sorted(used_r)}; all are summary-equivalent on the canonical header (H-FAB)",
              "validator or reader no longer uses the shared utils parsers")
    # (2) V2: checked pairs at each recorded offset; V3: FAB chain to EOF
    tl.headers_worker(ctx, P)
    tl.shape_worker(ctx, P)
    tl.check_workers_no_swallow(ctx, P)
    # "default validation" is also what the command line runs: its defaults are the API's
    tl.cli_wiring(ctx, P)
    tl.task_builder(ctx, P, "Taster.taste_binary_headers",
                    {"bfile": "file", "offsets": "offsets_sorted", "indices": "indices_sorted", "nfields": "nfields"})
    tl.task_builder(ctx, P, "Taster.taste_binary_shape", {"bfile": "file", "indices": "indices_sorted",
                                                          "nfields": "nfields"})
    taste, cfgs = tl.configurations(prog, P)
    must, _ = cfgs[(True, True, False, False)]
    ctx.check({"taste_plotfile_structure", "taste_binary_headers", "taste_binary_shape"} <= set(must),
              f"{P}.MUST-PASS", taste.site, "default validation establishes V1 (files), V2 (headers), V3 (chain)",
              "default validation does not run all three passes")
    # (3) reader pre-conditions: same tables at the same index, shape from the FAB header at the recorded offset
    slots = readers.task_slots(prog, P)
    for kind, funs in sorted(disp.items()):
        if "read_fun" in funs:
            res = readers.check_reader(ctx, P, funs["read_fun"], kind, "box", slots)
            for e in res.events("reshape"):
                prov = getattr(e.arr, "shape_prov", None)
                ctx.check(prov == "fab", f"{P}.SHAPE-PROV", funs["read_fun"].site,
                          "reader derives the array shape from the FAB header it was validated against",
                          f"reader reshapes with a shape of provenance {prov!r}, not the FAB header at the recorded "
                          f"offset", where=loc(funs["read_fun"], e.node))
    from checks.C01 import check_box_selection, check_selector
    check_box_selection(ctx, prog.func(PC, "LevelDataStream.__getitem__", P), P)
    # level tables: validator uses self.cells[lv][...], reader self.cells[key][...] (same object: Taster is a PlotfileCooker)
    cls = prog.cls(tl.TT, "Taster")
    ctx.check(any(c.name == "PlotfileCooker" for c in prog.mro(cls)), f"{P}.SAME-TABLES", tl.TT + "::Taster",
              "Taster is a PlotfileCooker: validator and reader index the same cells tables",
              "Taster no longer derives from PlotfileCooker")
    gi = prog.func(PC, "LevelDataSelector.__getitem__", P)
    key = gi.params[1]
    ok = any(isinstance(r.value, ast.Call) and [norm(a) for a in r.value.args] ==
             [f"self.cells[{key}]['files']", f"self.cells[{key}]['offsets']", "self.farg"]
             for r in walk_no_nested(gi.node) if isinstance(r, ast.Return))
    ctx.check(ok, f"{P}.SAME-TABLES", gi.site, "reader takes file and offset from cells[level] of the same level",
              "reader's file/offset tables are not cells[key]['files'] / cells[key]['offsets']")
    ctx.assume("recorded offsets coincide with chain positions is NOT related by the validator (noted in DESIGN §4.C20)")
    return ("Static assume/guarantee: the four FAB-header parsers have the same summary on the canonical template; "
            "the validator compares index range and component count at every recorded offset of every box and "
            "walks whole FABs to EOF; the reader seeks to the same recorded offset of the same table row and takes "
            "its shape from that FAB header. Decides structural clauses of DESIGN §4.C20.",
            ["vk/fabio.py", "checks/hfab.py template evaluator"])
