"""Rules about the validator (taste) shared by C03, C04 and C20."""
import ast
import copy
import itertools

from vk import fabio, pools, rules
from vk.fabio import Num, Ratio, C, N, StrV, NoneV, IdxPairV, HdrV
from vk.model import (norm, loc, AnalysisError, walk_no_nested, call_name, undefined_names,
                      self_attrs_assigned, parents)

TT = "amr_kitchen/taste/taste.py"
PC = "amr_kitchen/plotfile_cooker.py"
FLAGS = ["binary_headers", "binary_shape", "binary_data", "boxes_coordinates"]


# ---------------------------------------------------------------------------
# E7: constant propagation of the flag configuration through Taster.taste()
# ---------------------------------------------------------------------------
def flag_attrs(prog, rule):
    """constructor parameter -> attribute it is stored into (polarity-preserving only)"""
    fi = prog.func(TT, "Taster.__init__", rule)
    m = {}
    for n in walk_no_nested(fi.node):
        if isinstance(n, ast.Assign) and len(n.targets) == 1 and isinstance(n.targets[0], ast.Attribute) \
                and norm(n.targets[0].value) == "self" and isinstance(n.value, ast.Name) and n.value.id in FLAGS:
            m[n.value.id] = n.targets[0].attr
    missing = [f for f in FLAGS if f not in m]
    if missing:
        raise AnalysisError(rule, fi.site, f"constructor flags {missing} are not stored into attributes verbatim")
    return fi, m


def eval_test(t, vals):
    """three-valued evaluation of a flag test; vals: 'self.attr' -> bool"""
    if isinstance(t, ast.Attribute) and norm(t) in vals:
        return vals[norm(t)]
    if isinstance(t, ast.UnaryOp) and isinstance(t.op, ast.Not):
        v = eval_test(t.operand, vals)
        return None if v is None else (not v)
    if isinstance(t, ast.BoolOp):
        vs = [eval_test(v, vals) for v in t.values]
        if isinstance(t.op, ast.And):
            if any(v is False for v in vs):
                return False
            return True if all(v is True for v in vs) else None
        if any(v is True for v in vs):
            return True
        return False if all(v is False for v in vs) else None
    if isinstance(t, ast.Constant):
        return bool(t.value)
    return None


def invoked_methods(stmts, vals):
    """methods self.m() invoked on *every* path / on *some* path for the flag valuation vals"""
    must, may = [], []

    def walk(seq, certain):
        for s in seq:
            if isinstance(s, ast.If):
                v = eval_test(s.test, vals)
                if v is True:
                    walk(s.body, certain)
                elif v is False:
                    walk(s.orelse, certain)
                else:
                    walk(s.body, False)
                    walk(s.orelse, False)
            elif isinstance(s, (ast.For, ast.While, ast.With, ast.Try)):
                walk(s.body, certain if isinstance(s, ast.With) else False)
            elif isinstance(s, ast.Return):
                return
            else:
                for c in ast.walk(s):
                    if isinstance(c, ast.Call) and isinstance(c.func, ast.Attribute) and \
                            norm(c.func.value) == "self":
                        (must if certain else may).append(c.func.attr)
    walk(stmts, True)
    return must, may


def configurations(prog, rule):
    """-> (taste FunctionInfo, {config tuple: (must, may)})"""
    _, fa = flag_attrs(prog, rule)
    fi = prog.func(TT, "Taster.taste", rule)
    out = {}
    for combo in itertools.product([True, False], repeat=4):
        vals = {f"self.{fa[f]}": v for f, v in zip(FLAGS, combo)}
        out[combo] = invoked_methods(fi.node.body, vals)
    return fi, out


def cfg_name(combo):
    return ",".join(f"{f}={'T' if v else 'F'}" for f, v in zip(FLAGS, combo))


# ---------------------------------------------------------------------------
# cleanliness of a validator method (C03)
# ---------------------------------------------------------------------------
def method_defects(ctx, prefix, meth):
    """U1 / U2 / pool binding / P2 / ARG-KIND findings for a Taster method; returns list of (rule, key, text, node)"""
    prog = ctx.prog
    out = []
    for n in undefined_names(prog, meth):
        out.append(("U1", n.id, f"name `{n.id}` is read but bound nowhere (NameError when reached)", n))
    attrs = self_attrs_assigned(prog, meth.cls)
    seen = set()
    for n in walk_no_nested(meth.node):
        if isinstance(n, ast.Attribute) and isinstance(n.ctx, ast.Load) and norm(n.value) == "self" \
                and n.attr not in attrs and n.attr not in seen:
            seen.add(n.attr)
            out.append(("U2", f"self.{n.attr}", f"attribute `self.{n.attr}` is read but never assigned in the class "
                                                f"hierarchy (AttributeError when reached)", n))
    for s in pools.find_sites(prog, meth):
        # argument kind: a worker that open()s its whole argument must be fed paths
        for w in s.workers:
            p = w.params[0] if w.params else None
            opens_arg = any(isinstance(c, ast.Call) and isinstance(c.func, ast.Name) and c.func.id == "open"
                            and c.args and isinstance(c.args[0], ast.Name) and c.args[0].id == p
                            for c in ast.walk(w.node))
            if opens_arg and s.task is not None:
                t = norm(s.task)
                if t.endswith(".keys()") or isinstance(s.task, ast.Dict):
                    env = rules.local_env(meth.node)
                    base = s.task.func.value if isinstance(s.task, ast.Call) else None
                    keys = set()
                    if isinstance(base, ast.Name):
                        for m in walk_no_nested(meth.node):
                            if isinstance(m, ast.Assign):
                                for tg in m.targets:
                                    if isinstance(tg, ast.Subscript) and norm(tg.value) == base.id:
                                        keys.add(norm(tg.slice))
                    pathlike = all("file" in k or "path" in k for k in keys) and keys
                    if not pathlike:
                        out.append(("ARG-KIND", w.qualname,
                                    f"worker {w.qualname} opens its argument as a file, but the tasks are the keys "
                                    f"{sorted(keys)} of a dict of tables, not binary-file paths", s.call))
    return out


# ---------------------------------------------------------------------------
# error discipline (C04)
# ---------------------------------------------------------------------------
def check_error_discipline(ctx, prefix):
    prog = ctx.prog
    re_ = prog.func(TT, "Taster.raise_error", prefix)
    site = re_.site
    body = re_.node.body
    # isgood = False on every path, before anything that can leave the function
    first_effect = next(iter(rules.effective(body)), None)
    ok = isinstance(first_effect, ast.Assign) and norm(first_effect.targets[0]) == "self.isgood" and \
        isinstance(first_effect.value, ast.Constant) and first_effect.value.value is False
    ctx.check(ok, f"{prefix}.ISGOOD", site, "raise_error stores isgood=False before anything else, on every path",
              "raise_error does not unconditionally store self.isgood = False first: a reported error can leave "
              "the plotfile evaluating true in non-failing mode", where=loc(re_, re_.node))
    # raises iff fail_on_bad
    ok = False
    for s in body:
        if isinstance(s, ast.If) and norm(s.test) == "self.fail_on_bad" and rules.always_raises(s.body) \
                and not any(isinstance(x, ast.Raise) for b in s.orelse for x in ast.walk(b)):
            r = next(x for x in s.body if isinstance(x, ast.Raise))
            ok = r.exc is not None and re_.params[1] in norm(r.exc) and re_.params[2] in norm(r.exc)
    ctx.check(ok, f"{prefix}.RAISE-IFF", site, "raise_error raises error(message) iff fail_on_bad",
              "raise_error does not raise exactly when self.fail_on_bad holds", where=loc(re_, re_.node))
    # __init__: fail_on_bad = not nofail; handler stores isgood False and re-raises iff fail_on_bad
    ini = prog.func(TT, "Taster.__init__", prefix)
    pol = None
    for n in walk_no_nested(ini.node):
        if isinstance(n, ast.If) and norm(n.test) == "nofail":
            a = [norm(x) for x in n.body]
            b = [norm(x) for x in n.orelse]
            pol = ("self.fail_on_bad = False" in a and "self.fail_on_bad = True" in b)
        if isinstance(n, ast.Assign) and norm(n.targets[0]) == "self.fail_on_bad" and norm(n.value) == "not nofail":
            pol = True
    ctx.check(bool(pol), f"{prefix}.NOFAIL-POLARITY", ini.site, "fail_on_bad is the negation of nofail",
              "fail_on_bad is not the negation of the nofail option")
    trys = [n for n in ini.node.body if isinstance(n, ast.Try)]
    ok = False
    for t in trys:
        calls = {norm(c.func) for b in t.body for c in ast.walk(b) if isinstance(c, ast.Call)}
        if "self.taste" in calls and "super().__init__" in calls:
            for h in t.handlers:
                if h.type is not None and norm(h.type) in ("Exception", "BaseException"):
                    sets = any(isinstance(s, ast.Assign) and norm(s) == "self.isgood = False" for s in h.body)
                    rer = any(isinstance(s, ast.If) and norm(s.test) == "self.fail_on_bad" and
                              rules.always_raises(s.body) for s in h.body)
                    first = next(iter(rules.effective(h.body)), None)
                    ok = sets and rer and isinstance(first, ast.Assign) and norm(first) == "self.isgood = False"
    ctx.check(ok, f"{prefix}.CTOR-HANDLER", ini.site,
              "constructor wraps reader + taste(), catches Exception, stores isgood=False first, re-raises iff "
              "fail_on_bad", "constructor's handler does not store isgood=False and re-raise iff fail_on_bad "
                             "around both the reader constructor and taste()", where=loc(ini, ini.node))
    # default flags: headers and shape on
    d = {a.arg: dflt for a, dflt in zip(ini.node.args.args[-len(ini.node.args.defaults):], ini.node.args.defaults)}
    ok = all(isinstance(d.get(k), ast.Constant) and d[k].value is True for k in ("binary_headers", "binary_shape"))
    ctx.check(ok, f"{prefix}.DEFAULTS", ini.site, "binary_headers and binary_shape default to True",
              f"defaults are { {k: norm(v) for k, v in d.items()} }")
    # validate_mode=True on every super().__init__
    sup = [c for c in ast.walk(ini.node) if isinstance(c, ast.Call) and norm(c.func) == "super().__init__"]
    ok = bool(sup) and all(any(k.arg == "validate_mode" and isinstance(k.value, ast.Constant) and k.value.value is True
                               for k in c.keywords) and
                           any(k.arg == "limit_level" and norm(k.value) == "limit_level" for k in c.keywords)
                           for c in sup)
    ctx.check(ok, f"{prefix}.CTOR-WIRING", ini.site, "reader is constructed with validate_mode=True and the limit",
              "reader constructor is not called with validate_mode=True / limit_level=limit_level")
    # the level headers are always parsed: taste() runs the missing-file scan on every configuration and every
    # validator method reads self.cells, which the reader assigns only when header_only is false
    ho = [k for c in sup for k in c.keywords if k.arg == "header_only"]
    bad_ho = [k for k in ho if not (isinstance(k.value, ast.Constant) and k.value.value is False)]
    ctx.check(not bad_ho, f"{prefix}.CTOR-WIRING", ini.site,
              "the reader is never built header-only (self.cells is defined for every option combination)",
              f"the reader is built with header_only={norm(bad_ho[0].value) if bad_ho else ''}: when that is true "
              f"PlotfileCooker never assigns self.cells, but taste() always runs taste_plotfile_structure(), which "
              f"reads self.cells — that option combination reports every well-formed plotfile bad", key="header_only",
              where=loc(ini, bad_ho[0].value) if bad_ho else None, semantic=True)
    bo = prog.func(TT, "Taster.__bool__", prefix)
    rets = [n for n in walk_no_nested(bo.node) if isinstance(n, ast.Return)]
    ctx.check(len(rets) == 1 and norm(rets[0].value) == "self.isgood", f"{prefix}.BOOL", bo.site,
              "__bool__ returns isgood", f"__bool__ returns {[norm(r.value) for r in rets]}")
    # no writes of isgood=True after construction start
    for m in prog.cls(TT, "Taster").methods.values():
        for n in walk_no_nested(m.node):
            if isinstance(n, ast.Assign) and norm(n.targets[0]) == "self.isgood" and \
                    not (isinstance(n.value, ast.Constant) and n.value.value is False):
                pre = m.qualname == "Taster.__init__" and not any(
                    isinstance(a, ast.Try) for a in ast.walk(ast.Module(body=m.node.body[:m.node.body.index(n)] if n in m.node.body else [], type_ignores=[])))
                ctx.check(pre, f"{prefix}.ISGOOD-RESET", m.site,
                          "isgood is set true only once, before validation starts",
                          f"`{norm(n)}` can reset the verdict after an error was recorded", where=loc(m, n))


def check_reader_wrapping(ctx, prefix):
    """PlotfileCooker.__init__ wraps read_boxes / read_cell_headers failures without swallowing"""
    prog = ctx.prog
    fi = prog.func(PC, "PlotfileCooker.__init__", prefix)
    n_try = 0
    for t in [n for n in walk_no_nested(fi.node) if isinstance(n, ast.Try)]:
        called = {norm(c.func) for b in t.body for c in ast.walk(b) if isinstance(c, ast.Call)}
        which = called & {"self.read_boxes", "self.read_cell_headers"}
        if not which:
            continue
        n_try += 1
        for h in t.handlers:
            ctx.check(rules.always_raises(h.body), f"{prefix}.READER-WRAP", fi.site,
                      f"every path of the handler around {sorted(which)} raises (TastesBadError in validate mode, "
                      f"the original otherwise)",
                      f"the handler around {sorted(which)} can complete without raising: a malformed level header "
                      f"would leave a half-initialised reader that validation then reports good",
                      key=",".join(sorted(which)), where=loc(fi, h))
    ctx.floor("reader try blocks around read_boxes/read_cell_headers", n_try, 2)
    # header-declared counts are asserted: nfields and ncells
    rc = prog.func(PC, "PlotfileCooker.read_cell_headers", prefix)
    asserts = [norm(n.test) for n in walk_no_nested(rc.node) if isinstance(n, ast.Assert)]
    ctx.check(any("len(self.fields)" in a for a in asserts) and any("n_cells" in a for a in asserts),
              f"{prefix}.READER-ASSERTS", rc.site,
              "level header's field count and FabOnDisk count are checked against the Header / box count",
              f"level-header consistency assertions are {asserts}")
    ctx.assume("python is not run with -O (two reader consistency checks are assert statements)")


def check_workers_no_swallow(ctx, prefix, names=("mp_fun_headers", "mp_fun_shape")):
    for nme in names:
        w = ctx.prog.func(TT, nme, prefix)
        sw = rules.swallowing_handlers(w.node)
        ctx.check(not sw, f"{prefix}.WORKER-NO-SWALLOW", w.site,
                  "validation worker has no exception handler that can complete (parse failures propagate)",
                  f"validation worker swallows exceptions at line(s) {[h.lineno for _, h in sw]}: an unreadable "
                  f"FAB header would be reported as good", where=loc(w, sw[0][1]) if sw else None)


def check_consumers(ctx, prefix, methods=("Taster.taste_binary_headers", "Taster.taste_binary_shape")):
    """every non-None worker result reaches raise_error"""
    for q in methods:
        m = ctx.prog.func(TT, q, prefix)
        sites = pools.find_sites(ctx.prog, m)
        ctx.check(len(sites) == 1, f"{prefix}.POOL-SITE", m.site, "one pool call per validation pass",
                  f"{len(sites)} pool calls")
        for s in sites:
            pools.rule_P1(ctx, prefix, s)
            pools.rule_P2(ctx, prefix, ctx.prog, s)
            pools.rule_X2(ctx, prefix, s)
            kind, detail, node = s.consumer
            ok = False
            if isinstance(node, ast.For):
                for b in node.body:
                    if isinstance(b, ast.If) and pools._is_none_test(b.test, {norm(node.target)}):
                        ok = any(isinstance(c, ast.Call) and norm(c.func) == "self.raise_error" and
                                 len(c.args) == 2 and norm(c.args[1]) == norm(node.target)
                                 for x in b.body for c in ast.walk(x))
            ctx.check(ok, f"{prefix}.RESULT-REPORTED", m.site,
                      "every non-None worker result is passed to raise_error",
                      "a non-None worker result (an error message) is not passed to self.raise_error",
                      where=loc(m, s.call))
            # pool is inside the level loop and the task list is rebuilt per level
            pm = parents(m.node)
            lvloop = [a for a in _ancestors(s.call, pm) if isinstance(a, ast.For)]
            ctx.check(bool(lvloop), f"{prefix}.PER-LEVEL", m.site, "validation pass runs once per level",
                      "pool call is outside the level loop")


def _ancestors(n, pm):
    n = pm.get(n)
    while n is not None:
        yield n
        n = pm.get(n)


# ---------------------------------------------------------------------------
# CHECKED-PAIRS through the interpreter (C04, C20)
# ---------------------------------------------------------------------------
def headers_worker(ctx, prefix):
    prog = ctx.prog
    fi = prog.func(TT, "mp_fun_headers", prefix)
    roles = fabio.Roles(level_index={"args['indices'][i]": ""})
    res = fabio.analyse(prog, fi, roles, prefix)
    fabio.report_generic(ctx, res, prefix)
    site = fi.site
    # positioning: absolute seek to the box's recorded offset, zipped with the same box's indices
    z = res.events("zip")
    zs = [[s.text() for s in e.seqs] for e in z]
    ok = any(set(x) >= {"args['offsets']", "args['indices']"} for x in zs)
    ctx.check(ok, f"{prefix}.PAIRING", site, "offsets and level-header indices are walked in lock-step (one zip)",
              f"offsets/indices are not zipped together: {zs}")
    sk = res.events("seek_abs")
    ok = len(sk) == 1 and sk[0].key == "args['offsets'][i]" and sk[0].loops
    ctx.check(ok, f"{prefix}.SEEK-RECORDED", site, "each box's header is read at that box's recorded offset",
              f"absolute seeks: {[s.key for s in sk]}")
    # compared pairs
    idx_cmp, n_cmp = False, False
    for p in res.paths:
        if isinstance(p.ret, (StrV, fabio.Opaque)) or (p.ret is not None and not isinstance(p.ret, NoneV)):
            if not p.conds:
                continue
            cond, pol, cmps = p.conds[-1]
            for (op, a, b, node) in cmps:
                neg = cond.startswith("not ") or cond.startswith("~")
                if op == "array_equal" and pol is True and neg:
                    pair = {type(a).__name__ + ":" + getattr(a, "prov", ""), type(b).__name__ + ":" + getattr(b, "prov", "")}
                    if pair == {"IdxPairV:level", "IdxPairV:fab"}:
                        lv = a if a.prov == "level" else b
                        idx_cmp = lv.src == "args['indices'][i]"
                if op in ("NotEq",) and pol is True:
                    ta, tb = a.text(), b.text()
                    if {ta, tb} == {"N", "args['nfields']"}:
                        n_cmp = True
    ctx.check(idx_cmp, f"{prefix}.CHECKED-PAIRS", site,
              "index range of box b in the level header is compared (exactly, both bounds) with the FAB header parsed "
              "at box b's offset; mismatch returns an error",
              "the level-header index range is not compared with the full FAB-header index range (start and stop) "
              "of the same box", key="indices", where=loc(fi, fi.node))
    ctx.check(n_cmp, f"{prefix}.CHECKED-PAIRS", site,
              "FAB component count is compared (!=) with the Header's field count; mismatch returns an error",
              "the FAB header's component count is not compared with the plotfile's field count",
              key="ncomp", where=loc(fi, fi.node))
    # the no-error path returns None only after the loop
    none_paths = [p for p in res.paths if p.ret is None or isinstance(p.ret, NoneV)]
    ok = all(all(pol is False for _, pol, _ in p.conds) for p in none_paths) and none_paths
    ctx.check(ok, f"{prefix}.ACCEPT-PATH", site, "the accepting path passes every comparison",
              "a path returns None (accept) with a failed comparison")
    return res


def shape_worker(ctx, prefix):
    prog = ctx.prog
    fi = prog.func(TT, "mp_fun_shape", prefix)
    roles = fabio.Roles(level_index={"args['indices'][*]": "next"}, equiv={})
    res = fabio.analyse(prog, fi, roles, prefix)
    fabio.report_generic(ctx, res, prefix, skip=())
    site = fi.site
    ip = res.interp
    # walk: first header at file start, then per box: skip 8*C*N, next line must equal the canonical header of
    # the next offset-sorted box
    rl = res.events("readline")
    first = [e for e in rl if not e.loops]
    ctx.check(len(first) == 1 and first[0].fabkey == "start", f"{prefix}.WALK-START", site,
              "the walk starts at byte 0 of the binary file", f"first header read at {[e.fabkey for e in first]}")
    sk = res.events("seek_rel")
    full = ip.fab_n_bytes("")
    ok = len(sk) == 2 and all(isinstance(e.amount, Num) and ip.eq(e.amount, full) for e in sk) and \
        all(e.before[0] == "data" and ip.eq(e.before[2], Num(0)) for e in sk)
    ctx.check(ok, f"{prefix}.WALK-STEP", site,
              f"each step skips exactly {full.text()} bytes from the end of a header (shape taken from that header)",
              f"skips are {[e.amount.text() for e in sk]} from {[e.before for e in sk]}; a FAB is {full.text()} bytes",
              where=loc(fi, sk[0].node) if sk else None)
    bh = res.events("build-header")
    ok = len(bh) == 1 and bh[0].hdr.idx_prov == "level" and bh[0].hdr.idx_src == "args['indices'][1 + #i0]" \
        and bh[0].hdr.ncomp.text() == "args['nfields']"
    ctx.check(ok, f"{prefix}.EXPECTED-HEADER", site,
              "expected next header = canonical header of the next box's level-header indices with the plotfile's "
              "field count",
              f"expected header built from {[(b.hdr.idx_src, b.hdr.ncomp.text()) for b in bh]} "
              f"(needs indices[i+1], nfields)", where=loc(fi, bh[0].node) if bh else None)
    # loop covers all boxes but the last
    loops = [n for n in walk_no_nested(fi.node) if isinstance(n, ast.For)]
    ok = len(loops) == 1 and norm(loops[0].iter) == "enumerate(args['box_ids'][:-1])"
    ctx.check(ok, f"{prefix}.WALK-COVERAGE", site, "the loop visits every box of the file but the last",
              f"loop iterates {[norm(l.iter) for l in loops]} (needs all boxes but the last; the last is checked "
              f"against end of file)", where=loc(fi, loops[0]) if loops else None)
    # comparisons
    hdr_cmp, eof_cmp = False, False
    for p in res.paths:
        if p.ret is None or isinstance(p.ret, NoneV) or not p.conds:
            continue
        cond, pol, cmps = p.conds[-1]
        for (op, a, b, node) in cmps:
            if op == "NotEq" and pol is True:
                if isinstance(a, HdrV) and isinstance(b, HdrV) and {a.source, b.source} == {"read", "built"} \
                        and a.kind == b.kind == "bytes":
                    hdr_cmp = True
                ta, tb = a.text(), b.text()
                if {ta, tb} == {f"tell(data+{full.text()})", "EOF"}:
                    eof_cmp = True
    ctx.check(hdr_cmp, f"{prefix}.CHECKED-PAIRS", site,
              "the line found after a FAB's data is compared (!=, bytes) with the expected next header",
              "the line after a FAB's data is not compared exactly with the expected next header",
              key="next-header", where=loc(fi, fi.node))
    ctx.check(eof_cmp, f"{prefix}.CHECKED-PAIRS", site,
              "the position after the last FAB's data is compared (!=) with the end of file",
              "the end of the last FAB is not compared exactly (!=) with the end of file: a truncated or extended "
              "last box is accepted", key="eof", where=loc(fi, fi.node))
    none_paths = [p for p in res.paths if p.ret is None or isinstance(p.ret, NoneV)]
    ok = bool(none_paths) and all(all(pol is False for _, pol, _ in p.conds) for p in none_paths)
    ctx.check(ok, f"{prefix}.ACCEPT-PATH", site, "the accepting path passes every comparison",
              "a path returns None (accept) with a failed comparison")
    return res


# ---------------------------------------------------------------------------
# CO-SORT / per-file task builders
# ---------------------------------------------------------------------------
def task_builder(ctx, prefix, qual, want):
    """taste_binary_headers / taste_binary_shape: per unique file, tables selected by the same mask and permuted
    by argsort of that file's offsets.  want: task key -> role in {file, offsets_sorted, indices_sorted, ids_sorted,
    nfields, lv}"""
    prog = ctx.prog
    fi = prog.func(TT, qual, prefix)
    site = fi.site
    pls = pools.perfile_loops(fi)
    ctx.check(len(pls) == 1 and pls[0].table == "self.cells[lv]['files']", f"{prefix}.P5b", site,
              "tasks are built per np.unique(files) of the level's own table (each file once)",
              f"per-file loops: {[(p.table) for p in pls]}; every file of self.cells[lv]['files'] must be visited "
              f"exactly once", where=loc(fi, fi.node))
    if len(pls) != 1:
        return
    pl = pls[0]
    env = _seq_env([n for n in walk_no_nested(fi.node) if isinstance(n, ast.Assign)])
    d = None
    for n in ast.walk(pl.loop):
        if isinstance(n, ast.Dict):
            d = n
    if d is None:
        raise AnalysisError(f"{prefix}.CO-SORT", site, "no task dict in the per-file loop")
    got = {}
    for k, v in zip(d.keys, d.values):
        got[k.value] = _sem(v, env, pl.var, d.lineno)
    mask = f"MASK({pl.table}=={pl.var})"
    offs = f"SEL(self.cells[lv]['offsets'],{mask})"
    order = f"ARGSORT({offs})"
    ids = f"SEL(ARANGE(len(self.cells[lv]['indexes'])),{mask})"
    exp = {
        "file": pl.var,
        "offsets_sorted": {f"SORT({offs})", f"SEL({offs},{order})"},
        "indices_sorted": {f"SEL(SEL(self.cells[lv]['indexes'],{mask}),{order})",
                           f"SEL(self.cells[lv]['indexes'],SEL({ids},{order}))"},
        "ids_sorted": {f"SEL({ids},{order})"},
        "nfields": "len(self.fields)",
        "lv": "lv",
    }
    for key, role in want.items():
        g = got.get(key)
        e = exp[role]
        ok = (g in e) if isinstance(e, set) else (g == e)
        ctx.check(ok, f"{prefix}.CO-SORT", site,
                  f"task['{key}'] = {role}: selected by the file's mask and ordered by that file's ascending offsets",
                  f"task['{key}'] is {g}; expected {sorted(e) if isinstance(e, set) else e}: the per-file tables "
                  f"must be selected by the same mask and permuted by the same argsort(offsets)",
                  key=key, where=loc(fi, d), objects={"got": g})


def _seq_env(stmts):
    """sequential environment (later assignments see earlier ones): name -> list of (stmt, value) in order"""
    env = {}
    for s in sorted(stmts, key=lambda x: x.lineno):
        if isinstance(s, ast.Assign) and len(s.targets) == 1 and isinstance(s.targets[0], ast.Name):
            env.setdefault(s.targets[0].id, []).append(s)
    return env


class _BulletSubst(ast.NodeTransformer):
    def __init__(self, name):
        self.name = name

    def visit_Name(self, n):
        if n.id == self.name:
            return ast.copy_location(ast.Name(id="__BULLET__", ctx=n.ctx), n)
        return n


def _sem(node, env, filevar, at=None, depth=0):
    """semantic normal form of per-file table expressions (selection / argsort / sort algebra)"""
    if depth > 30:
        return "?"
    if isinstance(node, ast.Name):
        defs = env.get(node.id, [])
        if at is not None:
            defs = [d for d in defs if d.lineno < at]
        if defs:
            d = defs[-1]
            return _sem(d.value, env, filevar, d.lineno, depth + 1)
        return node.id
    if isinstance(node, ast.Call):
        fn = norm(node.func)
        if fn in ("np.array", "np.asarray") and node.args:
            return _sem(node.args[0], env, filevar, at, depth + 1)
        if fn == "np.argsort" and node.args:
            return f"ARGSORT({_sem(node.args[0], env, filevar, at, depth + 1)})"
        if fn == "np.sort" and node.args:
            return f"SORT({_sem(node.args[0], env, filevar, at, depth + 1)})"
        if fn == "np.arange" and node.args:
            return f"ARANGE({_sem(node.args[0], env, filevar, at, depth + 1)})"
        if fn == "len" and node.args:
            return f"len({_sem(node.args[0], env, filevar, at, depth + 1)})"
        if fn in ("np.flatnonzero",) and node.args:
            return f"FLATNONZERO({_sem(node.args[0], env, filevar, at, depth + 1)})"
        return norm(node)
    if isinstance(node, ast.Subscript):
        base = _sem(node.value, env, filevar, at, depth + 1)
        sl = node.slice
        if isinstance(sl, ast.Constant) or (isinstance(sl, ast.Name) and sl.id in ("lv", "level")):
            return f"{base}[{norm(sl)}]"
        return f"SEL({base},{_sem(sl, env, filevar, at, depth + 1)})"
    if isinstance(node, ast.ListComp) and len(node.generators) == 1 and not node.generators[0].ifs \
            and isinstance(node.generators[0].target, ast.Name):
        # [E(x) for x in S]  ->  MAP(E(•), S): element i of the result is a function of element i of S only
        g = node.generators[0]
        x = g.target.id
        body = norm(_BulletSubst(x).visit(copy.deepcopy(node.elt)))
        if body == "__BULLET__":
            return _sem(g.iter, env, filevar, at, depth + 1)
        return f"MAP({body.replace('__BULLET__', '•')},{_sem(g.iter, env, filevar, at, depth + 1)})"
    if isinstance(node, ast.BinOp) and isinstance(node.op, ast.Mult):
        # [e] * n: the same element for every position
        for a, b in ((node.left, node.right), (node.right, node.left)):
            if isinstance(a, ast.List) and len(a.elts) == 1:
                return f"REP({_sem(a.elts[0], env, filevar, at, depth + 1)},{_sem(b, env, filevar, at, depth + 1)})"
    if isinstance(node, ast.Compare) and len(node.ops) == 1 and isinstance(node.ops[0], ast.Eq):
        a = _sem(node.left, env, filevar, at, depth + 1)
        b = _sem(node.comparators[0], env, filevar, at, depth + 1)
        if a == filevar:
            a, b = b, a
        return f"MASK({a}=={b})"
    return norm(node)


def cli_wiring(ctx, prefix):
    """E7: every option of the `taste` command reaches the Taster parameter of the same meaning with the right
    polarity — the defaults of the command line are the defaults of the API ("default validation")"""
    from vk import wiring
    prog = ctx.prog
    cli = prog.func("amr_kitchen/taste/cli.py", "main", prefix)
    opts = wiring.cli_options(cli)
    call, b = wiring.call_bindings(prog, cli, lambda t: t == "Taster")
    if call is None:
        raise AnalysisError(f"{prefix}.WIRING", cli.site, "Taster(...) call not found")
    for param, dest, pol in (("limit_level", "limit_level", None), ("binary_headers", "no_bin_headers", "store_false"),
                             ("binary_shape", "no_bin_shape", "store_false"), ("binary_data", "bin_data", "store_true"),
                             ("boxes_coordinates", "box_coords", "store_true"), ("nofail", "nofail", "store_true"),
                             ("plt_file", "plotfile", None)):
        wiring.rule_wired(ctx, f"{prefix}.WIRING", cli, b, param, dest, opts, pol)
