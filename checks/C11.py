"""C11 — chef writes recipe(box) under the right names with true min/max."""
import ast

from vk import fabio, pools, rules, formulas, wiring, grammar
from vk.fabio import Num, N, D, Roles, Ratio, ArrV, MinMaxV, ListAcc, Tup
from vk.model import norm, loc, AnalysisError, walk_no_nested, call_name, parents
from checks import writers, headers, taskmaps, C13
from checks.headers import joined

P = "C11"
CH = "amr_kitchen/chef/chef.py"
# knife -> (rank of the recipe result, selector of the new components)
KNIVES = {"chefs_knife_single_field": (3, None), "chefs_knife_byspecies_field": (4, "args['sp_indexes']"),
          "chefs_knife_byreaction_field": (4, "args['rx_indexes']"), "chefs_knife_user_sarray": (None, None),
          "chefs_knife_user_pfile": (None, None)}


def root_of(a):
    while getattr(a, "base", None) is not None:
        a = a.base
    return a


def knife_rules(ctx, fi, rank, newsel):
    roles = Roles()
    roles.sel_kinds = {"args['ids_keep']": "list", "args['sp_indexes']": "list", "args['rx_indexes']": "list",
                       "args['id_temp']": "single"}
    roles.new_data = {"__getattribute__": rank, "args['recipe']": rank}
    res = fabio.analyse(ctx.prog, fi, roles, P)
    fabio.report_generic(ctx, res, P)
    ip = res.interp
    site = fi.site
    ffs = {id(e): e for e in res.events("fromfile")}.values()
    full = fabio.C("", 3).r * N("").r
    for ff in ffs:
        ok = ff.count is not None and ip.eq(ff.arr.win_lo, Num(0)) and ip.eq(ff.count, Num(full))
        ctx.check(ok, f"{P}.WINDOW", site, "the whole FAB is read", "read window is not the whole FAB",
                  where=loc(fi, ff.node))
    sk = res.events("seek_abs")
    if not sk:
        ctx.ok(f"{P}.SCAN", site, "sequential scan of the input file")
    else:
        # P6 (access kind <-> map order), decided on interpreter events: a knife that seeks to offsets handed in its
        # task returns its results in the order of that offsets list; cook()'s scatter map pairs the k-th result of a
        # file with the k-th box in ascending offset order (map_and_tasks, sorted_by_offsets) - right for a sequential
        # scan, and for a seek-addressed worker only when the offsets it is given are sorted the same way
        import re as _re
        keys = {m for s_ in sk for m in _re.findall(r"args\['([A-Za-z_0-9]+)'\]", s_.key)}
        ck_ = ctx.prog.func(CH, "Chef.cook", P)
        vals = [norm(v) for d in ast.walk(ck_.node) if isinstance(d, ast.Dict) for k, v in zip(d.keys, d.values)
                if isinstance(k, ast.Constant) and k.value in keys]
        sorted_in = bool(vals) and all(("argsort" in v or "np.sort(" in v or "sorted(" in v) for v in vals)
        ctx.decide(sorted_in, bool(keys), f"{P}.SCAN", site,
                   "seek-addressed worker fed offsets in ascending order (the order of the scatter map)",
                   f"the worker seeks to {[s_.key for s_ in sk]} and so returns its results in the order of that list "
                   f"({vals or 'not produced by cook()'}: Cell_H order), while cook() scatters the k-th result of a file to "
                   f"the k-th box in ascending OFFSET order (argsort map): for a file whose boxes are not stored in Cell_H "
                   f"order every offset and min/max row goes to another box of the file", key="p6-seek",
                   where=loc(fi, sk[0].node))

    def comps_ok(arr, path):
        cs = arr.comps or []
        txt = " ++ ".join(c.text() for c in cs)
        kept_on = any(c[0].startswith(("len(args['ids_keep']) > 0", "args['ids_keep'] != []")) and c[1] for c in path.conds)
        kept_known = any(c[0].startswith(("len(args['ids_keep']) > 0", "args['ids_keep'] != []")) for c in path.conds)
        new = cs[-1] if cs else None
        new_ok = new is not None and new.fab == "new" and (newsel is None and new.kind == "opaque" or
                                                          newsel is not None and new.kind == "list"
                                                          and new.a.text() == newsel)
        if kept_known and not kept_on:
            ok = len(cs) == 1 and new_ok
        else:
            ok = len(cs) == 2 and cs[0].kind == "list" and cs[0].fab == "" and cs[0].a.text() == "args['ids_keep']" \
                and new_ok
        return ok, f"kept input fields (ids_keep, in order) followed by the recipe's components: {txt}"

    def hdr_ok(hdr, path):
        return hdr.source == "read" and hdr.fab == "", f"the source FAB's own header line ({hdr.source})"
    n = writers.check_fab_writes(ctx, P, res, "args['newbfpath']", comps_ok, hdr_ok)
    ctx.floor(f"{fi.qualname} FAB write groups", n, 1)
    # min/max: computed from the array that is written, over the spatial axes
    for p in res.paths:
        if getattr(p, "from_handler", False):
            continue
        wr = [e for e in p.events if e.kind == "write" and isinstance(e.value, fabio.BytesV) and e.value.kind == "data"]
        mm = [e for e in p.events if e.kind == "append" and e.list in ("mins", "maxs")]
        if not wr:
            continue
        written = wr[-1].value.arr
        src = getattr(written, "src", written)
        for e in mm:
            v = e.value
            ok = isinstance(v, MinMaxV) and v.arr.aid == src.aid and v.which == ("min" if e.list == "mins" else "max") \
                and (v.axis or "").replace(" ", "") == "(0,1,2)"
            ctx.check(ok, f"{P}.MINMAX-SOURCE", site,
                      f"{e.list}: np.{'min' if e.list == 'mins' else 'max'} over axes (0,1,2) of exactly the array that "
                      f"is written", f"{e.list} entry is {v.text()[:100]}: not the {e.list[:-1]} over the spatial axes of "
                                     f"the written array {src.text()[:60]}", key=e.list + ":" + "|".join(
                          f"{c[0][:25]}={c[1]}" for c in p.conds if not c[0].startswith("except")),
                      where=loc(fi, e.node))
        ctx.check(len([e for e in mm if e.list == "mins"]) == 1 and len([e for e in mm if e.list == "maxs"]) == 1,
                  f"{P}.MINMAX-SOURCE", site, "one min row and one max row per FAB",
                  f"{len(mm)} min/max rows appended per FAB", key="rows")
        # VIEW-WRITE: no store through a view of the input array before the kept components are copied out of it
        base = None
        for e in p.events:
            if e.kind == "reshape":
                base = e.arr
        sel_kept = [i for i, e in enumerate(p.events) if e.kind == "select" and e.arr.has_comp_axis and e.arr.comps
                    and e.arr.comps[0].kind == "list" and e.arr.comps[0].a.text() == "args['ids_keep']"]
        stores = [(i, e) for i, e in enumerate(p.events) if e.kind == "store" and isinstance(e.base, ArrV)
                  and base is not None and root_of(e.base).aid == base.aid and getattr(e.base, "base", None) is not None]
        if sel_kept:
            bad = [e for i, e in stores if i < sel_kept[0]]
            ctx.check(not bad, f"{P}.VIEW-WRITE", site,
                      "the input array is not modified through a view before the kept fields are copied from it",
                      f"`{bad[0].target} = …` writes through a view of the box array before `arr[..., ids_keep]` is "
                      f"taken: a kept `temp` / `Y(...)` field is not bit-identical to the input where the clean-up "
                      f"applies (T≈0 -> 1, sum(Y)≈0 -> Y(O2)=1)" if bad else "",
                      key="view-store", where=loc(fi, bad[0].node) if bad else None)
    # returned tuple
    for e in res.events("return"):
        v = e.value
        ok = isinstance(v, Tup) and len(v.items) == 3 and isinstance(v.items[0], ListAcc) and v.items[0].name == "offsets"
        ctx.check(ok, f"{P}.RETURN", site, "returns (offsets, mins, maxs)", f"returns {v.text()[:80]}", where=loc(fi, e.node))
    return res


def names_rules(ctx):
    """COUNT / ORDER: len(outfields) = kept + new and names are in data order [kept..., new...] on every recipe branch"""
    fi = ctx.prog.func(CH, "Chef.__init__", P)
    site = fi.site
    # locate the recipe dispatch chain
    chain = None
    for n in fi.node.body:
        if isinstance(n, ast.If) and "recipe" in norm(n.test) and "'py'" in norm(n.test):
            chain = n
    if chain is None:
        raise AnalysisError(f"{P}.COUNT", site, "recipe dispatch chain not found")
    branches = []
    cur = chain
    while True:
        branches.append((norm(cur.test), cur.body))
        if len(cur.orelse) == 1 and isinstance(cur.orelse[0], ast.If):
            cur = cur.orelse[0]
        else:
            break
    after = fi.node.body[fi.node.body.index(chain) + 1:]
    post = [norm(s) for s in after]
    # a uniform post-step that prepends the kept names?
    # a uniform post-step `self.outfields = <kept names in ids_keep order> + self.outfields`
    env_i = rules.local_env(fi.node)
    uniform, kept_form = False, None
    for st in after:
        if isinstance(st, ast.Assign) and norm(st.targets[0]) == "self.outfields" and isinstance(st.value, ast.BinOp) \
                and isinstance(st.value.op, ast.Add) and norm(st.value.right) == "self.outfields":
            left = st.value.left
            if isinstance(left, ast.Name) and env_i.get(left.id) is not None:
                left = env_i[left.id]
            kept_form = norm(left)
            lc = left
            ok_lc = isinstance(lc, ast.ListComp) and len(lc.generators) == 1 and not lc.generators[0].ifs and \
                norm(lc.generators[0].iter) == "self.ids_keep" and isinstance(lc.generators[0].target, ast.Name) and \
                norm(lc.elt) in (f"list(self.fields.keys())[{lc.generators[0].target.id}]",
                                 f"list(self.fields)[{lc.generators[0].target.id}]")
            uniform = True
            ctx.check(ok_lc, f"{P}.ORDER", site,
                      "kept names = the name of each index of ids_keep, in ids_keep order (the order the knives write "
                      "the kept components)",
                      f"the kept names are `{kept_form[:90]}`: not the names of ids_keep *in ids_keep order* — the knives "
                      f"write kept components in the requested order, so with two kept fields requested out of Header "
                      f"order each is stored under the other's name", key="kept-names-order", where=loc(fi, st))

    def leaves(stmts, cond):
        """(condition text, statements) for each innermost branch that assigns a knife"""
        out = []
        direct = [s for s in stmts if not isinstance(s, ast.If)]
        ifs = [s for s in stmts if isinstance(s, ast.If)]
        knife_here = any(isinstance(s, ast.Assign) and norm(s.targets[0]) == "self.knife" for s in direct)
        if knife_here or not ifs:
            out.append((cond, stmts))
            return out
        for i in ifs:
            c = i
            while True:
                inner = leaves(c.body, cond + " & " + norm(c.test))
                if any(any(isinstance(x, ast.Assign) and norm(x.targets[0]) == "self.knife" for x in ast.walk(ast.Module(body=b, type_ignores=[]))) for _, b in inner):
                    out += [(cc, direct + b) for cc, b in inner]
                if len(c.orelse) == 1 and isinstance(c.orelse[0], ast.If):
                    c = c.orelse[0]
                elif c.orelse:
                    inner = leaves(c.orelse, cond + " & not " + norm(c.test))
                    out += [(cc, direct + b) for cc, b in inner]
                    break
                else:
                    break
        return out
    n = 0
    for test, body in branches:
        if rules.always_raises(body):
            continue
        for cond, stmts in leaves(body, test):
            flat = [x for s in stmts for x in ast.walk(s)]
            assigns = [x for x in flat if isinstance(x, ast.Assign)]
            knives = [norm(a.value) for a in assigns if norm(a.targets[0]) == "self.knife"]
            if not knives:
                continue
            n += 1
            sets = [a for a in assigns if norm(a.targets[0]) == "self.outfields" or
                    (isinstance(a.targets[0], ast.Tuple) and "self.outfields" in [norm(e) for e in a.targets[0].elts])]
            key = cond[:70]
            ctx.check(bool(sets), f"{P}.COUNT", site, f"[{key}] output field names are defined",
                      f"[{key}] selects {sorted(set(knives))} but never assigns self.outfields (AttributeError in "
                      f"write_global_header / cook)", key="defined:" + key, where=loc(fi, stmts[0]))
            if not sets:
                continue
            # kept names present, and placed before the new names
            appends = [x for x in flat if isinstance(x, ast.Call) and norm(x.func) == "self.outfields.append"]
            kept_appended = any("self.fields" in norm(a) and "fid" in norm(a) for a in appends)
            has_kept = uniform or kept_appended
            ctx.check(has_kept, f"{P}.COUNT", site,
                      f"[{key}] the names list contains the kept fields (header count = kept + new = components "
                      f"written by the knife)",
                      f"[{key}] self.outfields holds only the new names: with --kept_fields the Header announces "
                      f"fewer fields than the knife writes per FAB (level headers/min-max rows disagree with the data)",
                      key="kept-names:" + key, where=loc(fi, sets[0]))
            if has_kept:
                ctx.check(uniform and not kept_appended, f"{P}.ORDER", site,
                          f"[{key}] names are ordered like the data: kept fields first, then the new fields",
                          f"[{key}] kept names are appended *after* the new names, but every knife writes the kept "
                          f"components *first*: each component is stored under another field's name",
                          key="order:" + key, where=loc(fi, sets[0]))
    ctx.floor("recipe branches that select a knife", n, 5)
    # kept ids: fields[f] for the requested names in order
    ok = False
    for s in walk_no_nested(fi.node):
        if isinstance(s, ast.For) and norm(s.iter) in ("kept_fields", "kept_fields.split()"):
            t = [x for x in s.body if isinstance(x, ast.Try)]
            if t and [norm(b) for b in t[0].body] == [f"self.ids_keep.append(self.fields[{norm(s.target)}])"]:
                ok = True
            # the same selection written as a membership test (a missing name is skipped either way)
            g = [x for x in s.body if isinstance(x, ast.If) and norm(x.test) == f"{norm(s.target)} in self.fields" and not x.orelse]
            if g and [norm(b) for b in g[0].body] == [f"self.ids_keep.append(self.fields[{norm(s.target)}])"]:
                ok = True
        if isinstance(s, ast.Assign) and norm(s.targets[0]) == "self.ids_keep" and isinstance(s.value, ast.ListComp) and \
                rules.norm_comp(s.value) in ("[self.fields[v0] for v0 in kept_fields if v0 in self.fields]",
                                             "[self.fields[v0] for v0 in kept_fields.split() if v0 in self.fields]"):
            ok = True
    ctx.check(ok, f"{P}.ORDER", site, "ids_keep = header indices of the requested kept fields, in requested order",
              "ids_keep is not built as fields[f] over the requested names in order", key="ids_keep")
    return fi


def index_space_rule(ctx, ini):
    """INDEX-SPACE: a task value a knife uses to index the *species slab* (the array cut as
    arr[..., sp_start:sp_end]) counts species from the first species — it must be produced as a Cantera species index;
    one it uses on the last axis of the whole FAB counts fields of the Header — it must come from the field table.
    The two numberings differ by sp_start (and by whatever fields precede the species)."""
    prog = ctx.prog
    uses = {}       # task key -> {"species", "field"}
    for k in KNIVES:
        w = prog.func(CH, k, P)
        slabs, full = set(), set()
        for n in walk_no_nested(w.node):
            if isinstance(n, ast.Assign) and isinstance(n.targets[0], ast.Name):
                t = norm(n.value)
                if "args['sp_start']:args['sp_end']" in t:
                    slabs.add(n.targets[0].id)
                elif ".reshape(" in t and "order='F'" in t:
                    full.add(n.targets[0].id)
        for n in walk_no_nested(w.node):
            if isinstance(n, ast.Subscript) and isinstance(n.value, ast.Name) and isinstance(n.slice, ast.Tuple) and n.slice.elts:
                last = n.slice.elts[-1]
                if isinstance(last, ast.Subscript) and norm(last.value) == "args" and isinstance(last.slice, ast.Constant):
                    key = last.slice.value
                    if n.value.id in slabs:
                        uses.setdefault(key, set()).add("species")
                    elif n.value.id in full:
                        uses.setdefault(key, set()).add("field")
    prod = {}
    for n in walk_no_nested(ini.node):
        if isinstance(n, ast.Assign) and isinstance(n.targets[0], ast.Attribute) and norm(n.targets[0].value) == "self" and \
                not (isinstance(n.value, ast.Constant) and n.value.value is None):
            t = norm(n.value)
            if isinstance(n.value, (ast.List, ast.Tuple)) and not n.value.elts:
                continue        # an empty selection has no numbering
            kind = "species" if "species_index(" in t else "field" if "self.fields[" in t else None
            prod.setdefault(n.targets[0].attr, []).append((kind, t, n))
    n_inst = 0
    for key, spaces in sorted(uses.items()):
        for kind, t, node in prod.get(key, []):
            n_inst += 1
            want = sorted(spaces)[0] if len(spaces) == 1 else None
            ctx.decide(kind is not None and kind == want, kind is not None and want is not None, f"{P}.INDEX-SPACE", ini.site,
                       f"task value `{key}` indexes the {want} numbering in the knives and is produced in it",
                       f"`self.{key} = {t}` is a {kind} index, but the knives use args['{key}'] on the "
                       f"{'species slab arr[..., sp_start:sp_end]' if want == 'species' else 'whole FAB'} — a {want} index: "
                       f"the two numberings differ by the fields that precede the species block", key=key,
                       where=loc(ini, node))
    ctx.floor("index-space pairings (task value used as an array index <-> its producer)", n_inst, 2)


def run(ctx):
    prog = ctx.prog
    for k, (rank, sel) in KNIVES.items():
        knife_rules(ctx, prog.func(CH, k, P), rank, sel)
    names_rules(ctx)
    # dispatch: which knife for which recipe kind (the rank assumption of the role table)
    ini = prog.func(CH, "Chef.__init__", P)
    stored = {f.qualname for f in prog.attr_functions(prog.cls(CH, "Chef"), "knife")}
    ctx.check(stored == set(KNIVES), f"{P}.DISPATCH", ini.site, "the knife is one of the five analysed workers",
              f"self.knife can be {sorted(stored)}; analysed: {sorted(KNIVES)}")
    # cook --------------------------------------------------------------------------------------
    ck = prog.func(CH, "Chef.cook", P)
    pl = taskmaps.map_and_tasks(ctx, P, ck, "self.cells[lv]['files']", "len(self.cells[lv]['files'])",
                                "self.cells[lv]['offsets']", "box_index_map", "mp_calls", sorted_by_offsets=True)
    sites = pools.find_sites(prog, ck)
    par = [s for s in sites if s.pool_kind not in ("builtin-map", "serial-loop")]
    ser = [s for s in sites if s.pool_kind in ("builtin-map", "serial-loop")]
    ctx.check(len(par) == 1 and len(ser) == 1, f"{P}.P8", ck.site, "one parallel site and one serial twin",
              f"{len(par)} parallel / {len(ser)} serial sites")
    for s in sites:
        pools.rule_P1(ctx, P, s)
        pools.rule_P2(ctx, P, prog, s)
        pools.rule_X2(ctx, P, s)
        pools.rule_P3(ctx, P, prog, s)
        ctx.check(norm(s.worker_expr) == "self.knife" and norm(s.task) == "mp_calls", f"{P}.P8", ck.site,
                  f"{s.pool_kind}: applies self.knife to mp_calls in order",
                  f"{s.pool_kind}: applies {norm(s.worker_expr)} to {norm(s.task)}", key=s.pool_kind)
    pools.rule_P7(ctx, P, prog, ck)
    pools.rule_P3_full_state(ctx, P, prog)
    pools.rule_P3_module_ref(ctx, P, prog, [CH])
    if pl is not None:
        d = next((n for n in ast.walk(pl.loop) if isinstance(n, ast.Dict)), None)
        taskmaps.task_value_rule(ctx, P, ck, d, pl.var, {
            "bfpath": pl.var, "ids_keep": "self.ids_keep", "field_indexes": "self.fields", "recipe": "self.recipe",
            "sp_indexes": "self.sp_indexes", "rx_indexes": "self.rx_indexes", "id_temp": "self.id_temp",
            "sp_start": "self.sp_start", "sp_end": "self.sp_end", "idx_O2": "self.idx_O2"})
        index_space_rule(ctx, ini)
        nb = None
        for n in ast.walk(pl.loop):
            if isinstance(n, ast.Assign) and norm(n.targets[0]) == "newbfpath":
                nb = n.value
        ok = nb is not None and norm(nb) == f"os.path.join(self.outdir, self.cell_paths[lv], os.path.basename({pl.var}))"
        ctx.check(ok, f"{P}.P4", ck.site, "output file = <outdir>/<level dir>/<file name>: distinct per (level, file)",
                  f"newbfpath is {norm(nb) if nb is not None else None}", key="newbfpath")
    taskmaps.scatter_rule(ctx, P, ck, "box_index_map", "output",
                          {"mapped_offsets": ("IDX", "RES[0]"), "mapped_mins": ("(IDX, :)", "RES[1]"),
                           "mapped_maxs": ("(IDX, :)", "RES[2]")}, "len(self.boxes[lv])")
    for nme in ("mapped_mins", "mapped_maxs"):
        a = formulas.find_assign(ck, nme)
        ok = a is not None and norm(a.value.args[0]) == "(len(self.boxes[lv]), len(self.outfields))"
        ctx.check(ok, f"{P}.COUNT", ck.site, f"{nme} has one column per output field name",
                  f"{nme} allocated as {norm(a.value) if a else None}", key=nme)
    calls = [norm(c) for c in ast.walk(ck.node) if isinstance(c, ast.Call) and norm(c.func).startswith("self.")]
    ok = "self.make_dir_tree(self.outdir)" in calls and "self.write_global_header()" in calls and any(
        c.startswith("self.update_cell_header(lv, os.path.join(self.pfile, self.cell_paths[lv], 'Cell_H'), "
                     "mapped_offsets, mapped_mins, mapped_maxs)") for c in calls)
    ctx.check(ok, f"{P}.SEQUENCE", ck.site, "tree, global header, per-level header with mapped offsets/mins/maxs",
              f"cook() calls {calls}")
    formulas.rule_level_range(ctx, f"{P}.LEVEL-RANGE", ck)
    # headers --------------------------------------------------------------------------------------
    gh = prog.func(CH, "Chef.write_global_header", P)
    items, _ = grammar.writer_grammar(prog, gh, nl_attrs={"self.version", "self.sys_coord"})
    L = "self.limit_level"
    o = dict(version="self.version", ncount="len(self.outfields)", names_count="len(self.outfields)",
             namevar="v", names_over="self.outfields", ndims="self.ndims", time="self.time", levels=L, lv="lv",
             geo_low=joined("self.geo_low"), geo_high=joined("self.geo_high"),
             ref_ratio=joined({f"self.factors[:{L} + 1]", f"self.factors[:{L}]", "BLANK"}, elem_exact=False),
             domain=lambda line: len(line.tokens) == 1 and headers.join_of(line.tokens[0]) is not None and
             headers.join_of(line.tokens[0])[3] == f"range:1 + {L}",
             steps=joined(f"self.step_numbers[:{L} + 1]", elem_exact=False),
             dx=joined("self.dx[lv]"), coord="self.sys_coord", level_step="self.step_numbers[lv]",
             boxes_count="len(self.boxes[lv])", boxvar="box", box_lo_hi=("box[d][0]", "box[d][1]"),
             boxes_iter="len(self.boxes[lv])", ndims_iter="self.ndims")
    headers.match_writer(ctx, f"{P}.H-WRITE", gh, items, headers.global_header_oracle(o))
    headers.domain_tuple_rule(ctx, f"{P}.H-WRITE", gh)
    formulas.rule_level_range(ctx, f"{P}.LEVEL-RANGE", gh)
    uc = prog.func(CH, "Chef.update_cell_header", P)
    headers.rewriter_rules(ctx, P, uc, "len(self.outfields)", "new_offsets", minmax_rules)
    cli = prog.func("amr_kitchen/chef/cli.py", "main", P)
    opts = wiring.cli_options(cli)
    call, b = wiring.call_bindings(prog, cli, lambda t: t == "Chef")
    for param, dest in (("plotfile", "plotfile"), ("outfile", "outdir"), ("recipe", "recipe"), ("species", "species"),
                        ("reactions", "reactions"), ("mech", "mech"), ("pressure", "pressure"),
                        ("kept_fields", "kept_fields")):
        wiring.rule_wired(ctx, f"{P}.WIRING", cli, b, param, dest, opts)
    C13.sink_rules(ctx, P, modules={CH})
    ctx.assume("HRR/ENT attributes are scalar fields on the box grid (rank 3); SRi/SDi/RRi are per-species/per-reaction "
               "(rank 4); user recipes are tested by the knife (len(shape) < 4)")
    ctx.assume("a recipe returns an array on the box's own grid")
    return ("Static: abstract interpretation of the five knives (scan advance = whole FAB, whole-FAB window, header "
            "count = kept + new components written on every path, rank agreement of the concatenation, [kept ++ new] "
            "component order, offset capture, min/max taken over the spatial axes of exactly the written array, no "
            "store through a view of the input before the kept fields are copied); names list defined, counted and "
            "ordered like the data on every recipe branch; per-file tasks with offset-sorted scatter map; ordered "
            "pathos imap with serial twin; worker globals vs persistent pool; header writer grammars. Decides "
            "structural clauses of DESIGN §4.C11, not Cantera values.",
            ["vk/fabio.py", "vk/pools.py", "vk/grammar.py", "pathos ProcessingPool caching semantics (encoded)"])


def minmax_rules(ctx, rule, fi, rest, desc):
    """blank copied; `ncells,nout`; one row per new_mins entry (str of each value); blank; `ncells,nout`; rows of
    new_maxs"""
    site = fi.site
    seq = []
    for it in rest:
        if isinstance(it, grammar.Line):
            seq.append("copy" if it.copy_of else ("read" if it.tokens is None else "write:" + it.show()))
        elif isinstance(it, grammar.Repeat):
            seq.append(f"rep:{it.count}:" + ",".join("read" if (isinstance(b, grammar.Line) and b.tokens is None)
                                                     else "write:" + b.show() for b in it.body))
    nout = "len(self.outfields)"
    hdr = f"write:W[{{ncells}},{{{nout}}}]"
    exp = ["copy", "read", hdr, "rep:len(new_mins):write:W[<join ',' {elem} over min_vals>,]",
           "write:W[]", hdr, "rep:len(new_maxs):write:W[<join ',' {elem} over max_vals>,]"]
    got = seq
    conv = sorted(norm(n) for n in walk_no_nested(fi.node) if isinstance(n, ast.Assign)
                  and norm(n.targets[0]) in ("min_vals", "max_vals"))
    import re as _re
    conv_c = sorted(f"{norm(n.targets[0])} = {rules.norm_comp(n.value)}" for n in walk_no_nested(fi.node)
                    if isinstance(n, ast.Assign) and norm(n.targets[0]) in ("min_vals", "max_vals"))
    # the rows are joined from str() of every value: converted beforehand, or as a bare `{v}` element of the join
    inline = [x for x in got if _re.fullmatch(r"rep:len\(new_(mins|maxs)\):write:W\[<join ',' \{\w+\} over (min|max)_vals>,\]", x)]
    fmt_ok = conv_c == ["max_vals = [f'{v0}' for v0 in max_vals]", "min_vals = [f'{v0}' for v0 in min_vals]"] or \
        (not conv_c and len(inline) == 2)
    ctx.check(fmt_ok, f"{rule}.FMT-EXACT", site, "min/max values are formatted with str() (round-trip exact)",
              f"min/max values are formatted by {conv or inline}", key="minmax-format")
    got = [_re.sub(r"<join ',' \{\w+\} over ((min|max)_vals)>", r"<join ',' {elem} over \1>", x) for x in got]
    ctx.check(got == exp, f"{rule}.H-COPY", site,
              "min/max tables: `ncells,nout` then one comma-terminated row per box from new_mins / new_maxs, values "
              "formatted with str() (round-trip exact)",
              f"min/max part is {got}; expected {exp}", key="minmax", where=loc(fi, fi.node))
