"""C16 — mandoline's plotfile-format slice is a valid 2D plotfile of the plane data."""
import ast

from vk import rules, formulas, grammar
from vk.formulas import A
from vk.model import norm, loc, AnalysisError, walk_no_nested, parents, enclosing
from vk.rules import local_env
from checks import headers, hfab, C13
from checks.headers import Spec, one_ph, literal, tokens_ph, level_path, join_of, joined
from checks.hfab import SEval, SBytes, Unknown, canonical

P = "C16"
MA = "amr_kitchen/mandoline/mandoline.py"


def alias_rule(ctx, fi, names):
    """ALIAS-REP: a list built by repeating one mutable object and later stored through"""
    env = {}
    for n in walk_no_nested(fi.node):
        if isinstance(n, ast.Assign) and len(n.targets) == 1 and isinstance(n.targets[0], ast.Name):
            env.setdefault(n.targets[0].id, []).append(n.value)
    for nm in names:
        vals = env.get(nm, [])
        if len(vals) != 1:
            raise AnalysisError(f"{P}.ALIAS-REP", fi.site, f"accumulator `{nm}` is not assigned exactly once")
        v = vals[0]
        shared = None
        if isinstance(v, ast.ListComp):
            elt = v.elt
            if isinstance(elt, ast.Name) and elt.id not in {x.id for g in v.generators for x in ast.walk(g.target)
                                                            if isinstance(x, ast.Name)}:
                src = env.get(elt.id, [None])[0]
                if isinstance(src, (ast.Dict, ast.List, ast.Call, ast.ListComp)):
                    shared = elt.id
        elif isinstance(v, ast.BinOp) and isinstance(v.op, ast.Mult) and isinstance(v.left, ast.List) and \
                any(isinstance(e, (ast.Name, ast.Dict, ast.List)) for e in v.left.elts):
            shared = norm(v.left)
        ctx.check(shared is None, f"{P}.ALIAS-REP", fi.site,
                  f"`{nm}` holds one distinct accumulator per level",
                  f"`{nm} = {norm(v)[:60]}` repeats the single object `{shared}` for every level: all levels (and both "
                  f"sides when built from the same object) share one set of arrays, so no per-level interpolation "
                  f"happens and coarse levels receive the finest level's data", key=nm, where=loc(fi, v))
    # left and right must not alias each other either
    l, r = env.get(names[0], [None])[0], env.get(names[1], [None])[0]
    if isinstance(l, ast.ListComp) and isinstance(r, ast.ListComp) and isinstance(l.elt, ast.Name) and \
            isinstance(r.elt, ast.Name) and l.elt.id == r.elt.id:
        src = env.get(l.elt.id, [None])[0]
        ctx.check(not isinstance(src, (ast.Dict, ast.List)), f"{P}.ALIAS-REP", fi.site, "left and right are distinct",
                  "left and right repeat the same object", key="left-right")


def bylevel_rules(ctx):
    fi = ctx.prog.func(MA, "Mandoline.interpolate_bylevel", P)
    site = fi.site
    alias_rule(ctx, fi, ["left", "right"])
    # per-level stores
    lv = [n for n in fi.node.body if isinstance(n, ast.For) and norm(n.iter) == "range(self.limit_level + 1)"]
    ctx.check(len(lv) == 2, f"{P}.LEVEL-RANGE", site, "collection loop and interpolation loop over all levels",
              f"{len(lv)} level loops")
    stores = {}
    for n in ast.walk(lv[0]) if lv else []:
        if isinstance(n, ast.Assign) and isinstance(n.targets[0], ast.Subscript):
            stores[norm(n.targets[0])] = norm(n.value)
    want = {"left[lv]['data'][i][xa:xo, ya:yo]": "out['data'][i]", "left[lv]['normal'][xa:xo, ya:yo]": "out['normal']",
            "right[lv]['data'][i][xa:xo, ya:yo]": "out['data'][i]", "right[lv]['normal'][xa:xo, ya:yo]": "out['normal']"}
    ok = all(stores.get(k) == v for k, v in want.items())
    ctx.check(ok, f"{P}.LEVEL-COH", site, "each box result is stored into its own level's left/right planes",
              f"stores are { {k: v for k, v in stores.items() if 'left' in k or 'right' in k} }")
    inner = [n for n in (lv[0].body if lv else []) if isinstance(n, ast.For)]
    ctx.check(len(inner) == 1 and norm(inner[0].iter) == "plane_data[lv]", f"{P}.LEVEL-COH", site,
              "level lv's results come from plane_data[lv]", "inner loop changed", key="plane_data")
    # footprint once
    guard = None
    for n in ast.walk(lv[0]) if lv else []:
        if isinstance(n, ast.If) and isinstance(n.test, ast.Compare) and isinstance(n.test.ops[0], ast.NotIn):
            body = [norm(b) for b in n.body]
            if "lv_box_indexes.append(output[3])" in body and any(b.endswith(f".add({norm(n.test.left)})") for b in body):
                guard = n
    fp_ok = False
    if guard is not None:
        env = local_env(fi.node)
        fp = env.get(norm(guard.test.left))
        fp_ok = fp is not None and norm(fp).replace(" ", "") == \
            "(cidx[0][self.cx],cidx[0][self.cy],cidx[1][self.cx],cidx[1][self.cy])" and \
            norm(env.get("cidx")) == "self.cells[lv]['indexes'][output[3]]"
        resets = [n for n in lv[0].body if isinstance(n, ast.Assign) and norm(n.targets[0]) == norm(guard.test.comparators[0])]
        fp_ok = fp_ok and len(resets) == 1
    if guard is not None:
        # the guard limits the *listing* only: the planes of every box result are pasted whether or not its footprint
        # was listed already (the second of two boxes stacked along the normal carries the other side of the plane)
        pasted = [norm(t.targets[0])[:40] for t in ast.walk(guard) if isinstance(t, ast.Assign)
                  and isinstance(t.targets[0], ast.Subscript) and norm(t.targets[0]).startswith(("left[", "right["))]
        ctx.check(not pasted, f"{P}.FOOTPRINT-ONCE", site,
                  "the footprint guard covers the box listing only; every result's planes are pasted",
                  f"the footprint guard also skips pasting the result's planes ({pasted[:2]}): for two boxes stacked along "
                  f"the normal the second result (the other side of the plane) is dropped and the slice interpolates "
                  f"against uninitialised memory", key="guard-scope", where=loc(fi, guard), semantic=True)
    ctx.check(fp_ok, f"{P}.FOOTPRINT-ONCE", site,
              "a box id is listed for the level only if its in-plane index footprint was not listed yet (per level)",
              "every box result is listed: two boxes stacked along the normal (both read when the plane is next to their "
              "common face) give the same 2D footprint twice, i.e. overlapping boxes in the 2D plotfile",
              where=loc(fi, lv[0]) if lv else None)
    # interpolation per level
    e = {norm(t.targets[0]): t for t in walk_no_nested(fi.node) if isinstance(t, ast.Assign)}
    tgt = e.get("data[bint]")
    ienv = rules.local_env_at(fi.node, tgt.value if tgt else None)
    ienv["bint"] = None
    e = {norm(t.targets[0]): t for t in walk_no_nested(fi.node) if isinstance(t, ast.Assign)}
    L, R = A("left[lv]['data'][i][bint]"), A("right[lv]['data'][i][bint]")
    xl, xr, p = A("left[lv]['normal'][bint]"), A("right[lv]['normal'][bint]"), A("self.pos")
    tgt = e.get("data[bint]")
    formulas.formula_rule(ctx, f"{P}.INTERPOLATION", fi, tgt.value if tgt else None, (L * (xr - p) + R * (p - xl)) / (xr - xl),
                          (), "per-level linear interpolation onto the plane", "formula", ienv)
    ok = "bint" in e and norm(e["bint"].value) == "~np.isclose(left[lv]['normal'], right[lv]['normal'])" and \
        "data[~bint]" in e and norm(e["data[~bint]"].value) in ("right[lv]['data'][i][~bint]", "left[lv]['data'][i][~bint]")
    ctx.check(ok, f"{P}.EMPTY-COVER", site, "buffer assigned on the mask and on its complement",
              "per-level buffer is not assigned on both bint and ~bint", key="cover")
    aps = [norm(n) for n in walk_no_nested(fi.node) if isinstance(n, ast.Expr) and ".append(" in norm(n)]
    ok = "level_data.append(data)" in aps and "all_data.append(level_data)" in aps and \
        any(isinstance(n, ast.For) and rules.is_count_range(n.iter, "self.nfidxs", ("left[lv]['data']", "right[lv]['data']"))
            for n in ast.walk(lv[1])) if len(lv) == 2 else False
    ctx.check(ok, f"{P}.COUNT", site, "one array per field per level, in field order", f"appends are {aps}", key="arrays")
    rets = [norm(n.value) for n in walk_no_nested(fi.node) if isinstance(n, ast.Return)]
    ctx.check(rets == ["(all_data, box_indexes, box_headers)"], f"{P}.RETURN", site, "returns (data by level, box ids "
              "by level, headers)", f"returns {rets}")


def writer_rules(ctx):
    prog = ctx.prog
    fi = prog.func(MA, "Mandoline.write_cell_data_at_level", P)
    site = fi.site
    env = local_env(fi.node)
    I = lambda s: A(f"idxs{s}")
    fac = A(f"pow(2,{A('self.limit_level') - A('lv')})")
    for name, want, key in (("x_start", I("[0][self.cx]") * fac, "x0"), ("x_stop", (I("[1][self.cx]") + 1) * fac, "x1"),
                            ("y_start", I("[0][self.cy]") * fac, "y0"), ("y_stop", (I("[1][self.cy]") + 1) * fac, "y1")):
        a = formulas.find_assign(fi, name)
        formulas.formula_rule(ctx, f"{P}.SPAN", fi, a.value if a else None, want, (), f"footprint span {name}", key, env)
    d = [norm(n.value) for n in walk_no_nested(fi.node) if isinstance(n, ast.Assign) and norm(n.targets[0]) == "data"]
    ctx.check(d == ["arr[x_start:x_stop, y_start:y_stop]", "data[::factor, ::factor]"], f"{P}.DOWNSAMPLE", site,
              "box data = the level array over the footprint, one sample per level cell (stride factor on both axes)",
              f"box data is built by {d}")
    aps = [norm(n) for n in walk_no_nested(fi.node) if isinstance(n, ast.Expr) and ".append(" in norm(n)]
    ok = "curr_field_min.append(np.min(data))" in aps and "curr_field_max.append(np.max(data))" in aps and \
        "curr_data.append(data.flatten(order='F'))" in aps and "field_min_vals.append(curr_field_min)" in aps and \
        "field_max_vals.append(curr_field_max)" in aps
    ctx.check(ok, f"{P}.MINMAX-SOURCE", site, "min/max are taken from exactly the data that is written; data flattened "
                                              "in F order", f"appends are {aps}")
    fl = [n for n in walk_no_nested(fi.node) if isinstance(n, ast.For) and norm(n.iter) == "lvdata"]
    ctx.check(len(fl) == 1, f"{P}.G6", site, "one component per array of lvdata (= nfidxs fields)", "field loop changed")
    # literal FAB header == canonical 2D template with nfidxs
    hs = [n for n in walk_no_nested(fi.node) if (isinstance(n, ast.Assign) and norm(n.targets[0]) == "new_header") or
          (isinstance(n, ast.AugAssign) and norm(n.target) == "new_header")]

    def leaf(n):
        t = norm(n)
        m = {"idxs[0][self.cx]": "LO0", "idxs[0][self.cy]": "LO1", "idxs[1][self.cx]": "HI0", "idxs[1][self.cy]": "HI1",
             "self.nfidxs": "NC"}
        if t in m:
            return m[t]
        raise Unknown(f"free leaf {t}")
    try:
        ev = SEval(ast.FunctionDef(name="f", args=None, body=hs, decorator_list=[]), {}, leaf=leaf)
        ev.block(hs)
        got = ev.env.get("new_header")
        err = None
    except Unknown as e:
        got, err = None, str(e)
    ctx.check(got == canonical(2), f"{P}.H-FAB", site,
              "the literal FAB header equals the canonical 2D header with the in-plane index range and nfidxs",
              f"literal header evaluates to {got!r} ({err or ''}); canonical is {canonical(2)!r}", where=loc(fi, hs[0]) if hs else None)
    wr = [norm(n) for n in walk_no_nested(fi.node) if isinstance(n, ast.Expr) and norm(n).startswith("bfile.write")]
    ctx.check(wr == ["bfile.write(new_header.encode('ascii'))", "bfile.write(np.hstack(curr_data).tobytes())"], f"{P}.G6", site,
              "each box is written as its header then the fields' F-flattened data in field order", f"writes are {wr}")
    # G7 (provenance of the recorded offset)
    from checks import writers
    writers.rule_offset_capture(ctx, P, fi)
    # chunking: step >= 1 and chunks <= names
    cs = formulas.find_assign(fi, "chunk_size")
    nf = formulas.find_assign(fi, "nfiles")
    fn = formulas.find_assign(fi, "fnames")
    t = norm(cs.value) if cs else ""
    ceil_forms = ("-(-len(cell_indexes) // nfiles)", "(len(cell_indexes) + nfiles - 1) // nfiles",
                  "math.ceil(len(cell_indexes) / nfiles)", "int(np.ceil(len(cell_indexes) / nfiles))")
    step_pos = t.startswith("max(") and t.endswith(", 1)")
    ctx.check(step_pos, f"{P}.STEP-POS", site, "the chunk step is at least 1",
              f"chunk_size = {t} can be 0 (a level without boxes on the plane, or fewer boxes than files): "
              f"range(0, n, 0) raises ValueError", where=loc(fi, cs) if cs else None)
    is_ceil = any(c in t for c in ceil_forms)
    names_ok = fn is not None and norm(fn.value) in ("[f'Cell_D_{n:05d}' for n in range(nfiles + 1)]",
                                                     "[f'Cell_D_{n:05d}' for n in range(nfiles)]")
    ctx.check(is_ceil and names_ok, f"{P}.ZIP-TRUNC", site,
              "chunks = ceil(n / chunk) <= nfiles <= number of file names: the zip with the name list drops no chunk",
              f"chunk_size = {t} (floor division): ceil(n / chunk) chunks can exceed the {norm(fn.value) if fn else '?'} "
              f"names zipped with them (e.g. 11 boxes, 4 files -> 6 chunks, 5 names) and the last boxes are silently "
              f"dropped", where=loc(fi, cs) if cs else None)
    zl = [n for n in walk_no_nested(fi.node) if isinstance(n, ast.For) and norm(n.iter) == "zip(fnames, range(0, len(cell_indexes), chunk_size))"]
    sub = formulas.find_assign(fi, "subcells_indexes")
    ctx.check(len(zl) == 1 and sub is not None and norm(sub.value) == "cell_indexes[i:i + chunk_size]", f"{P}.ZIP-TRUNC", site,
              "chunks partition the cell list in order", "chunk iteration changed", key="partition")
    ci = [n for n in walk_no_nested(fi.node) if isinstance(n, ast.For) and norm(n.iter) == "indexes"]
    okc = len(ci) == 1 and "cell_indexes.append(cidx)" in [norm(b) for b in ci[0].body] and \
        norm(local_env(fi.node).get("cidx")) == "self.cells[lv]['indexes'][idx]"
    ctx.check(okc, f"{P}.LEVEL-COH", site, "cell index ranges are those of the listed boxes at this level",
              "cell index collection changed")
    # Cell_H grammar
    items, _ = grammar.writer_grammar(prog, fi)
    nb, nfd = "len(indexes)", "self.nfidxs"
    # the binary part contributes no text lines; find the text items only
    def idx_line(line):
        return line.show() == "W[(({cidxs[0][self.cx]},{cidxs[0][self.cy]}) ({cidxs[1][self.cx]},{cidxs[1][self.cy]}) (0,0))]"

    line_defs = sorted(norm(n.value) for n in walk_no_nested(fi.node) if isinstance(n, ast.Assign) and norm(n.targets[0]) == "line")

    def row(var):
        want = "','.join([f'{num:.16e}' for num in %s])" % var
        return lambda line: line.show() == "W[{line},]" and want in line_defs and len(line_defs) == 2
    oracle = [Spec("version", literal("1"), "1"), Spec("how", literal("1"), "1"), Spec("nfields", one_ph(nfd), "field count"),
              Spec("nghost", literal("0"), "0"), Spec("nboxes_open", lambda l: l.show() == "W[({%s} 0]" % nb, "`(nboxes 0`"),
              ("REP", "len(cell_indexes)", [Spec("index_line", idx_line, "((lo) (hi) (0,0)) of the in-plane axes")], None),
              Spec("close_paren", literal(")"), ")"), Spec("nfab", one_ph(nb), "box count"),
              ("REP", "zip(len(fnames), len(offsets))", [("REP", "len(bfoffsets)", [
                  Spec("fabondisk", lambda l: l.show() == "W[FabOnDisk: {bfname} {offset}]", "FabOnDisk: file offset")], None)], None),
              Spec("blank", lambda l: len(l.tokens) == 0, "blank"),
              Spec("min_dims", lambda l: l.show() == "W[{%s},{%s}]" % (nb, nfd), "`nboxes,nfields`"),
              ("REP", "len(field_min_vals)", [Spec("min_row", row("min_arr"), "one exact row per box")], None),
              Spec("blank", lambda l: len(l.tokens) == 0, "blank"),
              Spec("max_dims", lambda l: l.show() == "W[{%s},{%s}]" % (nb, nfd), "`nboxes,nfields`"),
              ("REP", "len(field_max_vals)", [Spec("max_row", row("max_arr"), "one exact row per box")], None)]
    text_items = [i for i in items if not (isinstance(i, grammar.Repeat) and not grammar.flatten_lines([i]))]
    headers.match_writer(ctx, f"{P}.H-WRITE", fi, text_items, oracle, path="Cell_H")


def global_header_rules(ctx):
    prog = ctx.prog
    gh = prog.func(MA, "Mandoline.write_2d_slice_global_header", P)
    items, _ = grammar.writer_grammar(prog, gh, whandles={"fobj"}, nl_attrs={"self.version", "self.sys_coord"})
    L = "self.limit_level"
    two = lambda a: tokens_ph([f"{a}[self.cx]", f"{a}[self.cy]"], exact_idx=(0, 1))
    bb = "self.boxes[lv][idx]"
    flat = [Spec("box_x", tokens_ph([f"{bb}[self.cx][0]", f"{bb}[self.cx][1]"], exact_idx=(0, 1)), "`lo hi` of the first in-plane axis"),
            Spec("box_y", tokens_ph([f"{bb}[self.cy][0]", f"{bb}[self.cy][1]"], exact_idx=(0, 1)), "`lo hi` of the second in-plane axis")]
    o = dict(version="self.version", ncount="self.nfidxs", names_count="len(fnames)", namevar="f", names_over="fnames",
             ndims={"lit:2"}, time="self.time", levels=L, lv="lv", geo_low=two("self.geo_low"), geo_high=two("self.geo_high"),
             ref_ratio=joined({f"self.factors[:{L}]", f"self.factors[:{L} + 1]"}, elem_exact=False),
             domain=lambda line: len(line.tokens) == 1 and join_of(line.tokens[0]) is not None and
             join_of(line.tokens[0])[3] == f"range:1 + {L}",
             steps=joined(f"self.step_numbers[:{L} + 1]", elem_exact=False),
             dx=tokens_ph(["self.dx[lv][self.cx]", "self.dx[lv][self.cy]"], exact_idx=(0, 1)), coord="self.sys_coord",
             level_step="self.step_numbers[lv]", boxes_count="len(indexes[lv])", boxvar="box",
             box_lo_hi=("", ""), boxes_iter="len(indexes[lv])", ndims_iter="2", flat_boxes=flat)
    headers.match_writer(ctx, f"{P}.H-WRITE", gh, items, headers.global_header_oracle(o))
    headers.domain_tuple_rule(ctx, f"{P}.H-WRITE", gh, lvname="lv", dims=("self.cx", "self.cy"))
    bl = [n for n in walk_no_nested(gh.node) if isinstance(n, ast.For) and norm(n.iter) == "indexes[lv]" and norm(n.target) == "idx"]
    ctx.check(len(bl) == 1, f"{P}.LEVEL-COH", gh.site,
              "written box bounds are those of the listed box ids of the same level", "box loop changed")
    # call site in slice()
    sl = prog.func(MA, "Mandoline.slice", P)
    calls = [norm(c) for c in walk_no_nested(sl.node) if isinstance(c, ast.Call) and norm(c.func).startswith("self.write")]
    ok = calls == ["self.write_2d_slice_global_header(hfile, self.fields_in_slice(), indexes)",
                   "self.write_cell_data_at_level(outfile, lv, all_data_bylevel[lv], indexes[lv])"]
    ctx.check(ok, f"{P}.SEQUENCE", sl.site, "global header with the slice's field names and box ids, then every level's "
                                            "data with that level's arrays and box ids", f"calls are {calls}")
    # the first two results of interpolate_bylevel(plane_data) are the arrays and the box ids the writers get
    e = [[norm(t) for t in n.targets[0].elts[:2]] for n in walk_no_nested(sl.node)
         if isinstance(n, ast.Assign) and norm(n.value) == "self.interpolate_bylevel(plane_data)" and
         isinstance(n.targets[0], ast.Tuple) and len(n.targets[0].elts) == 3]
    ctx.check(e == [["all_data_bylevel", "indexes"]], f"{P}.SEQUENCE", sl.site,
              "per-level interpolation of the sliced planes feeds the writer: (arrays, box ids, _) = "
              "interpolate_bylevel(plane_data)", f"interpolate_bylevel(plane_data) results are bound to {e}", key="bylevel")


def run(ctx):
    # the planes interpolated per level are produced by slice_box: its window, span, normal-grid and position-case
    # rules (C07) are necessary conditions of this property too
    from checks import C07
    old = C07.P
    C07.P = P
    try:
        C07.slice_box_rules(ctx)
        # ... and which boxes are handed to slice_box (selection margin, task level coherence)
        C07.geometry_rules(ctx)
        # ... and the names written in the 2D Header follow the requested order like the data (fields_in_slice)
        C07.output_rules(ctx)
    finally:
        C07.P = old
    bylevel_rules(ctx)
    writer_rules(ctx)
    global_header_rules(ctx)
    hfab.check_sibling_parsers(ctx, P)
    C13.sink_rules(ctx, P, modules={MA})
    ctx.assume("slices whose plane coincides exactly with a box face list one of the two boxes (same footprint)")
    return ("Static: distinct per-level/per-side accumulators (alias rule), per-level interpolation identity, each "
            "in-plane footprint listed once per level, footprint span / down-sampling formulas, literal FAB header "
            "evaluated to the canonical 2D template and read back by all parsers, header count = fields written, "
            "offset capture, min/max from the written data, chunk step >= 1 and chunks <= names, Header and Cell_H "
            "writer grammars with exact float formats. Decides structural clauses of DESIGN §4.C16.",
            ["vk/grammar.py", "checks/hfab.py", "vk/rules.py"])
