"""C10 — whip's uniform grid is the covering grid of the chosen field."""
import ast

from vk import fabio, pools, rules, formulas, wiring
from vk import replicate
from vk.fabio import Num, N, D, Roles, Ratio, ArrV, ListAcc, Tup
from vk.formulas import A
from vk.model import norm, loc, AnalysisError, walk_no_nested, parents
from vk.rules import expr_ratio, local_env, FormulaError
from checks import C13

P = "C10"
WH = "amr_kitchen/whip/cli.py"


def run(ctx):
    prog = ctx.prog
    fi = prog.func(WH, "readfieldfrombinfile", P)
    site = fi.site
    roles = Roles(equiv={"args['N_FIELDS']": N("").r.n})
    roles.sel_kinds = {"*": "single"}
    res = fabio.analyse(prog, fi, roles, P)
    fabio.report_generic(ctx, res, P)
    ip = res.interp
    ctx.assume("the Header's field count equals the FAB component count (N_FIELDS = N, well-formed input)")
    c = fabio.C("", 3).r
    k = Ratio.atom("args['FIELD_INDEX']")
    ffs = {id(e): e for e in res.events("fromfile")}.values()
    ctx.check(len(ffs) == 1, f"{P}.ONE-READ", site, "one read per FAB", f"{len(ffs)} reads per FAB")
    for ff in ffs:
        ok = ff.count is not None and ip.eq(ff.arr.win_lo, Num(Ratio(8) * c * k)) and ip.eq(ff.count, Num(c))
        ctx.decide(ok, ff.count is None or not fabio.undecidable(ff.count, ff.arr.win_lo), f"{P}.WINDOW", site,
                   "window = the requested component of the FAB: [8*C*FIELD_INDEX, +8*C)",
                  f"window starts {ff.arr.win_lo.text()[:60]} with {ff.count.text()[:40] if ff.count else None} values",
                  where=loc(fi, ff.node))
    sk = res.events("seek_abs")
    ctx.check(not sk, f"{P}.SCAN", site, "sequential scan of the file", f"absolute seeks {[s.key for s in sk]}")
    for p in res.paths:
        if getattr(p, "from_handler", False):
            continue
        aps = [e for e in p.events if e.kind == "append" and e.loops]
        arrs = [e for e in aps if e.list == "arrays"]
        idxs = [e for e in aps if e.list == "indexes"]
        ok = len(arrs) == 1 and len(idxs) == 1 and isinstance(arrs[0].value, ArrV)
        ctx.check(ok, f"{P}.ONCE-PER-FAB", site, "one (index range, array) pair appended per FAB",
                  f"{len(idxs)} index ranges and {len(arrs)} arrays appended per FAB")
        if ok:
            a = arrs[0].value
            dims_ok = a.dims is not None and all(ip.eq(a.dims[i], D("", i)) for i in range(3)) and a.order == "F" \
                and a.scalar_comp is not None and ip.eq(a.scalar_comp.a, Num(k)) and not a.arith
            ctx.check(dims_ok, f"{P}.SHAPE", site, "array = the FAB's (D0, D1, D2) in F order, component FIELD_INDEX",
                      f"array is {a.text()[:100]}", where=loc(fi, arrs[0].node))
            v = idxs[0].value
            ctx.check(isinstance(v, fabio.IdxPairV) and v.prov == "fab", f"{P}.SELF-DESCRIBING", site,
                      "the index range returned with an array is parsed from that FAB's own header",
                      f"index entry is {v.text()}", where=loc(fi, idxs[0].node))
    for e in res.events("return"):
        v = e.value
        ok = isinstance(v, Tup) and [getattr(i, "name", None) for i in v.items] == ["indexes", "arrays"]
        ctx.check(ok, f"{P}.RETURN", site, "returns (indexes, arrays)", f"returns {v.text()[:60]}")
    # main ---------------------------------------------------------------------------------------
    mn = prog.func(WH, "main", P)
    opts = wiring.cli_options(mn)
    reads = wiring.args_reads(mn)
    for dest in ("variable", "limit_level", "outfile", "dtype", "nochecks", "plotfile"):
        ctx.check(dest in opts and dest in reads, f"{P}.WIRING", mn.site, f"option --{dest} is declared and read",
                  f"option --{dest} is declared but never read: it has no effect", key="read:" + dest,
                  where=loc(mn, opts[dest]["node"]) if dest in opts else None)
    call, b = wiring.call_bindings(prog, mn, lambda t: t == "PlotfileCooker")
    ctx.check(b.get("limit_level") == "args.limit_level" and b.get("plotfile_path") == "args.plotfile", f"{P}.WIRING", mn.site,
              "--limit_level reaches the reader (limits the grid to that level)",
              f"the reader is built with {b}: the level limit option does not restrict the grid", key="limit_level",
              where=loc(mn, call) if call is not None else None)
    env = local_env(mn.node)
    e = {norm(n.targets[0]): norm(n.value) for n in walk_no_nested(mn.node) if isinstance(n, ast.Assign)}
    denv = rules.local_env(mn.node)
    dbuf = formulas.find_assign(mn, "data")
    got_buf = rules.deep(dbuf.value, denv, mn.params) if dbuf is not None else None
    ctx.check(got_buf == "np.zeros(pck.grid_sizes[pck.limit_level], dtype=args.dtype)", f"{P}.BUFFER", mn.site,
              "the grid is np.zeros of the limit level's size with the requested dtype",
              f"buffer is {got_buf} (locals substituted); expected np.zeros(pck.grid_sizes[pck.limit_level], "
              f"dtype=args.dtype)", semantic=dbuf is not None)
    ok = e.get("FIELD_INDEX") == "pck.fields[args.variable]" and e.get("N_FIELDS") == "len(pck.fields)"
    ctx.check(ok, f"{P}.WIRING", mn.site, "field index and field count come from the header's field table",
              f"FIELD_INDEX = {e.get('FIELD_INDEX')}, N_FIELDS = {e.get('N_FIELDS')}", key="field")
    formulas.formula_rule(ctx, f"{P}.FACTOR", mn, formulas.find_assign(mn, "factor").value if formulas.find_assign(mn, "factor") else None,
                          A(f"pow(2,{A('pck.limit_level') - A('lv')})"), (), "refinement factor to the limit level", "factor", {})
    # tasks: each file of the level exactly once
    U = "np.unique(pck.cells[lv]['files'])"
    PERM = f"np.flip(np.argsort(np.array([os.path.getsize(f) for f in {U}])))"
    mi = formulas.find_assign(mn, "mp_inputs")
    form = None
    if mi is not None and isinstance(mi.value, ast.ListComp) and len(mi.value.generators) == 1 \
            and not mi.value.generators[0].ifs and isinstance(mi.value.elt, ast.Dict) \
            and isinstance(mi.value.generators[0].target, ast.Name):
        g = mi.value.generators[0]
        v = g.target.id
        fn = [val for k, val in zip(mi.value.elt.keys, mi.value.elt.values) if isinstance(k, ast.Constant) and k.value == "fname"]
        keys = sorted(k.value for k in mi.value.elt.keys if isinstance(k, ast.Constant))
        if len(fn) == 1:
            import copy as _copy
            from checks.tastelib import _BulletSubst
            fnode = _BulletSubst(v).visit(_copy.deepcopy(fn[0]))
            form = (rules.deep(fnode, denv, list(mn.params) + ["__BULLET__"]).replace("__BULLET__", "•"),
                    rules.deep(g.iter, denv, mn.params), tuple(keys))
    accepted = {(f"{U}[•]", PERM), ("•", f"{U}[{PERM}]"), ("•", U)}
    ok = form is not None and (form[0], form[1]) in accepted and form[2] == ("FIELD_INDEX", "N_FIELDS", "fname")
    ctx.check(ok, f"{P}.P5b", mn.site, "one task per np.unique(files) of the level (a permutation of them)",
              f"tasks are built as fname = {form[0] if form else None} for • in {form[1] if form else None} with keys "
              f"{form[2] if form else None}; expected every file of {U} exactly once (any permutation of it)",
              semantic=form is not None)
    sites = pools.find_sites(prog, mn)
    ctx.check(len(sites) == 1, f"{P}.POOL", mn.site, "one pool call", f"{len(sites)} pool calls")
    for s in sites:
        pm = parents(mn.node)
        anc = []
        n = pm.get(s.call)
        while n is not None:
            anc.append(n)
            n = pm.get(n)
        lvl = [a for a in anc if isinstance(a, ast.For) and any(x is a for x, _, _ in formulas.level_loops(mn))]
        wth = [a for a in anc if isinstance(a, ast.With)]
        ok = bool(lvl) and bool(wth) and any(w is x for w in wth for x in ast.walk(lvl[0]))
        ctx.check(ok, f"{P}.P1b", mn.site, "the pool is created and drained inside the ascending level loop",
                  "the unordered pool is not enclosed by the ascending level loop: coarse data may overwrite fine data "
                  "depending on the completion order of the read tasks", where=loc(mn, s.call))
        pools.rule_P1(ctx, P, s)
        ctx.attempt(pools.rule_P2, ctx, P, prog, s)
        pools.rule_P3(ctx, P, prog, s)
        pools.rule_X2(ctx, P, s)
        # the store
        loop = s.consumer[2]
        st = [n for n in ast.walk(loop) if isinstance(n, ast.Assign) and isinstance(n.targets[0], ast.Subscript)
              and norm(n.targets[0].value) == "data"]
        # the loop that pairs index ranges with arrays: `for idx, arr in zip(R0, R1)` or `for (lo, hi), arr in ...`
        zl = [n for n in ast.walk(loop) if isinstance(n, ast.For) and isinstance(n.iter, ast.Call)
              and norm(n.iter.func) == "zip" and len(n.iter.args) == 2 and isinstance(n.target, ast.Tuple)
              and len(n.target.elts) == 2]
        alias = {}
        if len(zl) == 1 and isinstance(zl[0].target.elts[0], ast.Tuple) and len(zl[0].target.elts[0].elts) == 2 \
                and all(isinstance(x, ast.Name) for x in zl[0].target.elts[0].elts):
            a0, a1 = zl[0].target.elts[0].elts
            alias = {a0.id: ast.parse("idx[0]", mode="eval").body, a1.id: ast.parse("idx[1]", mode="eval").body}
        elif len(zl) == 1 and isinstance(zl[0].target.elts[0], ast.Name) and zl[0].target.elts[0].id != "idx":
            alias = {zl[0].target.elts[0].id: ast.parse("idx", mode="eval").body}
        arrname = norm(zl[0].target.elts[1]) if len(zl) == 1 else "arr"
        ok = len(st) == 1 and isinstance(st[0].targets[0].slice, ast.Tuple) and len(st[0].targets[0].slice.elts) == 3 and \
            norm(st[0].value) == f"expand_array3d({arrname}, factor)"
        if ok:
            f = A("factor")
            for ax, sl in enumerate(st[0].targets[0].slice.elts):
                try:
                    lo, hi = expr_ratio(sl.lower, alias), expr_ratio(sl.upper, alias)
                except (FormulaError, AttributeError):
                    ok = False
                    continue
                okk = lo == f * A(f"idx[0][{ax}]") and hi == (A(f"idx[1][{ax}]") + 1) * f and sl.step is None
                ctx.check(okk, f"{P}.DIM-COH", mn.site,
                          f"axis {ax} of the grid spans factor*idx_lo[{ax}] .. (idx_hi[{ax}]+1)*factor",
                          f"axis {ax} of the grid is stored over {norm(sl)}: it must use dimension {ax} of the box's "
                          f"index range on both bounds", key=f"axis{ax}", where=loc(mn, st[0]), semantic=True)
        ctx.check(ok, f"{P}.STORE", mn.site, "each box is replicated by factor and stored over its own index span",
                  f"store is {[norm(x) for x in st]}", key="store")
        # the two zipped sequences are component 0 (index ranges) and component 1 (arrays) of *one* result
        pair_ok = False
        if len(zl) == 1:
            z0, z1 = norm(zl[0].iter.args[0]), norm(zl[0].iter.args[1])
            rt = loop.target if isinstance(loop, ast.For) else None
            if isinstance(rt, ast.Name):
                pair_ok = (z0, z1) == (f"{rt.id}[0]", f"{rt.id}[1]")
            elif isinstance(rt, ast.Tuple) and len(rt.elts) == 2:
                pair_ok = (z0, z1) == (norm(rt.elts[0]), norm(rt.elts[1]))
        ctx.check(pair_ok, f"{P}.SELF-DESCRIBING", mn.site,
                  "index ranges (component 0) and arrays (component 1) of one result are paired positionally",
                  f"the placement loop zips {[norm(z.iter) for z in zl]} for results bound to "
                  f"{norm(loop.target) if isinstance(loop, ast.For) else None}: positions must come from the same "
                  f"result as the arrays", key="pair", semantic=len(zl) == 1)
    formulas.rule_level_range(ctx, f"{P}.LEVEL-RANGE", mn, obj="pck")
    ex = prog.func("amr_kitchen/utils.py", "expand_array3d", P)
    replicate.rule(ctx, f"{P}.EXPAND", ex, 3, "expand_array3d repeats every axis by factor (values unchanged)")
    sv = [norm(c) for c in walk_no_nested(mn.node) if isinstance(c, ast.Call) and norm(c.func) == "np.save"]
    ctx.check(len(sv) == 2 and all(x.endswith(", data)") for x in sv), f"{P}.SAVE", mn.site, "the grid itself is saved",
              f"np.save calls: {sv}")
    C13.sink_rules(ctx, P, modules={WH})
    # SCAN-SCOPE (info)
    tr = [t for t in walk_no_nested(fi.node) if isinstance(t, ast.Try)]
    if tr and len(tr[0].body) > 2:
        ctx.info(f"{P}.SCAN-SCOPE", site, "the EOF handler's try encloses the whole FAB processing: any error there ends "
                                          "the scan silently (this is what turned the bytes/str kind error into an all-zero grid)")
    ctx.assume("level-0 boxes cover the domain (run-time box set; not decided); dtype cast semantics are numpy's")
    return ("Static: option wiring (all six options read, limit -> reader, dtype -> allocation); text kind of the "
            "parsed header line; abstract interpretation of the per-file scan (window of the requested component, "
            "skip + read + remainder = whole FAB, F-order reshape, self-describing results); axis <-> dimension "
            "agreement of the store span as rational identities; unordered pool with self-describing consumer inside "
            "the ascending level loop; zero-initialised buffer. Decides structural clauses of DESIGN §4.C10.",
            ["vk/fabio.py", "vk/pools.py", "vk/rules.py"])
