"""C05 — colander output holds exactly the kept fields and levels, bit for bit."""
import ast

from vk import fabio, pools, rules, formulas, wiring, grammar
from vk.fabio import Num, N, Roles
from vk.model import norm, loc, AnalysisError, walk_no_nested
from checks import writers, headers, taskmaps
from checks.headers import Spec, one_ph, joined, literal
from checks import C13

P = "C05"
CO = "amr_kitchen/colander/colander.py"


def strainer_rules(ctx, fi, nd):
    roles = Roles(level_index={"args['box_indexes'][i]": ""}, equiv={"args['nvars']": N("").r.n}, ndims=nd)
    roles.sel_kinds = {"args['kept_fields']": "list"}
    res = fabio.analyse(ctx.prog, fi, roles, P)
    fabio.report_generic(ctx, res, P)
    ip = res.interp
    site = fi.site
    # read side: one absolute seek per box to the recorded offset zipped with the same box's indices
    z = res.events("zip")
    zs = [sorted(s.text() for s in e.seqs) for e in z]
    ctx.check(any({"args['box_indexes']", "args['offsets_r']"} <= set(x) for x in zs), f"{P}.PAIRING", site,
              "level-header index ranges and recorded offsets are walked in lock-step",
              f"box_indexes/offsets_r are not zipped together: {zs}")
    sk = res.events("seek_abs")
    ctx.check(len(sk) == 1 and sk[0].key == "args['offsets_r'][i]", f"{P}.SEEK-RECORDED", site,
              "each box is read at its recorded offset", f"absolute seeks: {[s.key for s in sk]}")
    ffs = res.events("fromfile")
    full = fabio.C("", nd).r * N("").r
    ok = len(ffs) == 1 and ffs[0].count is not None and ip.eq(ffs[0].arr.win_lo, Num(0)) and \
        ip.eq(ffs[0].count, Num(full))
    ctx.check(ok, f"{P}.WINDOW", site, f"the whole FAB is read ({Num(full).text()} values from the data start)",
              f"read window is {[(f.arr.win_lo.text(), f.count.text() if f.count else None) for f in ffs]}; the whole "
              f"FAB is {Num(full).text()} values from offset 0", where=loc(fi, ffs[0].node) if ffs else None)

    def comps_ok(arr, path):
        txt = " ++ ".join(c.text() for c in (arr.comps or []))
        ok = arr.has_comp_axis and len(arr.comps) == 1 and arr.comps[0].kind == "list" and \
            arr.comps[0].a.text() == "args['kept_fields']" and not arr.arith
        return ok, f"the kept field indices, in order, of this FAB, no arithmetic ({txt})"

    def hdr_ok(hdr, path):
        return hdr.source == "read" and hdr.fab == "", f"the source FAB's own header line ({hdr.source})"
    n = writers.check_fab_writes(ctx, P, res, "args['bfile_w']", comps_ok, hdr_ok)
    ctx.floor(f"{fi.qualname} FAB write groups", n, 1)
    writers.returns_offsets_first(ctx, P, res)
    opens = {o.path.text(): o.mode for o in res.events("open")}
    ctx.check(opens == {"args['bfile_r']": "rb", "args['bfile_w']": "wb"}, f"{P}.OPEN", site,
              "reads bfile_r, writes bfile_w", f"opens {opens}")
    return res


def selection_rules(ctx):
    """kept_names is built in lock-step with kept_fields"""
    fi = ctx.prog.func(CO, "Colander.__init__", P)
    site = fi.site
    chain = [n for n in fi.node.body if isinstance(n, ast.If) and "variables" in norm(n.test) and "'all'" in norm(n.test)]
    if len(chain) != 1:
        raise AnalysisError(f"{P}.SELECTOR", site, "the all/else selection branch was not found")
    br = chain[0]
    allb = [norm(s) for s in ast.walk(ast.Module(body=br.body, type_ignores=[])) if isinstance(s, ast.Expr)]
    loop = [s for s in br.body if isinstance(s, ast.For)]
    ok = len(loop) == 1 and norm(loop[0].iter) == "self.fields" and \
        {f"self.kept_fields.append(self.fields[{norm(loop[0].target)}])",
         f"self.kept_names.append({norm(loop[0].target)})"} <= set(allb)
    if not ok:
        # second form: the names are the field table's keys in order and the indices are looked up from those names
        import re as _re
        asg = {norm(s.targets[0]): norm(s.value) for s in br.body if isinstance(s, ast.Assign)}
        look = [a for a in allb if _re.fullmatch(
            r"self\.kept_fields\.extend\(\(?\[?(self\.fields\.get\((\w+)\)|self\.fields\[(\w+)\]) for (\w+) in self\.kept_names\]?\)?\)", a)]
        ok = asg.get("self.kept_names") in ("list(self.fields)", "list(self.fields.keys())") and len(look) == 1
    ctx.decide(ok, len(loop) == 1, f"{P}.SELECTOR", site, "'all': indices and names built together in header order",
               f"'all' branch builds {allb}", key="all")
    # else branch
    names = [s for s in br.orelse if isinstance(s, ast.Assign) and norm(s.targets[0]) == "self.kept_names"]
    vparam = "variables"
    ok_names = len(names) == 1 and isinstance(names[0].value, ast.ListComp) and \
        norm(names[0].value.generators[0].iter) == vparam and \
        [norm(i) for i in names[0].value.generators[0].ifs] == [f"{norm(names[0].value.generators[0].target)} in self.fields"] \
        and norm(names[0].value.elt) == norm(names[0].value.generators[0].target)
    loops = [s for s in br.orelse if isinstance(s, ast.For) and norm(s.iter) == vparam]
    ok_idx = False
    if len(loops) == 1:
        v = norm(loops[0].target)
        body = loops[0].body
        if len(body) == 1 and isinstance(body[0], ast.Try):
            t = body[0]
            ok_idx = [norm(s) for s in t.body] == [f"self.kept_fields.append(self.fields[{v}])"] and \
                all(h.type is not None and norm(h.type) == "KeyError" and
                    not any("kept_" in norm(x) for x in h.body) for h in t.handlers)
        elif len(body) == 1 and isinstance(body[0], ast.If) and norm(body[0].test) == f"{v} in self.fields":
            ok_idx = [norm(s) for s in body[0].body] == [f"self.kept_fields.append(self.fields[{v}])"]
    ctx.check(ok_names and ok_idx, f"{P}.SELECTOR", site,
              "named selection: names = requested variables present in the input, in requested order; indices = "
              "fields[v] for the same variables in the same order",
              "kept_names and kept_fields are not built from the same filter (v in fields) over the requested "
              "variables in the same order: names and data columns would be paired wrongly", key="named",
              where=loc(fi, br))
    # nothing else mutates the selections
    for m in ctx.prog.cls(CO, "Colander").methods.values():
        for n in walk_no_nested(m.node):
            if m.qualname != "Colander.__init__" and isinstance(n, (ast.Assign, ast.AugAssign, ast.Call)):
                t = norm(n)
                if ("self.kept_fields" in t or "self.kept_names" in t) and \
                        (isinstance(n, (ast.Assign, ast.AugAssign)) and any(
                            x in norm(n.targets[0] if isinstance(n, ast.Assign) else n.target)
                            for x in ("self.kept_fields", "self.kept_names")) or
                         (isinstance(n, ast.Call) and isinstance(n.func, ast.Attribute) and
                          n.func.attr in ("sort", "reverse", "append", "pop", "remove", "insert", "extend")
                          and norm(n.func.value) in ("self.kept_fields", "self.kept_names"))):
                    ctx.finding(f"{P}.SELECTOR", m.site, f"`{t[:60]}` changes the selection after construction",
                                key="mutated", where=loc(m, n))
    # strainer dispatch
    disp = {}
    for n in walk_no_nested(fi.node):
        if isinstance(n, ast.If) and "self.ndims ==" in norm(n.test):
            cur = n
            while True:
                d = norm(cur.test).split("==")[-1].strip()
                for s in cur.body:
                    if isinstance(s, ast.Assign) and norm(s.targets[0]) == "self.strainer":
                        disp[d] = norm(s.value)
                if len(cur.orelse) == 1 and isinstance(cur.orelse[0], ast.If):
                    cur = cur.orelse[0]
                else:
                    break
    sup = [c for c in ast.walk(fi.node) if isinstance(c, ast.Call) and norm(c.func) == "super().__init__"]
    ok = len(sup) == 1 and any(k.arg == "limit_level" and norm(k.value) == "limit_level" for k in sup[0].keywords) \
        and norm(sup[0].args[0]) == "plotfile"
    ctx.check(ok, f"{P}.WIRING", site, "the level limit reaches the reader", "super().__init__ does not receive limit_level")
    out = formulas.find_assign(fi, "self.outdir")
    ctx.check(out is not None and norm(out.value) == "output", f"{P}.WIRING", site, "output directory stored verbatim",
              "self.outdir is not the output argument", key="outdir")
    return disp


def minmax_rules(ctx, rule, fi, rest, desc):
    """after the FabOnDisk table: blank copied, `ncells,nkept`, ncells rows restricted to kept_fields (strings), x2"""
    site = fi.site
    want = "blank copy; `ncells,len(kept_fields)`; ncells rows; blank copy; `ncells,len(kept_fields)`; ncells rows"
    # expected sequence of items
    seq = []
    for it in rest:
        if isinstance(it, grammar.Line):
            seq.append("copy" if it.copy_of else ("read" if it.tokens is None else "write:" + it.show()))
        elif isinstance(it, grammar.Repeat):
            seq.append(f"rep:{it.count}:" + ",".join("read" if (isinstance(b, grammar.Line) and b.tokens is None)
                                                     else "write:" + b.show() for b in it.body))
    nk = "len(self.kept_fields)"
    hdr = f"write:W[{{ncells}},{{{nk}}}]"
    row = "write:W[<join ',' {elem} over np.array(line)[self.kept_fields]>,]"
    exp = ["copy", "read", hdr, "rep:ncells:read," + row, "copy", "read", hdr, "rep:ncells:read," + row]
    ctx.check(seq == exp, f"{rule}.H-COPY", site,
              "min/max tables: " + want + "; rows are the source strings indexed by kept_fields (copied, not "
              "re-formatted)",
              f"min/max part of the level header is {seq}; expected {exp}", key="minmax", where=loc(fi, fi.node))
    # rows come from the line just read, split on ',' without the trailing element
    srcs = {norm(n.targets[0]): norm(n.value) for n in walk_no_nested(fi.node) if isinstance(n, ast.Assign)
            and norm(n.targets[0]) in ("min_vals", "max_vals", "line")}
    ok = srcs.get("min_vals") == "np.array(line)" and srcs.get("max_vals") == "np.array(line)"
    lines = [norm(n.value) for n in walk_no_nested(fi.node) if isinstance(n, ast.Assign) and norm(n.targets[0]) == "line"]
    ok = ok and lines.count("ch_r.readline().split(',')[:-1]") == 2
    ctx.check(ok, f"{rule}.H-COPY", site, "each written row is the source row's comma-separated strings",
              f"rows are built from {srcs} / {lines}", key="minmax-source")


def run(ctx):
    prog = ctx.prog
    disp = selection_rules(ctx)
    ctx.check(set(disp) == {"2", "3"}, f"{P}.DISPATCH", CO + "::Colander.__init__", "strainer chosen by ndims 2 / 3",
              f"strainer dispatch is {disp}")
    for d, fn in sorted(disp.items()):
        strainer_rules(ctx, prog.func(CO, fn, P), int(d))
    # producer ------------------------------------------------------------------------------
    st = prog.func(CO, "Colander.strain", P)
    pl = taskmaps.map_and_tasks(ctx, P, st, "self.cells[lv]['files']", "len(self.cells[lv]['files'])",
                                "self.cells[lv]['offsets']", "box_index_map", "mp_calls", sorted_by_offsets=False)
    sites = [s for s in pools.find_sites(prog, st)]
    ctx.check(len(sites) == 1, f"{P}.POOL", st.site, "one pool call per level", f"{len(sites)} pool calls")
    for s in sites:
        pools.rule_P1(ctx, P, s)
        pools.rule_P2(ctx, P, prog, s)
        pools.rule_P3(ctx, P, prog, s)
        ctx.check(norm(s.worker_expr) == "self.strainer" and norm(s.task) == "mp_calls", f"{P}.POOL", st.site,
                  "pool.map(self.strainer, mp_calls)", f"pool applies {norm(s.worker_expr)} to {norm(s.task)}",
                  key="worker")
    pools.rule_P7(ctx, P, prog, st)
    if pl is not None:
        d = next((n for n in ast.walk(pl.loop) if isinstance(n, ast.Dict)), None)
        ids = pl.ids_sem
        got = taskmaps.task_value_rule(ctx, P, st, d, pl.var, {
            "box_indexes": f"SEL(self.cells[lv]['indexes'],{ids})",
            "offsets_r": f"SEL(self.cells[lv]['offsets'],{ids})",
            "nvars": "self.nvars", "kept_fields": "self.kept_fields"})
        # output path: OUT-rooted, injective in the file (level dir name + file name)
        env = rules.local_env(pl.loop)
        bw = None
        for n in ast.walk(pl.loop):
            if isinstance(n, ast.Assign) and norm(n.targets[0]) == "bfile_w":
                bw = n.value
        ok = bw is not None and isinstance(bw, ast.Call) and norm(bw.func) == "os.path.join" and \
            [norm(a) for a in bw.args] == ["os.getcwd()", "self.outdir", "os.path.basename(os.path.split(bfile_r)[0])",
                                          "os.path.basename(bfile_r)"]
        ctx.check(ok, f"{P}.P4", st.site,
                  "output file = <outdir>/<level dir name>/<file name>: one distinct target per (level, file)",
                  f"bfile_w is {norm(bw) if bw is not None else None}", key="bfile_w", where=loc(st, pl.loop))
    taskmaps.scatter_rule(ctx, P, st, "box_index_map", "new_offsets", {"mapped_offsets": ("IDX", "RES")},
                          "len(self.boxes[lv])")
    # calls
    calls = [norm(c) for c in ast.walk(st.node) if isinstance(c, ast.Call) and norm(c.func).startswith("self.")]
    ok = "self.make_dir_tree(self.outdir)" in calls and "self.update_cell_header(lv, cell_header_r, mapped_offsets)" in calls \
        and "self.write_strained_global_header()" in calls
    ctx.check(ok, f"{P}.SEQUENCE", st.site, "directory tree, per-level header rewrite with the mapped offsets, global "
                                            "header", f"strain() calls {calls}")
    chr_ = formulas.find_assign(st, "cell_header_r")
    ctx.check(chr_ is not None and norm(chr_.value) == "os.path.join(self.pfile, self.cell_paths[lv], 'Cell_H')",
              f"{P}.LEVEL-COH", st.site, "the level header read is the input's header of the same level",
              f"cell_header_r = {norm(chr_.value) if chr_ else None}")
    mdt = prog.func("amr_kitchen/plotfile_cooker.py", "PlotfileCooker.make_dir_tree", P)
    loops = [norm(n.iter) for n in walk_no_nested(mdt.node) if isinstance(n, ast.For)]
    ctx.check(loops == ["self.cell_paths[:limit_level + 1]"], f"{P}.LEVEL-RANGE", mdt.site,
              "one output directory per kept level", f"make_dir_tree iterates {loops}")
    # headers ---------------------------------------------------------------------------------
    gh = prog.func(CO, "Colander.write_strained_global_header", P)
    items, _ = grammar.writer_grammar(prog, gh, nl_attrs={"self.version", "self.sys_coord"})
    L = "self.limit_level"
    o = dict(version="self.version", ncount="len(self.kept_fields)", names_count="len(self.kept_names)",
             namevar="v", names_over="self.kept_names", ndims="self.ndims", time="self.time", levels=L, lv="lv",
             geo_low=joined("self.geo_low"), geo_high=joined("self.geo_high"),
             ref_ratio=joined({f"self.factors[:{L} + 1]", f"self.factors[:{L}]", "BLANK"}, elem_exact=False),
             domain=lambda line: len(line.tokens) == 1 and headers.join_of(line.tokens[0]) is not None and
             headers.join_of(line.tokens[0])[3] == f"range:1 + {L}",
             steps=joined(f"self.step_numbers[:{L} + 1]", elem_exact=False),
             dx=joined("self.dx[lv]"), coord="self.sys_coord", level_step="self.step_numbers[lv]",
             boxes_count="len(self.boxes[lv])", boxvar="box", box_lo_hi=("box[d][0]", "box[d][1]"),
             boxes_iter="len(self.boxes[lv])", ndims_iter="self.ndims")
    headers.match_writer(ctx, f"{P}.H-WRITE", gh, items, headers.global_header_oracle(o))
    headers.domain_tuple_rule(ctx, f"{P}.H-WRITE", gh)
    uc = prog.func(CO, "Colander.update_cell_header", P)
    headers.rewriter_rules(ctx, P, uc, "len(self.kept_fields)", "new_offsets", minmax_rules)
    w = formulas.find_assign(uc, "cell_header_w")
    ctx.check(w is not None and norm(w.value) == "os.path.join(self.outdir, self.cell_paths[lv], 'Cell_H')",
              f"{P}.LEVEL-COH", uc.site, "rewritten header goes to the same level of the output",
              f"cell_header_w = {norm(w.value) if w else None}")
    for q in ("Colander.strain", "Colander.write_strained_global_header"):
        formulas.rule_level_range(ctx, f"{P}.LEVEL-RANGE", prog.func(CO, q, P))
    # CLI wiring
    cli = prog.func("amr_kitchen/colander/cli.py", "main", P)
    opts = wiring.cli_options(cli)
    call, b = wiring.call_bindings(prog, cli, lambda t: t == "Colander")
    for param, dest in (("plotfile", "plotfile"), ("limit_level", "limit_level"), ("output", "output"),
                        ("variables", "variables")):
        wiring.rule_wired(ctx, f"{P}.WIRING", cli, b, param, dest, opts)
    ctx.check(any(norm(c.func).endswith(".strain") for c in ast.walk(cli.node) if isinstance(c, ast.Call)),
              f"{P}.WIRING", cli.site, "the CLI calls strain()", "the CLI never calls strain()", key="strain")
    for o_ in ("serial",):
        if o_ in opts and o_ not in wiring.args_reads(cli):
            ctx.info(f"{P}.WIRING", cli.site, f"--{o_} is declared and never read (no property mentions it)")
    # sinks of this tool
    C13.sink_rules(ctx, P, modules={CO})
    if ctx.tier == "thorough":
        from checks import hfab
        hfab.check_sibling_parsers(ctx, P)
    ctx.assume("header field count nvars equals the FAB component count N (well-formed input)")
    return ("Static: abstract interpretation of the 2D/3D strainers (whole-FAB window at the recorded offset, F-order "
            "reshape, kept-field selection, F-order serialisation, header count = components written, offset captured "
            "before the header, no arithmetic); names/indices lock-step; per-file task tables and scatter map in "
            "semantic normal form; ordered pool primitive; writer grammar of the global header against the reader "
            "oracle with round-trip-exact float formats; level-header rewriter copy structure with min/max rows "
            "copied as strings restricted to kept fields; CLI wiring; sinks rooted at the output. Decides structural "
            "clauses of DESIGN §4.C05, not bit identity as such.",
            ["vk/fabio.py", "vk/grammar.py", "vk/pools.py", "vk/paths.py"])
