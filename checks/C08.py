"""C08 — mandoline 2D flattening equals the finest-level covering grid exactly."""
import ast

from vk import pools, rules, formulas
from vk.formulas import A
from vk.model import norm, loc, AnalysisError, walk_no_nested
from vk.rules import local_env
from checks import C07

P = "C08"
MA, BL = C07.MA, C07.BL


def run(ctx):
    prog = ctx.prog
    C07.P = P
    try:
        fi = prog.func(BL, "plate_box", P)
        C07.blade_window(ctx, fi, 2)
    finally:
        C07.P = "C07"
    site = fi.site
    env = local_env(fi.node)
    I = lambda s: A(f"args['indexes']{s}")
    cx, cy = "args['cx']", "args['cy']"
    fac = A(f"pow(2,{A('args[' + repr('limit_level') + ']') - A('args[' + repr('Lv') + ']')})")
    for name, want, key in (("x_start", I(f"[0][{cx}]") * fac, "x0"), ("x_stop", (I(f"[1][{cx}]") + 1) * fac, "x1"),
                            ("y_start", I(f"[0][{cy}]") * fac, "y0"), ("y_stop", (I(f"[1][{cy}]") + 1) * fac, "y1")):
        a = formulas.find_assign(fi, name)
        formulas.formula_rule(ctx, f"{P}.SPAN", fi, a.value if a else None, want, (), f"pixel span {name}", key, env)
    out = formulas.find_assign(fi, "output")
    d = {k.value: norm(v) for k, v in zip(out.value.keys, out.value.values)} if out is not None and isinstance(out.value, ast.Dict) else {}
    ok = d.get("sx") == "[x_start, x_stop]" and d.get("sy") == "[y_start, y_stop]" and d.get("level") == "Lv" and \
        d.get("data") == "[expand_array(arr, factor) for arr in data_arrays]"
    ctx.check(ok, f"{P}.OUTPUT", site, "box result = spans, every field's array expanded by factor (values unchanged), level",
              f"plate_box returns {d}")
    # task
    mp = prog.func(MA, "Mandoline.compute_mpinput_2d", P)
    lp = [n for n in walk_no_nested(mp.node) if isinstance(n, ast.For)]
    ok = len(lp) == 1 and norm(lp[0].iter).replace(" ", "") == \
        "zip(self.cells[lv]['indexes'],self.cells[lv]['files'],self.cells[lv]['offsets'],self.boxes[lv])" and \
        norm(lp[0].target) == "(indexes, cfile, offset, box)"
    ctx.check(ok, f"{P}.LEVEL-COH", mp.site, "indexes, file, offset and bounds of the same box of the same level are zipped",
              f"task loop is {[norm(l.iter) for l in lp]}")
    dct = [n for n in ast.walk(mp.node) if isinstance(n, ast.Dict)]
    denv = rules.local_env(mp.node)
    d = {k.value: rules.deep(v, denv, mp.params) for k, v in zip(dct[0].keys, dct[0].values)} if dct else {}
    want = {"cx": "0", "cy": "1", "dx": "self.dx", "limit_level": "self.limit_level", "fidxs": "self.fidxs", "Lv": "lv",
            "indexes": "indexes", "cfile": "cfile", "offset": "offset", "box": "box"}
    ctx.check(d == want, f"{P}.LEVEL-COH", mp.site, "every box of the level becomes one task with cx=0, cy=1",
              f"task is {d} (locals substituted); expected {want}: the worker's results are paired with the requested "
              f"field order, so the field indices must be passed as requested", key="task", semantic=bool(dct))
    # plate()
    pl = prog.func(MA, "Mandoline.plate", P)
    sites = pools.find_sites(prog, pl)
    for s in sites:
        pools.rule_P1(ctx, P, s)
        ctx.check([w.qualname for w in s.workers] == ["plate_box"] and norm(s.task) == "pool_inputs", f"{P}.P8", pl.site,
                  f"{s.pool_kind}: plate_box over pool_inputs", f"{s.pool_kind}: {norm(s.worker_expr)} over {norm(s.task)}",
                  key=s.pool_kind)
    ctx.check(len(sites) == 2, f"{P}.P8", pl.site, "parallel map and serial twin", f"{len(sites)} sites", key="twins")
    lv = [n for n in pl.node.body if isinstance(n, ast.For) and "limit_level" in norm(n.iter)]
    ok = len(lv) == 2 and all(norm(l.iter) == "range(self.limit_level + 1)" for l in lv)
    ctx.check(ok, f"{P}.ORDER", pl.site, "levels are read and then reduced in ascending order (finer overwrites coarser)",
              f"level loops are {[norm(l.iter) for l in lv]}")
    if ok:
        red = lv[1]
        inner = [n for n in red.body if isinstance(n, ast.For)]
        okk = len(inner) == 1 and norm(inner[0].iter) == "plane_data[Lv]"
        stores = {}
        for s in ast.walk(inner[0]) if inner else []:
            if isinstance(s, ast.Assign) and isinstance(s.targets[0], ast.Subscript):
                stores[norm(s.targets[0])] = norm(s.value)
        okk = okk and stores.get("all_data[i][xa:xo, ya:yo]") == "out['data'][i]" and \
            stores.get("grid_level[xa:xo, ya:yo]") == "out['level']"
        e = [norm(n) for n in ast.walk(inner[0]) if isinstance(n, ast.Assign)] if inner else []
        okk = okk and "xa, xo = out['sx']" in e and "ya, yo = out['sy']" in e
        fl = [n for n in ast.walk(inner[0]) if isinstance(n, ast.For) and rules.is_count_range(n.iter, "self.nfidxs", ("all_data", "out['data']"))] if inner else []
        ctx.check(okk and len(fl) == 1, f"{P}.STORE", pl.site,
                  "field i of a box is stored into buffer i over the box's (sx, sy) span; grid_level gets the box's level",
                  f"stores are {stores}", where=loc(pl, red))
    e = {norm(n.targets[0]): norm(n.value) for n in walk_no_nested(pl.node) if isinstance(n, ast.Assign)}
    # one buffer per field; grid_level appended last; then ONE transposition that covers every array of all_data
    # (in place over enumerate(all_data), or as a comprehension re-binding all_data) — after the append
    allocs = [n for n in walk_no_nested(pl.node) if isinstance(n, ast.Assign) and norm(n.targets[0]) == "all_data"
              and norm(n.value) == "[self.limit_level_arr() for _ in range(self.nfidxs)]"]
    tsites = []
    for n in walk_no_nested(pl.node):
        if isinstance(n, ast.For) and norm(n.iter) == "enumerate(all_data)" and isinstance(n.target, ast.Tuple) \
                and len(n.target.elts) == 2 and [norm(b) for b in n.body] == [
                    f"all_data[{norm(n.target.elts[0])}] = {norm(n.target.elts[1])}.T"]:
            tsites.append(n)
        if isinstance(n, ast.Assign) and norm(n.targets[0]) == "all_data" and isinstance(n.value, ast.ListComp) \
                and len(n.value.generators) == 1 and not n.value.generators[0].ifs \
                and norm(n.value.generators[0].iter) == "all_data" and isinstance(n.value.generators[0].target, ast.Name) \
                and norm(n.value.elt) == f"{n.value.generators[0].target.id}.T":
            tsites.append(n)
    other_T = [n for n in walk_no_nested(pl.node) if isinstance(n, ast.Attribute) and n.attr in ("T", "transpose")
               and not any(x is n for t in tsites for x in ast.walk(t))]
    ap = [n.lineno for n in walk_no_nested(pl.node) if isinstance(n, ast.Expr) and norm(n) == "all_data.append(grid_level)"]
    ok = len(allocs) == 1 and len(tsites) == 1 and not other_T and bool(ap) and ap[0] < tsites[0].lineno
    ctx.check(ok, f"{P}.TRANSPOSE", pl.site,
              "one buffer per field, grid_level appended last, then the same transpose applied to every array",
              f"buffers: {[norm(a.value) for a in allocs]}; transposition sites over all_data: "
              f"{[norm(t)[:60] for t in tsites]} (other transposes: {[norm(x) for x in other_T]}); grid_level appended at "
              f"line {ap[:1]}, transposition at {[t.lineno for t in tsites]}: every array, grid_level included, must go "
              f"through the same single transposition", semantic=len(tsites) >= 1 and bool(ap))
    ini = prog.func(MA, "Mandoline.__init__", P)
    e = {norm(n.targets[0]): norm(n.value) for n in walk_no_nested(ini.node) if isinstance(n, ast.Assign)}
    ctx.check(e.get("self.nfidxs") == "len([i for i in self.fidxs if i is not None])", f"{P}.COUNT", ini.site,
              "nfidxs counts the real fields (grid_level excluded)", f"nfidxs = {e.get('self.nfidxs')}")
    formulas.rule_level_range(ctx, f"{P}.LEVEL-RANGE", pl)
    C07.P = P
    try:
        C07.output_rules(ctx)
    finally:
        C07.P = "C07"
    ctx.assume("level-0 boxes cover every pixel (run-time box set; not decided)")
    return ("Static: byte window of plate_box (2D) in the polynomial domain, span and factor formulas, per-box task "
            "tables zipped at the same box, ascending level overwrite, per-field store index agreement, common "
            "transpose, name/array pairing and coordinate formulas. Decides structural clauses of DESIGN §4.C08.",
            ["vk/fabio.py", "vk/rules.py"])
