"""Role obligations for the reader accessors of plotfile_cooker.py (shared by C01, C15, C20).

The selector kind of each accessor is *derived from the dispatch* in
LevelDataStream.__init__ (isinstance(farg, int) -> single, slice -> slice,
list/ndarray -> list), never from function names: whatever function the dispatch
stores for a kind must satisfy that kind's window / shape / component obligations.
"""
import ast

from vk import fabio
from vk.fabio import Num, Ratio, C, N, D, ArrV, ListAcc
from vk.model import AnalysisError, norm, loc, walk_no_nested

PC = "amr_kitchen/plotfile_cooker.py"

KIND_OF_TYPE = {"int": "single", "slice": "slice", "list": "list", "np.ndarray": "list",
                "numpy.ndarray": "list", "ndarray": "list"}


def stream_dispatch(prog, rule):
    """parse LevelDataStream.__init__: kind -> {'read_fun': FunctionInfo, 'file_fun': FunctionInfo}"""
    fi = prog.func(PC, "LevelDataStream.__init__", rule)
    out = {}
    chain_ifs = []
    for n in fi.node.body:
        if isinstance(n, ast.If):
            cur = n
            while True:
                chain_ifs.append(cur)
                if len(cur.orelse) == 1 and isinstance(cur.orelse[0], ast.If):
                    cur = cur.orelse[0]
                else:
                    break
    for br in chain_ifs:
        kinds = set()
        for c in ast.walk(br.test):
            if isinstance(c, ast.Call) and isinstance(c.func, ast.Name) and c.func.id == "isinstance" \
                    and len(c.args) == 2:
                types = c.args[1].elts if isinstance(c.args[1], ast.Tuple) else [c.args[1]]
                for t in types:
                    k = KIND_OF_TYPE.get(norm(t))
                    if k:
                        kinds.add(k)
        if len(kinds) != 1:
            continue
        kind = kinds.pop()
        funs = {}
        for s in br.body:
            if isinstance(s, ast.Assign) and len(s.targets) == 1 and isinstance(s.targets[0], ast.Attribute) \
                    and isinstance(s.value, ast.Name):
                r = prog.resolve_name(fi.module, s.value.id)
                if hasattr(r, "node"):
                    funs[s.targets[0].attr] = r
        if funs:
            out[kind] = funs
    return fi, out


def task_slots(prog, rule):
    """positions of (file, offset, selector) in the positional task built by LevelDataStream.__getitem__
    and of (file, selector) in LevelDataIterator's task"""
    gi = prog.func(PC, "LevelDataStream.__getitem__", rule)
    slots = None
    for n in ast.walk(gi.node):
        if isinstance(n, ast.Call) and isinstance(n.func, ast.Name) and n.func.id == "zip" and len(n.args) == 3:
            s = {}
            for i, a in enumerate(n.args):
                t = norm(a)
                if "bfiles" in t:
                    s["file"] = i
                elif "offsets" in t:
                    s["offset"] = i
                elif "farg" in t:
                    s["sel"] = i
            if len(s) == 3:
                if slots is not None and slots != s:
                    raise AnalysisError(rule, gi.site, "two task layouts in one function")
                slots = s
    if slots is None:
        raise AnalysisError(rule, gi.site, "cannot find the (file, offset, selector) task zip")
    return slots


def expected_comps(kind, sel):
    """component content (absolute field space) the returned array must have"""
    s = sel.text()
    if kind == "single":
        return ("single", sel.r, None, None)
    if kind == "slice":
        return ("range", Ratio.atom(f"{s}.start"), Ratio.atom(f"{s}.stop"), Ratio.atom(f"{s}.step"))
    if kind == "list":
        return ("list", sel.r, None, None)


def comps_match(ip, kind, sel, arr):
    exp = expected_comps(kind, sel)
    if kind == "single":
        c = arr.scalar_comp
        return (not arr.has_comp_axis) and c is not None and c.kind == "single" and ip.eq(c.a, Num(exp[1]))
    if not arr.has_comp_axis or not arr.comps or len(arr.comps) != 1:
        return False
    c = arr.comps[0]
    if kind == "slice":
        if c.kind != "range":
            return False
        step_ok = (c.c is not None and ip.eq(c.c, Num(exp[3])))
        return ip.eq(c.a, Num(exp[1])) and ip.eq(c.b, Num(exp[2])) and step_ok
    if kind == "list":
        return c.kind == "list" and ip.eq(c.a, Num(exp[1]))
    return False


def first_last(kind, sel):
    s = sel.text()
    if kind == "single":
        return sel.r, sel.r + 1
    if kind == "slice":
        return Ratio.atom(f"{s}.start"), Ratio.atom(f"{s}.stop")
    return Ratio.atom(f"{s}[0]"), Ratio.atom(f"{s}[-1]") + 1


def check_reader(ctx, prefix, fi, kind, mode, slots):
    """mode: 'box' (seek-addressed: task (file, offset, sel)) | 'bfile' (sequential scan: task (file, sel))"""
    prog = ctx.prog
    site = fi.site
    if mode == "box":
        sel_atom = f"args[{slots['sel']}]"
        file_atom = f"args[{slots['file']}]"
        off_atom = f"args[{slots['offset']}]"
    else:
        file_atom, sel_atom, off_atom = "args[0]", "args[1]", None
    p = fi.params[0] if fi.params else "args"
    sel_atom, file_atom = sel_atom.replace("args", p), file_atom.replace("args", p)
    off_atom = off_atom.replace("args", p) if off_atom else None
    roles = fabio.Roles(fabs={})
    roles.sel_kinds = {sel_atom: kind}
    res = fabio.analyse(prog, fi, roles, prefix)
    ip = res.interp
    fabio.report_generic(ctx, res, prefix)
    from vk import pools as _pools
    _pools.rule_arg_mutation(ctx, prefix, fi)
    sel = Num.atom(sel_atom)
    # positioning -----------------------------------------------------------
    opens = res.events("open")
    ctx.check(len(opens) == 1 and opens[0].path.text() == file_atom and opens[0].mode == "rb",
              f"{prefix}.OPEN", site,
              f"opens exactly the task's file element {file_atom} read-only binary",
              f"opens {[(o.path.text(), o.mode) for o in opens]}; the task's file element is {file_atom}",
              where=loc(fi, opens[0].node) if opens else None)
    seeks = res.events("seek_abs")
    if mode == "box":
        ok = len(seeks) == 1 and seeks[0].key == off_atom and not seeks[0].loops
        ctx.check(ok, f"{prefix}.SEEK-RECORDED", site,
                  f"one absolute seek, to the task's recorded offset {off_atom}, before the header is read",
                  f"absolute seeks {[s.key for s in seeks]}; the recorded offset of the box is {off_atom}",
                  where=loc(fi, seeks[0].node) if seeks else None)
    else:
        ctx.check(not seeks, f"{prefix}.SCAN", site, "sequential scan from the start of the file (no absolute seek)",
                  f"absolute seek to {[s.key for s in seeks]} inside a sequential scan")
        rl = res.events("readline")
        ok = bool(rl) and all(e.loops for e in rl)
        ctx.check(ok, f"{prefix}.SCAN-LOOP", site, "every FAB header is read inside the scan loop",
                  "a header is consumed outside the scan loop (one FAB would be skipped)")
    # window, shape, components ------------------------------------------------
    ffs = res.events("fromfile")
    ctx.check(len(ffs) == 1, f"{prefix}.ONE-READ", site, "one fromfile per FAB", f"{len(ffs)} fromfile calls per FAB")
    if len(ffs) != 1:
        return res
    ff = ffs[0]
    lo, hi = first_last(kind, sel)
    c8 = Ratio(8) * C("", 3).r
    exp_lo, exp_cnt = c8 * lo, C("", 3).r * (hi - lo)
    if ff.count is None or ff.arr.win_lo is None:
        ctx.finding(f"{prefix}.WINDOW", site, "window of the read is unbounded", where=loc(fi, ff.node))
    else:
        ok = ip.eq(ff.arr.win_lo, Num(exp_lo)) and ip.eq(ff.count, Num(exp_cnt))
        ctx.check(ok, f"{prefix}.WINDOW", site,
                  f"window read = [{Num(exp_lo).text()}, +8*({Num(exp_cnt).text()})) bytes past the FAB header "
                  f"(selector kind {kind})",
                  f"window read starts {ff.arr.win_lo.text()} bytes past the header with {ff.count.text()} elements; "
                  f"the {kind} selector {sel_atom} needs start {Num(exp_lo).text()} and {Num(exp_cnt).text()} elements",
                  where=loc(fi, ff.node),
                  objects={"window_lo": ff.arr.win_lo.text(), "count": ff.count.text()})
    if kind == "slice":
        si = res.events("slice-indices")
        ok = len(si) == 1 and si[0].sel.text() == sel_atom and isinstance(si[0].n, Num) and ip.eq(si[0].n, N(""))
        ctx.check(ok, f"{prefix}.SLICE-NORM", site,
                  "slice bounds are normalised against the FAB header's component count",
                  f"slice bounds normalised against {[e.n.text() for e in si]} (needs the FAB's N)")
    # returned data
    rets = res.events("return") if mode == "box" else res.events("append")
    vals = [e.value for e in rets]
    arrs = [v for v in vals if isinstance(v, ArrV)]
    if not arrs:
        ctx.finding(f"{prefix}.RETURN", site, f"no box array is returned/appended (values: {[v.text() for v in vals]})")
        return res
    for e in rets:
        arr = e.value
        if not isinstance(arr, ArrV):
            ctx.finding(f"{prefix}.RETURN", site, f"returns {arr.text()} instead of box data", where=loc(fi, e.node))
            continue
        dims_ok = arr.dims is not None and len(arr.dims) == 3 and all(
            ip.eq(arr.dims[i], D("", i)) for i in range(3)) and not arr.spatial
        ctx.check(dims_ok, f"{prefix}.SHAPE", site,
                  "returned array has the FAB's extents (D0, D1, D2) in order, no spatial sub-selection",
                  f"returned array has dims {[d.text() for d in arr.dims or []]} {arr.spatial} "
                  f"(needs D0, D1, D2 of the FAB header)", where=loc(fi, e.node))
        ctx.check(arr.order == "F" and not arr.flat, f"{prefix}.ORDER", site, "returned array is the order='F' reshape",
                  f"returned array has order {arr.order!r} flat={arr.flat}", where=loc(fi, e.node))
        ok = comps_match(ip, kind, sel, arr)
        raw = arr.has_comp_axis and arr.comps and arr.comps[0].kind == "raw"
        got = (arr.scalar_comp.text() if arr.scalar_comp is not None and not arr.has_comp_axis
               else " ++ ".join(c.text() for c in (arr.comps or [])))
        ctx.check(ok, f"{prefix}.SEL-SPACE", site,
                  f"returned components are exactly the selected fields ({kind} {sel_atom}) of this FAB",
                  (f"the raw slice {sel_atom} (field space) is applied to a window that starts at component "
                   f"{arr.comps[0].b.text()} (window space): any start > 0 returns other fields" if raw else
                   f"returned components are {got}; the {kind} selector {sel_atom} selects "
                   f"{expected_comps(kind, sel)[0]}({sel_atom})"),
                  key="return", where=loc(fi, e.node), objects={"components": got})
        ctx.check(not arr.arith, f"{prefix}.NO-ARITH", site, "no arithmetic between fromfile and the returned data",
                  f"arithmetic applied to the data: {arr.arith}", where=loc(fi, e.node))
    if mode == "bfile":
        r = res.events("return")
        ok = bool(r) and all(isinstance(e.value, ListAcc) and e.value.items and
                             all(isinstance(i, ArrV) for i in e.value.items) for e in r)
        ctx.check(ok, f"{prefix}.RETURN-LIST", site, "returns the list of every FAB's array in file order",
                  f"returns {[e.value.text() for e in r]}")
    return res

def selector_identity(ctx, P, fi=None):
    """the field selector a stream hands to its readers is the requested one (see the rule text)"""
    if fi is None:
        fi, _ = stream_dispatch(ctx.prog, P)
    site = fi.site
    p = fi.params
    # SELECTOR-IDENTITY: the field selector the readers get is the one that was requested — converted (np.array,
    # list) but never re-ordered or de-duplicated: entry k of the result is the k-th requested field
    REORDER = {"np.unique", "numpy.unique", "sorted", "np.sort", "numpy.sort", "set", "frozenset", "reversed", "np.flip",
               "numpy.flip", "dict.fromkeys", "np.argsort"}
    KEEP = {"np.array", "np.asarray", "numpy.array", "numpy.asarray", "list", "tuple", "np.atleast_1d", "int"}
    for n in walk_no_nested(fi.node):
        if isinstance(n, ast.Assign) and any(norm(t) == "self.farg" for t in n.targets):
            v = n.value
            if isinstance(v, ast.Call) and norm(v.func) == "slice":
                # an index list replaced by a slice: legal exactly when the list IS the ascending run first..last, which
                # only an element-by-element witness establishes (every difference is 1 / equality with the range);
                # a test on the end points and the length also admits permuted and repeated lists
                from vk.model import parents as _parents
                pm_ = _parents(fi.node)
                tests, cur = [], n
                while cur in pm_:
                    cur = pm_[cur]
                    if isinstance(cur, ast.If):
                        tests.append(norm(cur.test))
                wit = any(("np.diff(" in t and "== 1" in t and ("all(" in t)) or ("array_equal(" in t and ("arange(" in t or "range(" in t))
                          or ("== list(range(" in t) for t in tests)
                ctx.check(wit, f"{P}.SELECTOR-IDENTITY", site,
                          "an index list is turned into a slice only under an element-by-element test that it is that run",
                          f"the stream's field selector (a list) is rebuilt as `{norm(v)}` under `{' and '.join(tests) or 'no condition'}`: "
                          f"that does not establish that the list is the ascending run - a permuted or repeated list of the same "
                          f"span ([0, 2, 1, 3], [1, 1, 3]) passes and the readers then return fields first..last in file order, "
                          f"not the requested ones", key="farg:slice", where=loc(fi, n), semantic=True)
                continue
            chain = []
            while isinstance(v, ast.Call) and v.args:
                chain.append(norm(v.func))
                v = v.args[0]
            base_ok = norm(v) in ("self.farg", p[3] if len(p) > 3 else "")
            bad = [c for c in chain if c in REORDER or c.endswith((".sort", ".unique"))]
            unk = [c for c in chain if c not in REORDER and c not in KEEP]
            if isinstance(v, ast.Subscript) and isinstance(v.slice, ast.Slice) and v.slice.step is not None:
                bad.append(norm(v))
            ctx.decide(base_ok and not bad and not unk, bool(bad) or (base_ok and not unk), f"{P}.SELECTOR-IDENTITY", site,
                       "the stream's field selector is the requested one (type conversion only)",
                       f"the stream's field selector is rebuilt as `{norm(n.value)}`: {', '.join(bad) or 'this'} re-orders or "
                       f"de-duplicates the requested fields, while callers read entry k of the result as the k-th "
                       f"requested field", key=f"farg:{norm(n.value)[:40]}", where=loc(fi, n))
        elif isinstance(n, ast.Expr) and isinstance(n.value, ast.Call) and isinstance(n.value.func, ast.Attribute) and \
                norm(n.value.func.value) == "self.farg" and n.value.func.attr in ("sort", "reverse"):
            ctx.finding(f"{P}.SELECTOR-IDENTITY", site, f"`{norm(n)}` re-orders the requested fields in place",
                        key="farg:inplace", where=loc(fi, n), semantic=True)

