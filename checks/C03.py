"""C03 — taste accepts every well-formed plotfile under every option combination."""
import ast

from vk import pools, rules, formulas, wiring
from vk.formulas import A
from vk.model import norm, loc, AnalysisError, walk_no_nested
from checks import tastelib as tl, hfab

P = "C03"
TT = tl.TT


def box_coordinate_rules(ctx, prefix):
    """expected box bounds: grid[idx_lo] - dx/2, grid[idx_hi] + dx/2 == geo_low + idx*dx (+dx), tolerant compare"""
    fi = ctx.prog.func(TT, "Taster.taste_box_coordinates", prefix)
    rel = [formulas.geometry_relation("self", "lv", "dim")]
    lo = formulas.find_assign(fi, "box_lo")
    hi = formulas.find_assign(fi, "box_hi")
    K0, K1 = A("self.cells[lv]['indexes'][i][0][dim]"), A("self.cells[lv]['indexes'][i][1][dim]")
    formulas.formula_rule(ctx, f"{prefix}.COORD-FORMULA", fi, lo.value if lo else None,
                          A("self.geo_low[dim]") + K0 * A("self.dx[lv][dim]"), rel,
                          "expected lower bound of box i in dimension dim", key="lo")
    formulas.formula_rule(ctx, f"{prefix}.COORD-FORMULA", fi, hi.value if hi else None,
                          A("self.geo_low[dim]") + (K1 + 1) * A("self.dx[lv][dim]"), rel,
                          "expected upper bound of box i in dimension dim", key="hi")
    # comparisons: tolerant, against box[dim][0] / box[dim][1] of the same box
    env = rules.local_env(fi.node)
    found = {}
    notol = []
    for n in walk_no_nested(fi.node):
        if isinstance(n, ast.If):
            t = n.test
            neg = isinstance(t, ast.UnaryOp) and isinstance(t.op, (ast.Invert, ast.Not))
            c = t.operand if neg else t
            if isinstance(c, ast.Call) and norm(c.func) in ("np.isclose", "numpy.isclose", "math.isclose") \
                    and len(c.args) >= 2:
                a, b = norm(c.args[0]), norm(c.args[1])
                reports = any(isinstance(x, ast.Call) and norm(x.func) == "self.raise_error"
                              for s in n.body for x in ast.walk(s))
                found[(a, b)] = (neg, reports, n)
                if not _has_abs_tol(c):
                    notol.append(c)
            elif isinstance(t, ast.Compare) and any(v in norm(t) for v in ("box_lo", "box_hi")):
                found[("exact", norm(t))] = (False, False, n)
    def has(a, b):
        for (x, y), (neg, rep, n) in found.items():
            if {x, y} == {a, b} and neg and rep:
                return True
        return False
    box_src = None
    for n in walk_no_nested(fi.node):
        if isinstance(n, ast.For) and isinstance(n.target, ast.Tuple) and norm(n.iter) == "enumerate(self.boxes[lv])":
            box_src = [norm(e) for e in n.target.elts]
    ok = box_src == ["i", "box"]
    ctx.check(ok, f"{prefix}.COORD-PAIRING", fi.site, "box i of self.boxes[lv] is paired with index range i",
              f"boxes are enumerated as {box_src}")
    exact = [k for k in found if k[0] == "exact"]
    ctx.check(has("box_lo", "box[dim][0]") and has("box_hi", "box[dim][1]") and not exact,
              f"{prefix}.CMP-KIND", fi.site,
              "float box bounds are compared tolerantly (isclose) with box[dim][0] / box[dim][1]; mismatch reported",
              f"box-bound comparisons are {[k for k in found]}: float bounds need a tolerant comparison of box_lo "
              f"with box[dim][0] and box_hi with box[dim][1] (exact == rejects well-formed files)",
              where=loc(fi, fi.node))
    ctx.check(not notol, f"{prefix}.CMP-KIND", fi.site,
              "the tolerant comparison of box bounds has an absolute tolerance (numpy's default atol=1e-8)",
              f"`{norm(notol[0]) if notol else ''}` has no absolute tolerance (math.isclose defaults to abs_tol=0, "
              f"np.isclose with atol=0): a box face stored as exactly 0.0 is never close to its recomputed value "
              f"(~1e-18 of round-off), so a well-formed plotfile whose domain straddles the origin is rejected",
              key="abs-tol", where=loc(fi, notol[0]) if notol else None)
    formulas.rule_level_range(ctx, f"{prefix}.LEVEL-RANGE", fi)


def _has_abs_tol(call):
    """library knowledge: numpy.isclose/allclose default to atol=1e-8; math.isclose defaults to abs_tol=0.0"""
    f = norm(call.func)
    kws = {k.arg: k.value for k in call.keywords if k.arg}
    def zero(v):
        return isinstance(v, ast.Constant) and isinstance(v.value, (int, float)) and v.value == 0
    if f.startswith("math."):
        return "abs_tol" in kws and not zero(kws["abs_tol"])
    if len(call.args) >= 4:
        return not zero(call.args[3])
    return not ("atol" in kws and zero(kws["atol"]))


def run(ctx):
    prog = ctx.prog
    taste, cfgs = tl.configurations(prog, P)
    cls = prog.cls(TT, "Taster")
    # flags control their passes ------------------------------------------------
    ctl = {"binary_headers": "taste_binary_headers", "binary_shape": "taste_binary_shape",
           "boxes_coordinates": "taste_box_coordinates"}
    for i, flag in enumerate(tl.FLAGS):
        if flag not in ctl:
            continue
        meth = ctl[flag]
        bad = []
        for combo, (must, may) in cfgs.items():
            on = combo[i]
            if on and meth not in must:
                bad.append(f"{tl.cfg_name(combo)}: {meth} not invoked")
            if not on and (meth in must or meth in may):
                bad.append(f"{tl.cfg_name(combo)}: {meth} invoked although the flag is off")
        ctx.check(not bad, f"{P}.FLAG-CONTROLS", taste.site, f"{flag} <=> {meth} is invoked, in all 16 configurations",
                  f"{flag} does not control {meth}: {bad[:3]}", key=flag)
    always = [m for m in ("taste_plotfile_structure",) if all(m in must for must, _ in cfgs.values())]
    ctx.check(always == ["taste_plotfile_structure"], f"{P}.FLAG-CONTROLS", taste.site,
              "taste_plotfile_structure runs in every configuration", "structure pass is conditional",
              key="structure")
    # every invoked method is clean, per configuration --------------------------------
    defects = {}
    reach = {}
    for combo, (must, may) in cfgs.items():
        for mname in dict.fromkeys(must + may):
            reach.setdefault(mname, []).append(combo)
    n_eval = 0
    for mname, combos in sorted(reach.items()):
        meth = prog.find_method(cls, mname)
        if meth is None:
            ctx.finding(f"{P}.U2", taste.site, f"taste() invokes self.{mname}, which no class in the hierarchy defines "
                                               f"({len(combos)} configurations)", key=mname)
            continue
        ds = tl.method_defects(ctx, P, meth)
        n_eval += len(combos)
        if not ds:
            ctx.ok(f"{P}.CONFIG-CLEAN", meth.site, f"clean (names bind, attributes defined, task kinds agree) in the "
                                                  f"{len(combos)} configurations x {{fail, nofail}} that reach it",
                   key=mname)
        for rule, key, text, node in ds:
            ctx.finding(f"{P}.{rule}", meth.site,
                        f"{text}; reached in {len(combos)}/16 configurations x {{fail,nofail}} "
                        f"(e.g. {tl.cfg_name(combos[0])})", key=key, where=loc(meth, node))
    ctx.note("configurations", {"count": len(cfgs), "method_reach": {m: len(c) for m, c in reach.items()}})
    # pool binding for taste(): self.pool assigned before the passes
    first = [norm(s) for s in taste.node.body if isinstance(s, ast.Assign)]
    ctx.check(any(s.startswith("self.pool = multiprocessing.Pool(") for s in first), f"{P}.POOL-BOUND", taste.site,
              "self.pool is created at the start of taste()", f"taste() assigns {first}")
    # task builders / co-sort: on well-formed scattered layouts the walk order must be the file order
    tl.task_builder(ctx, P, "Taster.taste_binary_headers",
                    {"bfile": "file", "offsets": "offsets_sorted", "indices": "indices_sorted",
                     "box_ids": "ids_sorted", "nfields": "nfields", "lv": "lv"})
    tl.task_builder(ctx, P, "Taster.taste_binary_shape",
                    {"bfile": "file", "indices": "indices_sorted", "box_ids": "ids_sorted",
                     "nfields": "nfields", "lv": "lv"})
    tl.check_consumers(ctx, P)
    # constructor / error discipline (every option combination builds a full reader; a rejected good file is a
    # violation of this property just as an accepted bad one is of C04)
    tl.check_error_discipline(ctx, P)
    tl.headers_worker(ctx, P)
    tl.shape_worker(ctx, P)
    hfab.check_builder(ctx, P)
    for nme in ("shape_from_header", "indexes_and_shape_from_header"):
        hfab.check_parser(ctx, P, nme)
    box_coordinate_rules(ctx, P)
    for q in ("Taster.taste_plotfile_structure", "Taster.taste_binary_headers", "Taster.taste_binary_shape"):
        formulas.rule_level_range(ctx, f"{P}.LEVEL-RANGE", prog.func(TT, q, P))
    # CLI wiring (E7)
    tl.cli_wiring(ctx, P)
    if ctx.tier == "thorough":
        # sweep: every method of Taster (reachable or not) for definedness, every parser sibling
        for m in cls.methods.values():
            if m.node.name in reach:
                continue
            for rule, key, text, node in tl.method_defects(ctx, P, m):
                ctx.info(f"{P}.{rule}", m.site, f"(unreached by taste()) {text}", key=key)
        hfab.check_sibling_parsers(ctx, P)
    ctx.assume("well-formed input: every FAB is canonical-header + 8*C*N bytes, offsets recorded at header starts")
    return ("Static: constant propagation of the 16 flag configurations through Taster.taste() listing the validator "
            "methods each invokes; each invoked method must be clean (names bind, attributes defined, pool bound, "
            "task keys / argument kinds agree); per-file task tables co-sorted by argsort(offsets); expected-header "
            "template canonical; box-coordinate expectation equals lo + idx*dx (rational-function identity under "
            "hi = lo + n*dx) with tolerant comparison; CLI flag polarity. Decides structural clauses of DESIGN "
            "§4.C03, not acceptance as a value-level fact.",
            ["vk/fabio.py", "vk/rules.py formula evaluator", "symbolic header templates (checks/hfab.py)"])
