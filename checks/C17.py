"""C17 — chk2plt carries the checkpoint's interior state into a valid plotfile."""
import ast

from vk import fabio, pools, rules, formulas, wiring, grammar
from vk.fabio import Num, N, D, Roles, Ratio, ArrV, MinMaxV, ListAcc, Tup, HdrV, BytesV
from vk.formulas import A
from vk.model import norm, loc, AnalysisError, walk_no_nested, call_name, parents
from checks import writers, headers, taskmaps, C13
from checks.headers import Spec, one_ph, joined, literal, tokens_ph, level_path, ph, lit, join_of

P = "C17"
CK = "amr_kitchen/chk2plt/chk2plt.py"
CR = "amr_kitchen/chk2plt/checkpoint_reader.py"
SLOTS = ["b_state", "b_gradp", "b_I_R", "idxs_state", "offsets_gradp", "offsets_I_R", "b_plt",
         "state_field_indices", "do_gradp", "do_species_reactions", "floor_massfracs"]


def worker_rules(ctx):
    prog = ctx.prog
    fi = prog.func(CK, "write_plt_bin_from_chk", P)
    site = fi.site
    # positional task unpack: arity and names
    unpack = [n for n in fi.node.body if isinstance(n, ast.Assign) and isinstance(n.targets[0], ast.Tuple)
              and norm(n.value) == fi.params[0]]
    names = [norm(e) for e in unpack[0].targets[0].elts] if unpack else []
    ctx.check(names == SLOTS, f"{P}.P2", site, f"the worker unpacks the 11 task slots {SLOTS}",
              f"the worker unpacks {names}", key="unpack")
    if names != SLOTS:
        raise AnalysisError(f"{P}.P2", site, "task layout changed; role table must be re-confirmed")
    a = {n: f"args[{i}]" for i, n in enumerate(SLOTS)}
    eq = {}
    for i in range(3):
        gh = Num(D("s", i).r - D("box", i).r)
        eq[f"floordiv({gh.text()},2)"] = gh.r.n.divide_by_monomial_const(2)
        eq[f"D{i}@g"] = D("box", i).r.n
        eq[f"D{i}@r"] = D("box", i).r.n
    roles = Roles(fabs={a["b_state"]: "s", f"{a['b_gradp']}[#bid]": "g", f"{a['b_I_R']}[#bid]": "r", a["b_plt"]: "w"},
                  level_index={f"{a['idxs_state']}[#bid]": "box"}, equiv=eq)
    res = fabio.analyse(prog, fi, roles, P)
    fabio.report_generic(ctx, res, P)
    ip = res.interp
    ctx.assume("ghost cells are symmetric: state extent - interior extent is even in every direction")
    ctx.assume("gradp and I_R FABs have the interior extents of their box (data_has_ghost = False)")
    # state: sequential scan, whole FAB; subsets: absolute seek with their own offsets (SIDE-COH)
    for ff in {id(e): e for e in res.events("fromfile")}.values():
        fab = ff.arr.fab
        full = fabio.C(fab, 3).r * N(fab).r
        ok = ff.count is not None and ip.eq(ff.arr.win_lo, Num(0)) and ff.count.r == full
        ctx.check(ok, f"{P}.WINDOW", site, f"subset {fab}: the whole FAB is read", f"subset {fab}: window is not the "
                  f"whole FAB", key=fab, where=loc(fi, ff.node))
    want = {"g": a["offsets_gradp"] + "[#bid]", "r": a["offsets_I_R"] + "[#bid]"}
    seen = set()
    for sk in res.events("seek_abs"):
        side = sk.h.fab
        if (side, sk.key) in seen:
            continue
        seen.add((side, sk.key))
        ctx.check(want.get(side) == sk.key, f"{P}.SIDE-COH", site,
                  f"subset {side} is addressed with its own offsets of the same box ({sk.key})",
                  f"subset {side}'s file is seeked with {sk.key}; its own offsets are {want.get(side)}",
                  key=f"seek:{side}", where=loc(fi, sk.node))
    ctx.check({s for s, _ in seen} == {"g", "r"}, f"{P}.SIDE-COH", site, "gradp and I_R are seek-addressed per box",
              f"seek-addressed subsets: {sorted(s for s, _ in seen)}", key="seek-sides")
    rl_state = [e for e in res.events("readline") if e.h.fab == "s"]
    ctx.check(all(e.fabkey in ("start", "scan") for e in rl_state) and rl_state, f"{P}.SCAN", site,
              "the state file is scanned sequentially", "state file is not scanned sequentially")

    def flags(path):
        d = {}
        for c in path.conds:
            if c[0] in ("do_gradp", "do_species_reactions", "floor_massfracs"):
                d[c[0]] = c[1]
        return d

    def comps_ok(arr, path):
        f = flags(path)
        cs = arr.comps or []
        exp = ["s"] + (["g"] if f.get("do_gradp") else []) + (["r"] if f.get("do_species_reactions") else [])
        got = [c.fab for c in cs]
        whole = all(c.kind == "range" and c.a.r == Ratio(0) and ip.eq(c.b, N(c.fab)) for c in cs if c.kind == "range")
        ok = got == exp and whole and all(c.kind == "range" for c in cs)
        return ok, f"all state components, then gradp iff do_gradp, then I_R iff do_species_reactions " \
                   f"(flags {f}): {[c.text()[:40] for c in cs]}"

    def hdr_ok(hdr, path):
        return hdr.source == "built" and hdr.idx_prov == "level" and hdr.idx_fab == "box", \
            f"canonical header of the box's interior index range ({hdr.idx_prov}:{hdr.idx_fab})"
    n = writers.check_fab_writes(ctx, P, res, a["b_plt"], comps_ok, hdr_ok, dims_fab="box")
    ctx.floor("flag paths with a FAB write group", n, 8)
    # min/max over the written array
    for p in res.paths:
        if getattr(p, "from_handler", False):
            continue
        wr = [e for e in p.events if e.kind == "write" and isinstance(e.value, BytesV) and e.value.kind == "data"]
        if not wr:
            continue
        src = getattr(wr[-1].value.arr, "src", wr[-1].value.arr)
        key = "|".join(f"{k}={v}" for k, v in sorted(flags(p).items()))
        for e in [e for e in p.events if e.kind == "append" and e.list in ("mins_plt", "maxs_plt")]:
            v = e.value
            ok = isinstance(v, MinMaxV) and v.arr.aid == src.aid and v.which == e.list[:3] and \
                (v.axis or "").replace(" ", "") == "(0,1,2)"
            ctx.check(ok, f"{P}.MINMAX-SOURCE", site, f"{e.list}: extremum over the spatial axes of the written array",
                      f"{e.list} entry is {v.text()[:80]}", key=f"{e.list}:{key}", where=loc(fi, e.node))
        # flooring: in-place division of the Y range by its own sum, only when floor_massfracs
        st = [e for e in p.events if e.kind == "store" and getattr(e, "aug", None) == "Div"]
        fl = flags(p).get("floor_massfracs")
        ok = (len(st) == 1) == bool(fl) and all(
            e.index == "(..., slice(Y_start, Y_end, None))" or e.index == "(..., Y_start:Y_end)" for e in st)
        ctx.check(ok, f"{P}.FLOOR", site,
                  "mass fractions [Y_start:Y_end] are divided by their sum exactly when flooring is on",
                  f"in-place stores on the data: {[(e.target, getattr(e, 'aug', None)) for e in st]} with "
                  f"floor_massfracs={fl}", key="floor:" + key)
    env = rules.local_env(fi.node)
    ysum = formulas.find_assign(fi, "Y_sum")
    ok = ysum is not None and norm(ysum.value) == "np.sum(data[..., Y_start:Y_end], axis=-1)" and \
        norm(env.get("Y_start")) == "state_field_indices['Y_start']" and norm(env.get("Y_end")) == "state_field_indices['Y_end']"
    ctx.check(ok, f"{P}.FLOOR", site, "the divisor is the sum over exactly the species range of the state vector",
              "Y_sum is not np.sum(data[..., Y_start:Y_end], axis=-1)", key="divisor")
    # ghost strip per axis: decided by the SHAPE obligation (dims == interior extents) through the trim algebra
    for e in res.events("return"):
        v = e.value
        ok = isinstance(v, Tup) and [getattr(i, "name", None) for i in v.items] == ["offsets_plt", "mins_plt", "maxs_plt"]
        ctx.check(ok, f"{P}.RETURN", site, "returns (offsets, mins, maxs)", f"returns {v.text()[:60]}")
    return res


def producer_rules(ctx):
    prog = ctx.prog
    cv = prog.func(CK, "chk2plt.convert", P)
    site = cv.site
    tab = "self.boxes[level]['state_paths']"
    pl = taskmaps.map_and_tasks(ctx, P, cv, tab, "self.nboxes[level]", "self.boxes[level]['state_offsets']",
                                "state_bin_box_ids", "mp_args", sorted_by_offsets=True)
    sites = pools.find_sites(prog, cv)
    ctx.check(len(sites) == 1, f"{P}.POOL", site, "one pool call per level", f"{len(sites)} pool calls")
    for s in sites:
        pools.rule_P1(ctx, P, s)
        pools.rule_X2(ctx, P, s)
        pools.rule_P3(ctx, P, prog, s)
        ctx.check([w.qualname for w in s.workers] == ["write_plt_bin_from_chk"] and norm(s.task) == "mp_args",
                  f"{P}.POOL", site, "imap(write_plt_bin_from_chk, mp_args)", f"pool applies {norm(s.worker_expr)}",
                  key="worker")
    pools.rule_P7(ctx, P, prog, cv)
    if pl is not None:
        lst = None
        for n in ast.walk(pl.loop):
            if isinstance(n, ast.Assign) and norm(n.targets[0]) == "mp_call" and isinstance(n.value, ast.List):
                lst = n.value
        if lst is None or len(lst.elts) != len(SLOTS):
            ctx.finding(f"{P}.P2", site, f"the task has {len(lst.elts) if lst else '?'} slots; the worker unpacks "
                                         f"{len(SLOTS)}", key="arity", where=loc(cv, pl.loop))
        else:
            ids = pl.ids_sem
            sem = [taskmaps.sem_in(cv, e, pl.var, lst.lineno) for e in lst.elts]
            b = "self.boxes[level]"
            exp = {
                0: f"os.path.join(lv_chk_root, {pl.var})",
                3: f"SEL({b}['indices'],{ids})",
                4: f"SEL({b}['gradp_offsets'],{ids})",
                5: f"SEL({b}['I_R_offsets'],{ids})",
                7: "self.state_field_indices", 8: "self.do_gradp", 9: "self.do_species_reactions",
                10: "self.floor_massfracs",
            }
            for i, w in exp.items():
                ctx.check(sem[i] == w, f"{P}.P2", site, f"slot {i} ({SLOTS[i]}) = {w[:80]}",
                          f"slot {i} ({SLOTS[i]}) is {sem[i]}; expected {w}: per-box lists must be selected by the "
                          f"offset-sorted box ids of this state file and each subset must use its own table",
                          key=f"slot{i}", where=loc(cv, lst), objects={"got": sem[i]})
            for i, subset in ((1, "gradp"), (2, "I_R")):
                e = lst.elts[i]
                ok = isinstance(e, ast.ListComp) and norm(e.elt).startswith("os.path.join(lv_chk_root, ") and \
                    taskmaps.sem_in(cv, e.generators[0].iter, pl.var, lst.lineno) == f"SEL({b}['{subset}_paths'],{ids})"
                ctx.check(ok, f"{P}.SIDE-COH", site, f"slot {i} lists the {subset} files of the same boxes",
                          f"slot {i} is {norm(e)[:80]}; expected the {subset}_paths of the offset-sorted box ids",
                          key=f"slot{i}", where=loc(cv, lst))
            w = formulas.find_assign(cv, "bin_path_plt")
            ok = w is not None and norm(w.value) == f"os.path.join(lv_plt_root, {pl.var}.replace('state', 'Cell'))" \
                and norm(lst.elts[6]) == "bin_path_plt"
            ctx.check(ok, f"{P}.P4", site, "output file = <pltdir>/Level_l/<state file name with Cell>: distinct per file",
                      f"bin_path_plt is {norm(w.value) if w else None}", key="slot6")
            st = [n for n in ast.walk(pl.loop) if isinstance(n, ast.Assign) and norm(n.targets[0]).startswith("all_binfiles_plt[")]
            ok = len(st) == 1 and taskmaps.sem_in(cv, st[0].targets[0].slice, pl.var, st[0].lineno) == ids and \
                norm(st[0].value) == f"{pl.var}.replace('state', 'Cell')"
            ctx.check(ok, f"{P}.P5", site, "the level header's file column is the same Cell file name, per box of the file",
                      "all_binfiles_plt is not filled with the output file name for the boxes of this state file",
                      key="binfiles")
    # roots
    env = {norm(n.targets[0]): norm(n.value) for n in walk_no_nested(cv.node) if isinstance(n, ast.Assign)}
    ok = env.get("lv_chk_root") == "os.path.join(self.chkdir, f'Level_{level}')" and \
        env.get("lv_plt_root") == "os.path.join(self.pltdir, f'Level_{level}')"
    ctx.check(ok, f"{P}.LEVEL-COH", site, "checkpoint data is read under chkdir, plotfile data written under pltdir, "
                                         "same level", f"roots are {env.get('lv_chk_root')}, {env.get('lv_plt_root')}")
    # scatter
    sc = [n for n in walk_no_nested(cv.node) if isinstance(n, ast.For) and norm(n.iter) == "zip(out, state_bin_box_ids)"]
    ok = False
    if len(sc) == 1 and norm(sc[0].target) == "((offsets, mins, maxs), bid)":
        body = [norm(b) for b in sc[0].body]
        ok = body == ["all_offsets_plt[bid] = offsets", "all_mins_plt[bid, :] = mins", "all_maxs_plt[bid, :] = maxs"]
    ctx.check(ok, f"{P}.P5", site, "results are scattered to the offset-sorted box ids of their state file",
              f"scatter loop is {[norm(n.iter) for n in sc]}", key="scatter")
    for nme, shape in (("all_offsets_plt", "self.nboxes[level]"), ("all_mins_plt", "(self.nboxes[level], self.nfields_out)"),
                       ("all_maxs_plt", "(self.nboxes[level], self.nfields_out)")):
        ok = env.get(nme) == f"np.empty({shape})"
        ctx.check(ok, f"{P}.P5", site, f"{nme} has one slot per box", f"{nme} = {env.get(nme)}", key=nme)
    calls = [norm(c) for c in walk_no_nested(cv.node) if isinstance(c, ast.Call) and norm(c.func).startswith("self.write")]
    ok = calls == ["self.write_level_header(level, all_binfiles_plt, all_offsets_plt, all_mins_plt, all_maxs_plt)",
                   "self.write_global_header()"]
    ctx.check(ok, f"{P}.SEQUENCE", site, "per-level header with the scattered tables, then the global header",
              f"convert() calls {calls}")
    formulas.rule_level_range(ctx, f"{P}.LEVEL-RANGE", cv, attr="max_level")


def nfields_key_order(ctx):
    """keys of CheckpointReader's `self.nfields` in insertion order (dict literal, then stores in loops over literal
    lists) - the order a loop over that dict follows"""
    ini = ctx.prog.func(CR, "CheckpointReader.__init__", P)
    keys = []

    def add(k):
        if k not in keys:
            keys.append(k)

    def scan(stmts, env):
        for s in stmts:
            if isinstance(s, ast.Assign):
                for t in s.targets:
                    if norm(t) == "self.nfields" and isinstance(s.value, ast.Dict):
                        for k in s.value.keys:
                            if isinstance(k, ast.Constant):
                                add(k.value)
                    for e in ([t] if not isinstance(t, (ast.Tuple, ast.List)) else list(ast.walk(t))):
                        if isinstance(e, ast.Subscript) and norm(e.value) == "self.nfields":
                            k = e.slice
                            if isinstance(k, ast.JoinedStr) and len(k.values) == 1 and isinstance(k.values[0], ast.FormattedValue):
                                k = k.values[0].value
                            if isinstance(k, ast.Constant):
                                add(k.value)
                            elif isinstance(k, ast.Name) and k.id in env:
                                add(env[k.id])
                            else:
                                return False
            elif isinstance(s, ast.For):
                if isinstance(s.target, ast.Name) and isinstance(s.iter, (ast.List, ast.Tuple)) and \
                        all(isinstance(x, ast.Constant) for x in s.iter.elts):
                    for x in s.iter.elts:
                        if scan(s.body, {**env, s.target.id: x.value}) is False:
                            return False
                elif scan(s.body, env) is False:
                    return False
            elif isinstance(s, (ast.With, ast.If, ast.Try)):
                for blk in (getattr(s, "body", []), getattr(s, "orelse", []), getattr(s, "finalbody", [])):
                    if scan(blk, env) is False:
                        return False
        return True
    if scan(ini.node.body, {}) is False or not keys:
        return None
    return keys


def evaluate_names_and_count(ctx, fi):
    """COMPONENT-ORDER / COUNT decided by evaluation (vk/miniev.py): the statements of chk2plt.__init__ that build
    `self.fields_out` and `self.nfields_out` are run for the four (gradp, reactions) configurations over symbolic
    species and field counts; the result must be the worker's concatenation order state ++ gradp ++ I_R.
    Returns None when the code uses a form the evaluator does not model (the shape rule then speaks)."""
    from vk import miniev
    site = fi.site
    keys = nfields_key_order(ctx)
    if keys is None:
        return None
    # the local list that becomes self.fields_out and everything aliasing it are protected: a statement touching them
    # that cannot be evaluated makes the evaluation undecided
    protected = {"self.fields_out", "self.nfields_out"}
    for n in walk_no_nested(fi.node):
        if isinstance(n, ast.Assign) and norm(n.targets[0]) == "self.fields_out" and isinstance(n.value, ast.Name):
            protected.add(n.value.id)
    results = {}
    for g in (False, True):
        for r in (False, True):
            m = miniev.Machine(config={"self.do_gradp": g, "self.do_species_reactions": r},
                               attrs={"self.nfields": {k: miniev.Sym(f"nfields[{k}]") for k in keys}})
            try:
                for s in fi.node.body:
                    try:
                        m.stmt(s)
                    except miniev.Unsupported as e:
                        touched = {norm(x) for x in ast.walk(s) if isinstance(x, (ast.Name, ast.Attribute))}
                        if touched & protected:
                            raise
                        for t in ast.walk(s):
                            if isinstance(t, ast.Name) and isinstance(t.ctx, ast.Store):
                                m.env[t.id] = miniev.Sym(t.id)
                            elif isinstance(t, ast.Attribute) and isinstance(t.ctx, ast.Store) and norm(t) not in m.config:
                                m.env[norm(t)] = miniev.Sym(norm(t))
                                m.attrs[norm(t)] = miniev.Sym(norm(t))
                    if "self.fields_out" in m.env and "self.nfields_out" in m.env:
                        break
            except miniev.Unsupported as e:
                ctx.info(f"{P}.COMPONENT-ORDER", site, f"name list not evaluable ({e}); the statement-shape rule decides")
                return None
            if "self.fields_out" not in m.env or "self.nfields_out" not in m.env:
                return None
            results[(g, r)] = (m.env["self.fields_out"], m.env["self.nfields_out"])
    E = miniev.Each
    ok_names, ok_count = True, True
    witness = ""
    for (g, r), (names, count) in sorted(results.items()):
        exp = ["x_velocity", "y_velocity", "z_velocity", "density", E("Y({self.species})", "self.species"),
               "rhoh", "temp", "RhoRT"]
        if g:
            exp += ["gradpx", "gradpy", "gradpz"]
        if r:
            exp += [E("I_R({self.species})", "self.species")]
        if not isinstance(names, list):
            return None
        if names != exp:
            ok_names = False
            witness = witness or (f"with gradp={g}, species_reactions={r} the names are {names!r}; the worker writes "
                                  f"state ++ gradp ++ I_R, i.e. {exp!r}")
        ec = miniev.Lin({"nfields[state]": 1, "nfields[gradp]": int(g), "nfields[I_R]": int(r)})
        try:
            same = miniev.Lin.of(count) == ec
        except miniev.Unsupported:
            return None
        if not same:
            ok_count = False
            witness = witness or f"with gradp={g}, species_reactions={r} nfields_out = {count!r}, expected {ec!r}"
    ctx.check(ok_names, f"{P}.COMPONENT-ORDER", site,
              "evaluated for the 4 flag configurations: names are velocity, density, Y(species), rhoh, temp, RhoRT, then "
              "gradp iff do_gradp, then I_R(species) iff do_species_reactions - the worker's concatenation order "
              f"(iteration order of self.nfields taken from the reader: {keys})",
              "the output names do not follow the order in which the worker concatenates the data: " + witness +
              " - every component after the first difference is stored under another component's name",
              where=loc(fi, fi.node), semantic=True)
    ctx.check(ok_count, f"{P}.COUNT", site, "evaluated: nfields_out = state + gradp (iff) + I_R (iff)", witness, semantic=True)
    return True


def fields_rules(ctx):
    """component names in the order the worker concatenates them, under the same flags; count"""
    fi = ctx.prog.func(CK, "chk2plt.__init__", P)
    site = fi.site
    seq = []
    for n in fi.node.body:
        t = norm(n)
        if isinstance(n, ast.Assign) and norm(n.targets[0]) == "fields":
            seq.append(("base", norm(n.value)))
        elif isinstance(n, ast.For) and "fields.append" in t:
            seq.append(("loop", norm(n.iter), norm(n.body[0])))
        elif isinstance(n, ast.If) and "fields.append" in t:
            inner = [(norm(x.iter), norm(x.body[0])) for x in n.body if isinstance(x, ast.For)]
            seq.append(("if", norm(n.test), inner))
    exp = [("base", "['x_velocity', 'y_velocity', 'z_velocity', 'density']"),
           ("loop", "self.species", "fields.append(f'Y({sp})')"),
           ("loop", "['rhoh', 'temp', 'RhoRT']", "fields.append(f)"),
           ("if", "self.do_gradp", [("['gradpx', 'gradpy', 'gradpz']", "fields.append(f)")]),
           ("if", "self.do_species_reactions", [("self.species", "fields.append(f'I_R({sp})')")])]
    evaluated = evaluate_names_and_count(ctx, fi)
    if evaluated is None:
        ctx.check(seq == exp, f"{P}.COMPONENT-ORDER", site,
                  "names: velocity, density, Y(species), rhoh, temp, RhoRT; then gradp iff do_gradp; then I_R(species) iff "
                  "do_species_reactions — the order in which the worker concatenates state ++ gradp ++ I_R",
                  f"fields_out is built as {seq}", where=loc(fi, fi.node))
    # species names come from ONE family of reference fields at a time (Y(...), or I_R(...) as a fallback): a pattern
    # that matches both families lists every species twice and the conversion is refused
    pats = [c.args[0].value for c in walk_no_nested(fi.node) if isinstance(c, ast.Call)
            and norm(c.func) in ("re.search", "re.match", "re.fullmatch", "re.findall", "re.compile") and c.args
            and isinstance(c.args[0], ast.Constant) and isinstance(c.args[0].value, str)]
    both = [p_ for p_ in pats if "Y" in p_.replace("I_R", "") and "I_R" in p_]
    ctx.check(not both, f"{P}.COMPONENT-ORDER", site,
              "species names are taken from one family of reference fields per pattern",
              f"the pattern {both[0]!r} matches Y(sp) and I_R(sp) fields alike: a reference plotfile that carries both "
              f"lists every species twice, the field count no longer matches and no plotfile is written"
              if both else "", key="species-source", semantic=True)
    # state layout table agrees with the names
    cr = ctx.prog.cls(CR, "CheckpointReader")
    tab = None
    for n in cr.node.body:
        if isinstance(n, ast.Assign) and norm(n.targets[0]) == "state_field_indices":
            tab = {k.value: norm(v) for k, v in zip(n.value.keys, n.value.values)}
    exp_tab = {"x_velocity": "0", "y_velocity": "1", "z_velocity": "2", "density": "3", "Y_start": "4", "Y_end": "-3",
               "rhoh": "-3", "temp": "-2", "RhoRT": "-1"}
    ctx.check(tab == exp_tab, f"{P}.COMPONENT-ORDER", CR + "::CheckpointReader", "PeleLMeX state layout table",
              f"state_field_indices is {tab}", key="state-layout")
    nf = []
    for n in fi.node.body:
        if isinstance(n, ast.Assign) and norm(n.targets[0]) == "self.nfields_out":
            nf.append(("base", norm(n.value)))
        if isinstance(n, ast.If) and "self.nfields_out +=" in norm(n):
            nf.append((norm(n.test), [norm(b) for b in n.body]))
    exp_nf = [("base", "self.nfields['state']"), ("self.do_gradp", ["self.nfields_out += self.nfields['gradp']"]),
              ("self.do_species_reactions", ["self.nfields_out += self.nfields['I_R']"])]
    if evaluated is None:
        ctx.check(nf == exp_nf, f"{P}.COUNT", site, "nfields_out = state + gradp (iff) + I_R (iff)", f"nfields_out is {nf}")
    guard = [n for n in fi.node.body if isinstance(n, ast.If) and norm(n.test) == "len(self.fields_out) != self.nfields_out"
             and rules.always_raises(n.body)]
    ctx.check(bool(guard), f"{P}.COUNT", site, "names/count disagreement raises before converting",
              "no `len(fields_out) != nfields_out -> raise` guard", key="guard")
    flg = {norm(n.targets[0]): norm(n.value) for n in fi.node.body if isinstance(n, ast.Assign)}
    ok = flg.get("self.do_gradp") == "gradp" and flg.get("self.do_species_reactions") == "species_reactions" and \
        flg.get("self.floor_massfracs") == "floor_massfracs" and flg.get("self.fields_out") == "fields"
    ctx.check(ok, f"{P}.WIRING", site, "constructor flags are stored verbatim", f"flags stored as {flg}")


def reader_rules(ctx):
    prog = ctx.prog
    ini = prog.func(CR, "CheckpointReader.__init__", P)
    site = ini.site
    env = {norm(n.targets[0]): norm(n.value) for n in walk_no_nested(ini.node) if isinstance(n, ast.Assign)}
    ok = env.get("self.grid_sizes") == "[np.max(self.boxes[0]['indices'][:, 1, :], axis=0) + 1]" and \
        "self.grid_sizes.append(self.grid_sizes[-1] * 2)" in [norm(n) for n in walk_no_nested(ini.node) if isinstance(n, ast.Expr)]
    ctx.check(ok, f"{P}.GRID-FORMULA", site, "grid size of level 0 = max high index + 1; doubled per level",
              f"grid_sizes = {env.get('self.grid_sizes')}")
    ok = env.get("self.domain") == "self.geo_hi - self.geo_lo" and \
        env.get("self.dx") == "np.array([self.domain / self.grid_sizes[lv] for lv in range(self.max_level + 1)])"
    ctx.check(ok, f"{P}.GRID-FORMULA", site, "dx[lv] = (geo_hi - geo_lo) / grid_sizes[lv] (per direction)",
              f"dx = {env.get('self.dx')}", key="dx")
    lin = [n for n in ast.walk(ini.node) if isinstance(n, ast.Call) and norm(n.func) in rules.LINSPACE]
    if len(lin) != 1:
        raise AnalysisError(f"{P}.GRID-FORMULA", site, "cell-centre linspace not found")
    lo, hi, dx, n = A("self.geo_lo[coord]"), A("self.geo_hi[coord]"), A("self.dx[lv][coord]"), A("self.grid_sizes[lv][coord]")
    e = rules.local_env(ini.node)
    formulas.formula_rule(ctx, f"{P}.GRID-FORMULA", ini, lin[0].args[0], lo + dx / 2, (), "first cell centre", "c0", e)
    formulas.formula_rule(ctx, f"{P}.GRID-FORMULA", ini, lin[0].args[1], hi - dx / 2, (), "last cell centre", "c1", e)
    formulas.formula_rule(ctx, f"{P}.GRID-FORMULA", ini, lin[0].args[2], n, (), "number of centres", "cn", e)
    # compute_boxes_bounds: centre[idx_d] -/+ dx[level][d]/2 per direction (DIM-COH)
    bb = prog.func(CR, "CheckpointReader.compute_boxes_bounds", P)
    st = {}
    for n in walk_no_nested(bb.node):
        if isinstance(n, ast.Assign) and isinstance(n.targets[0], ast.Subscript) and norm(n.targets[0].value) == "boxes":
            st[norm(n.targets[0].slice)] = norm(n.value)
        if isinstance(n, ast.AugAssign) and isinstance(n.target, ast.Subscript) and norm(n.target.value) == "boxes":
            st[norm(n.target.slice) + type(n.op).__name__] = norm(n.value)
    ok_c = all(st.get(f"(:, :, {d})") == f"self.box_centers[level][{d}][level_indices[:, :, {d}]]" for d in range(3))
    ctx.check(ok_c, f"{P}.DIM-COH", bb.site, "cell centres of direction d are looked up with the indices of direction d",
              f"centre lookups are { {k: v for k, v in st.items() if 'box_centers' in v} }", key="centres")
    # the physical bounds carry the domain origin: they are derived from the geo_lo-based cell centres (or from
    # geo_lo itself), never from the cell indices and the cell size alone
    reads = {norm(x) for x in ast.walk(bb.node) if isinstance(x, ast.Attribute)}
    ctx.check(bool(reads & {"self.box_centers", "self.geo_lo"}), f"{P}.DIM-COH", bb.site,
              "box bounds are derived from the origin-based cell centres",
              f"compute_boxes_bounds reads {sorted(reads)} and neither self.box_centers nor self.geo_lo: bounds of the "
              f"form index * dx drop the domain origin, so the Header's box coordinates disagree with its geo_lo/geo_hi "
              f"whenever the origin is not 0", key="origin", where=loc(bb, bb.node), semantic=True)
    lo_ok = st.get("(:, 0, :)Sub") in ("self.dx[level] / 2", "0.5 * self.dx[level]", "self.dx[level] * 0.5")
    hi_ok = st.get("(:, 1, :)Add") in ("self.dx[level] / 2", "0.5 * self.dx[level]", "self.dx[level] * 0.5")
    per_dim = all(st.get(f"(:, 0, {d})Sub") == f"self.dx[level][{d}] / 2" and
                  st.get(f"(:, 1, {d})Add") == f"self.dx[level][{d}] / 2" for d in range(3))
    ctx.check((lo_ok and hi_ok) or per_dim, f"{P}.DIM-COH", bb.site,
              "box faces = outermost cell centres -/+ half the cell size of the same direction",
              f"box faces are moved by { {k: v for k, v in st.items() if k.endswith(('Sub', 'Add'))} }: a store spanning "
              f"all three directions is combined with the cell size of one direction (anisotropic checkpoints get wrong "
              f"y/z bounds)", key="half-cell", where=loc(bb, bb.node))
    # level header reader: file / offset columns
    rl = prog.func(CR, "CheckpointReader.read_level_header", P)
    g, _ = grammar.reader_grammar(prog, rl)
    flat = grammar.flatten_lines(g)
    fab = [l for l in flat if l.target.replace("(", "").replace(")", "") == "_, box_path, box_offset"]
    ctx.check(len(fab) == 1 and fab[0].parse == "LINE.split()", f"{P}.H-READ", rl.site,
              "FabOnDisk lines give (file, offset) per box", "FabOnDisk parse changed")
    ap = [norm(n) for n in walk_no_nested(rl.node) if isinstance(n, ast.Expr)]
    ctx.check("paths.append(box_path)" in ap and "offsets.append(int(box_offset))" in ap, f"{P}.H-READ", rl.site,
              "file and integer offset are appended per box", f"appends: {ap}", key="appends")
    # subsets stored under their own keys
    loop = [n for n in walk_no_nested(ini.node) if isinstance(n, ast.For) and norm(n.iter) == "['I_R', 'divU', 'gradp', 'p', 'state']"]
    ok = False
    if len(loop) == 1:
        a = loop[0].body[0]
        # a local that names this level's table (`t = self.boxes[lv]`) is that table
        al = {norm(n.targets[0]) for n in walk_no_nested(ini.node) if isinstance(n, ast.Assign) and
              isinstance(n.targets[0], ast.Name) and norm(n.value) == "self.boxes[lv]"}

        def tgt(e):
            t = norm(e)
            for x in al:
                if t.startswith(x + "["):
                    t = "self.boxes[lv]" + t[len(x):]
            return t
        ok = isinstance(a, ast.Assign) and norm(a.value) == "self.read_level_header(lv, f'{sub_data}_H', maxmins=maxmins)" and \
            isinstance(a.targets[0], ast.Tuple) and [tgt(e) for e in a.targets[0].elts] == ["self.nfields[f'{sub_data}']", "self.boxes[lv][f'{sub_data}_paths']",
                                                    "self.boxes[lv][f'{sub_data}_offsets']",
                                                    "self.boxes[lv][f'{sub_data}_mins']", "self.boxes[lv][f'{sub_data}_maxs']"]
    ctx.check(ok, f"{P}.SIDE-COH", site, "each subset's header fills that subset's own paths/offsets tables",
              "subset tables are not filled from their own <subset>_H header", key="subset-tables")


def header_rules(ctx):
    prog = ctx.prog
    gh = prog.func(CK, "chk2plt.write_global_header", P)
    items, _ = grammar.writer_grammar(prog, gh)
    L = "self.max_level"
    box_lines = [("REP", "3", [Spec("box_lo_hi", tokens_ph(["box[0][c]", "box[1][c]"], exact_idx=(0, 1)),
                                    "`lo hi` of one direction")], None)]
    o = dict(version={"lit:HyperCLaw-V1.1"}, ncount="self.nfields_out", names_count="len(self.fields_out)",
             namevar="f", names_over="self.fields_out", ndims="len(self.geo_hi)", time="self.time", levels=L, lv="level",
             geo_low=joined("self.geo_lo", elem_exact=True), geo_high=joined("self.geo_hi", elem_exact=True),
             ref_ratio=lambda line: (len(line.tokens) == 1 and join_of(line.tokens[0]) is not None and
                                     join_of(line.tokens[0])[3] in ("range(self.max_level)", "range:self.max_level")) or len(line.tokens) == 0,
             domain=lambda line: len(line.tokens) == 1 and join_of(line.tokens[0]) is not None and
             join_of(line.tokens[0])[3] == "range:1 + self.max_level",
             steps=lambda line: len(line.tokens) == 1 and join_of(line.tokens[0]) is not None and
             join_of(line.tokens[0])[3] in ("range(1 + self.max_level)", "range:1 + self.max_level") and join_of(line.tokens[0])[2] == "{self.step_number}",
             dx=joined("dx_vals", elem_exact=True), coord={"lit:0"}, level_step="self.step_number",
             boxes_count="self.nboxes[level]", boxvar="box", box_lo_hi=("box[0][c]", "box[1][c]"),
             boxes_iter={"len(self.compute_boxes_bounds(level))"}, ndims_iter="3", nlev="1 + self.max_level")
    oracle = headers.global_header_oracle(o)
    # dx block iterates self.dx directly
    oracle[11] = ("REP", "len(self.dx)", oracle[11][2], None)
    headers.match_writer(ctx, f"{P}.H-WRITE", gh, items, oracle)
    # domain tuple
    env = rules.local_env(gh.node)
    # naming independent: the appended text with its locals substituted
    denv = rules.local_env(gh.node)
    ap = [rules.deep(n.value.args[0], denv, gh.params) for n in walk_no_nested(gh.node)
          if isinstance(n, ast.Expr) and isinstance(n.value, ast.Call) and norm(n.value.func) == "gridsize_str.append"
          and n.value.args]
    want = norm(ast.parse("f\"((0,0,0) ({','.join([f'{gs - 1}' for gs in self.grid_sizes[level]])}) (0,0,0))\"",
                          mode="eval").body)
    ok = ap == [want]
    ctx.check(ok, f"{P}.H-WRITE", gh.site, "domain tuple per level is ((0,0,0) (n-1,..) (0,0,0))",
              f"domain tuple built as {ap}", key="domain-tuple")
    ctx.check(len(prog.func(CR, "CheckpointReader.__init__", P).params) >= 2, f"{P}.H-WRITE", gh.site, "reader present", "")
    # level header writer: fresh Cell_H
    lh = prog.func(CK, "chk2plt.write_level_header", P)
    items, _ = grammar.writer_grammar(prog, lh)
    nb, nf = "self.nboxes[level]", "self.nfields_out"

    def idx_line(line):
        return line.show() == "W[(({bidx[0][0]},{bidx[0][1]},{bidx[0][2]}) ({bidx[1][0]},{bidx[1][1]},{bidx[1][2]}) (0,0,0))]"

    def fab_line(line):
        return line.show() == "W[FabOnDisk: {bfile} {int(offset)}]" or line.show() == "W[FabOnDisk: {bfile} {offset}]"

    def row(var):
        # the comprehension variable of the joined element may have any name
        import re as _re
        return lambda line: _re.fullmatch(r"W\[<join ',' \{(\w+):\.1[67]e\} over %s>,\]" % _re.escape(var),
                                          line.show()) is not None
    oracle = [Spec("version", literal("1"), "1"), Spec("how", literal("1"), "1"),
              Spec("nfields", one_ph(nf), "field count"), Spec("nghost", literal("0"), "0"),
              Spec("nboxes_open", lambda l: l.show() == "W[({%s} 0]" % nb, "`(nboxes 0`"),
              ("REP", f"len(self.boxes[level]['indices'])", [Spec("index_line", idx_line, "((lo) (hi) (0,0,0))")], None),
              Spec("close_paren", literal(")"), ")"), Spec("nfab", one_ph(nb), "box count"),
              ("REP", "zip(len(all_binfiles_plt), len(all_offsets_plt))", [Spec("fabondisk", fab_line, "FabOnDisk: file offset")], None),
              Spec("blank", lambda l: len(l.tokens) == 0, "blank"),
              Spec("min_dims", lambda l: l.show() == "W[{%s},{%s}]" % (nb, nf), "`nboxes,nfields`"),
              ("REP", "len(all_mins_plt)", [Spec("min_row", row("minvals"), "one exact row per box")], None),
              Spec("blank", lambda l: len(l.tokens) == 0, "blank"),
              Spec("max_dims", lambda l: l.show() == "W[{%s},{%s}]" % (nb, nf), "`nboxes,nfields`"),
              ("REP", "len(all_maxs_plt)", [Spec("max_row", row("maxvals"), "one exact row per box")], None)]
    headers.match_writer(ctx, f"{P}.H-WRITE", lh, items, oracle, path="Cell_H")
    op = [norm(c.args[0]) for c in ast.walk(lh.node) if isinstance(c, ast.Call) and norm(c.func) == "open"]
    ctx.check(op == ["os.path.join(self.pltdir, f'Level_{level}', 'Cell_H')"], f"{P}.LEVEL-COH", lh.site,
              "the level header goes to the same level of the output", f"opens {op}")
    formulas.rule_level_range(ctx, f"{P}.LEVEL-RANGE", gh, attr="max_level",
                              exceptions={"range(self.max_level)": "refinement-ratio line has one entry per level pair"})


def run(ctx):
    prog = ctx.prog
    worker_rules(ctx)
    producer_rules(ctx)
    fields_rules(ctx)
    reader_rules(ctx)
    header_rules(ctx)
    # read_box sibling (not on the conversion path): same ghost strip
    cli = prog.func("amr_kitchen/chk2plt/cli.py", "main", P)
    opts = wiring.cli_options(cli)
    call, b = wiring.call_bindings(prog, cli, lambda t: t == "chk2plt")
    for param, dest, pol in (("chkdir", "checkpoint", None), ("target_plotfile", "plotfile_ref", None),
                             ("species", "species", None), ("gradp", "include_gradp", "store_false"),
                             ("species_reactions", "include_reactions", "store_true"),
                             ("floor_massfracs", "floor_massfracs", "store_false"), ("pltdir", "output", None)):
        wiring.rule_wired(ctx, f"{P}.WIRING", cli, b, param, dest, opts, pol)
    ctx.info(f"{P}.WIRING", cli.site, "--include_gradp and --floor_massfracs are store_false: giving the flag turns the "
                                      "feature off (defaults on); recorded, not a finding")
    _sinks, _penv, _wk = C13.sink_rules(ctx, P, modules={CK, CR})
    # "the conversion never writes into the checkpoint": the default output derived from the checkpoint path is a
    # sibling of it, never the checkpoint itself (rule W2 of C13 on the converter's modules)
    C13.default_rules(ctx, P, _penv, _wk, modules={CK, CR})
    return ("Static: abstract interpretation of the conversion worker over its 8 flag paths (state scanned with "
            "whole-FAB advance, gradp/I_R seek-addressed with their own offsets, every subset reshaped in F order, "
            "ghost strip decided by extent algebra per axis, [state ++ gradp ++ I_R] order under the flags, header "
            "count, offset capture, min/max of the written array, flooring); 11-slot positional task against the "
            "unpack with per-slot semantic forms; offset-sorted scatter map; names/count under the same flags; grid "
            "and box-bound formulas per direction; writer grammars of Header and Cell_H; CLI polarity; sinks under "
            "pltdir. Decides structural clauses of DESIGN §4.C17, not the PeleLMeX layout itself.",
            ["vk/fabio.py", "vk/pools.py", "vk/grammar.py", "state_field_indices table"])
