"""H-WRITE / H-COPY / FMT-EXACT: writers' line grammars against the reader-derived format oracle."""
import ast
import re

from vk import grammar, rules
from vk.grammar import Line, Repeat, Cond, Until, Tok
from vk.model import norm, loc, AnalysisError, walk_no_nested

EXACT_FMT = re.compile(r"^(|r|\.(1[6-9]|[2-9]\d)e|\.(1[7-9]|[2-9]\d)g)$")


def fmt_exact(fmt):
    return bool(EXACT_FMT.match(fmt or ""))


def ph(tok):
    """a token that is exactly one placeholder -> (src, fmt) else None"""
    if len(tok.parts) == 1 and not isinstance(tok.parts[0], str) and tok.parts[0][0] == "ph":
        return tok.parts[0][1], tok.parts[0][2]
    return None


def lit(tok):
    if all(isinstance(p, str) for p in tok.parts):
        return "".join(tok.parts)
    return None


def join_of(tok):
    if len(tok.parts) == 1 and not isinstance(tok.parts[0], str) and tok.parts[0][0] == "join":
        return tok.parts[0]
    return None


class Spec:
    """expected form of one written line"""

    def __init__(self, slot, pred, desc):
        self.slot, self.pred, self.desc = slot, pred, desc


def one_ph(srcs, exact=False):
    srcs = {srcs} if isinstance(srcs, str) else set(srcs)

    def pred(line):
        if len(line.tokens) != 1:
            return False
        x = ph(line.tokens[0])
        if x is None:
            l = lit(line.tokens[0])
            return l is not None and ("lit:" + l) in srcs
        return x[0] in srcs and (fmt_exact(x[1]) if exact else x[1] == "")
    pred.srcs = srcs
    return pred


def literal(text):
    return lambda line: len(line.tokens) == 1 and lit(line.tokens[0]) == text


def joined(over, sep=" ", elem_exact=True, elem=None):
    overs = {over} if isinstance(over, str) else set(over)

    def pred(line):
        if len(line.tokens) == 0:
            return "BLANK" in overs
        if len(line.tokens) != 1:
            return False
        j = join_of(line.tokens[0])
        if j is None or j[1] != sep or j[3] not in overs:
            return False
        parts = j[4]
        if len(parts) != 1 or isinstance(parts[0], str) or parts[0][0] != "ph":
            return False
        if elem is not None and parts[0][1] != elem.replace("VAR", j[5]):
            return False
        if elem is None and parts[0][1] != j[5]:
            return False
        return fmt_exact(parts[0][2]) if elem_exact else True
    return pred


def tokens_ph(srcs, exact_idx=()):
    """line of len(srcs) tokens, each exactly one placeholder with the given source (set allowed)"""
    def pred(line):
        if len(line.tokens) != len(srcs):
            return False
        for i, (t, s) in enumerate(zip(line.tokens, srcs)):
            x = ph(t)
            allowed = {s} if isinstance(s, str) else set(s)
            if x is None or x[0] not in allowed:
                return False
            if i in exact_idx and not fmt_exact(x[1]):
                return False
            if i not in exact_idx and x[1] != "":
                return False
        return True
    return pred


def level_path(lv):
    def pred(line):
        if len(line.tokens) != 1:
            return False
        p = line.tokens[0].parts
        return len(p) == 3 and p[0] == "Level_" and not isinstance(p[1], str) and p[1][1] == lv and p[2] == "/Cell"
    return pred


def global_header_oracle(o):
    """o: dict of this writer's expected sources"""
    L, lv = o["levels"], o["lv"]
    nlev = o.get("nlev", f"1 + {L}")
    boxes_count, boxvar = o["boxes_count"], o["boxvar"]
    box_lo, box_hi = o["box_lo_hi"]
    return [
        Spec("version", one_ph(o["version"]), f"version line from {o['version']}"),
        Spec("nvars", one_ph(o["ncount"]), f"field count = {o['ncount']}"),
        ("REP", o["names_count"], [Spec("name", one_ph({o["namevar"], "$VAR"}), "one field name per line")], o.get("names_over")),
        Spec("ndims", one_ph(o["ndims"]), f"dimensionality {o['ndims']}"),
        Spec("time", one_ph(o["time"], exact=True), "time, round-trip exact"),
        Spec("max_level", one_ph(L), f"finest level = {L}"),
        Spec("geo_low", o["geo_low"], "domain low corner, round-trip exact"),
        Spec("geo_high", o["geo_high"], "domain high corner, round-trip exact"),
        Spec("ref_ratio", o["ref_ratio"], "refinement ratios"),
        Spec("domain", o["domain"], "index domain of every written level: ((0..) (n-1..) (0..))"),
        Spec("steps", o["steps"], "level steps"),
        ("REP", nlev, [Spec("dx", o["dx"], "cell sizes of the level, round-trip exact")], None),
        Spec("coord_sys", one_ph(o["coord"]), "coordinate system"),
        Spec("zero", literal("0"), "the literal 0 line"),
        ("REP", nlev, [
            Spec("level_line", tokens_ph([lv, boxes_count, o["time"]], exact_idx=(2,)), "`level nboxes time`"),
            Spec("level_step", one_ph(o["level_step"]), "level step"),
            ("REP", o["boxes_iter"], [("REP", o["ndims_iter"], [
                Spec("box_lo_hi", tokens_ph([box_lo, box_hi], exact_idx=(0, 1)), "`lo hi` of one dimension")], None)]
             if not o.get("flat_boxes") else o["flat_boxes"], None),
            Spec("level_path", level_path(lv), "Level_<lv>/Cell"),
        ], None),
    ]


def match_writer(ctx, rule, fi, items, oracle, path="Header", loopvar=None, loopvars=()):
    site = fi.site
    if len(items) != len(oracle):
        names = [o.slot if isinstance(o, Spec) else f"REP:{o[1]}" for o in oracle]
        ctx.finding(rule, site, f"{path}: writer emits {len(items)} grammar items [{grammar.show(items)[:400]}] "
                                f"where the reader consumes {len(oracle)} {names}: a line is missing or added, so "
                                f"every later line is read into the wrong attribute",
                    key=f"structure:{path}", where=loc(fi, items[0].node) if items else None)
        return False
    ok_all = True
    for it, o in zip(items, oracle):
        if isinstance(o, Spec):
            # a Cond whose branches each write exactly one line for this slot
            cands = [it]
            if isinstance(it, Cond):
                cands = list(it.body) + list(it.orelse)
                if len(it.body) != 1 or len(it.orelse) != 1:
                    ctx.finding(rule, site, f"{path}/{o.slot}: conditional writes {len(it.body)}/{len(it.orelse)} "
                                            f"lines in its branches (exactly one line is read here)",
                                key=f"line:{path}/{o.slot}", where=loc(fi, it.node))
                    ok_all = False
                    continue
            for c in cands:
                if not isinstance(c, Line) or c.tokens is None:
                    ctx.finding(rule, site, f"{path}/{o.slot}: expected one written line, found {c.show()[:100]}",
                                key=f"line:{path}/{o.slot}", where=loc(fi, c.node))
                    ok_all = False
                    continue
                ok = o.pred(c)
                if not ok and "$VAR" in getattr(o.pred, "srcs", ()) and loopvar is not None and len(c.tokens) == 1:
                    # the line is the loop variable of the enclosing repeat, whatever it is called
                    x = ph(c.tokens[0])
                    ok = x is not None and x[0] == loopvar and x[1] == ""
                ctx.check(ok, rule, site, f"{path}/{o.slot}: {o.desc}",
                          f"{path}/{o.slot}: writes `{c.show()}`; the reader expects {o.desc}",
                          key=f"line:{path}/{o.slot}", where=loc(fi, c.node), objects={"written": c.show()})
                ok_all &= ok
        else:
            _, count, body, over = o
            if not isinstance(it, Repeat):
                ctx.finding(rule, site, f"{path}: expected a block repeated {count} times, found {it.show()[:100]}",
                            key=f"structure:{path}/{count}", where=loc(fi, it.node))
                ok_all = False
                continue
            counts = {count} if isinstance(count, str) else set(count)
            ok = it.count in counts and (over is None or it.over in ({over} if isinstance(over, str) else set(over)))
            # the length of a run-time element (zip / min(len(..)) of loop elements, len of a loop variable, len of a
            # slice) is not a static quantity
            ml = re.fullmatch(r"len\((.+)\)", it.count)
            larg = ml.group(1) if ml else None
            elementwise = (it.count.startswith("zip(") or "min(len(" in it.count or
                           (larg is not None and (larg in loopvars or re.search(r"\[[^\[\]]*:[^\[\]]*\]$", larg)))) \
                and it.count not in counts
            ctx.decide(ok, not elementwise, rule, site, f"{path}: block repeated {sorted(counts)[0]} times",
                      f"{path}: block is written {it.count} times (over {it.over}); the reader repeats it "
                      f"{sorted(counts)} times", key=f"count:{path}/{sorted(counts)[0]}", where=loc(fi, it.node))
            ok_all &= ok
            ok_all &= match_writer(ctx, rule, fi, it.body, body, path + "/" + sorted(counts)[0],
                                   loopvar=getattr(it, "var", None),
                                   loopvars=tuple(loopvars) + ((getattr(it, "var", None),) if getattr(it, "var", None) else ()))
    return ok_all


def domain_tuple_rule(ctx, rule, fi, ndims_attr="self.ndims", gs="self.grid_sizes", lvname=None, dims=None):
    """the per-level domain tuple is `((0,..) (n_d - 1,..) (0,..))`: three tokens, high index = grid size - 1"""
    env = rules.local_env(fi.node)
    n_ok = 0
    bad = []
    cands = []
    unres = []
    for n in walk_no_nested(fi.node):
        # the tuple template is recognised by its content (an f-string that opens `((0`), wherever it is written:
        # bound to a local, appended directly, or inside a comprehension
        if isinstance(n, ast.JoinedStr) and n.values and isinstance(n.values[0], ast.Constant) \
                and str(n.values[0].value).startswith("((0"):
            cands.append(n)
    for n in [ast.Assign(targets=[ast.Name(id="tup", ctx=ast.Store())], value=c) for c in cands]:
        if True:
            parts = grammar.template(n.value, env)
            lines, _ = grammar.split_lines(parts + ["\n"], ())
            toks = lines[0]
            if len(toks) != 3:
                bad.append(f"{norm(n.value)[:60]}: {len(toks)} tokens")
                continue
            t0, t1, t2 = [t.show() for t in toks]
            z = re.fullmatch(r"\(\((0(,0)*)\)", t0)
            z2 = re.fullmatch(r"\((0(,0)*)\)\)", t2)
            mid = toks[1].parts
            mid_ok = False
            if len(mid) == 3 and mid[0] == "(" and mid[2] == ")" and not isinstance(mid[1], str):
                m = mid[1]
                if m[0] == "ph":
                    # sizes = ",".join(str(s - 1) for s in grid_sizes[lv])
                    sz = env.get(m[1]) if m[1] in env else None
                    if sz is None and "[" not in m[1] and "." not in m[1]:
                        unres.append(m[1])      # a name this rule cannot follow (comprehension / loop variable)
                    if sz is not None:
                        sp = grammar.template(sz, env)
                        if len(sp) == 1 and not isinstance(sp[0], str) and sp[0][0] == "join" and sp[0][1] == "," \
                                and sp[0][3].startswith(gs + "[") and sp[0][2] == "{-1 + " + sp[0][5] + "}":
                            mid_ok = True
                elif m[0] == "join":
                    mid_ok = m[1] == "," and m[3].startswith(gs + "[") and m[2] == "{-1 + " + m[5] + "}"
            elif dims is not None:
                # explicit per-dimension placeholders ({gs[lv][cx] - 1},{gs[lv][cy] - 1})
                txt = toks[1].show()
                want = "(" + ",".join("{-1 + " + f"{gs}[{lvname}][{d}]" + "}" for d in dims) + ")"
                mid_ok = txt == want
            if z and z2 and z.group(1) == z2.group(1) and mid_ok:
                n_ok += 1
            else:
                bad.append(f"{t0} {toks[1].show()} {t2}")
    # no f-string template that opens `((0` at all: the tuple is built another way (concatenation, format) that this
    # rule cannot read — undecided, not wrong
    ctx.decide(n_ok >= 1 and not bad, bool(cands) and not unres, rule, fi.site,
               "domain tuple per level is ((0,..) (grid_size-1,..) (0,..)) — the reader takes every third token from "
               "the second and adds 1",
              f"domain tuple template(s) {bad or 'not found'} are not ((0,..) (grid_size - 1,..) (0,..))",
              key="domain-tuple")


# ---------------------------------------------------------------------------
# level-header rewriters (H-COPY)
# ---------------------------------------------------------------------------
def rewriter_rules(ctx, rule, fi, nfields_src, offsets_name, minmax, src_handles=("ch_r",), wh="ch_w"):
    """update_cell_header (colander, chef) / rewrite_level_header (combine).
    Structure required (reader's Cell_H grammar):
      2 copied lines; 1 skipped + nfields written; copy until the first FabOnDisk line, which is rewritten with
      offsets[0]; one rewritten FabOnDisk per remaining offset; blank copied; `ncells,nf`; ncells min rows; blank;
      `ncells,nf`; ncells max rows."""
    prog = ctx.prog
    items, ex = grammar.writer_grammar(prog, fi)
    site = fi.site
    h0 = src_handles[0]

    def lines_of(it):
        return grammar.flatten_lines([it])
    flat = []
    # linearise top-level into (kind, item)
    top = list(items)
    desc = grammar.show(top)
    ok_struct = True
    try:
        i = 0
        # (a) two copied lines
        rep = top[i]; i += 1
        assert isinstance(rep, Repeat) and rep.count == "2", "first block is not `for i in range(2)`"
        reads = [l for l in rep.body if l.tokens is None]
        writes = [l for l in rep.body if l.tokens is not None]
        # `l = src.readline(); w.write(l)` or `w.write(src.readline())`: exactly one line of the source per line written
        n_src_reads = len([c for l in rep.body for c in ast.walk(l.node if isinstance(l.node, ast.AST) else ast.Pass())
                           if isinstance(c, ast.Call) and norm(c.func) == f"{h0}.readline"]) if False else \
            len({id(c) for st in rep.node.body for c in ast.walk(st)
                 if isinstance(c, ast.Call) and norm(c.func) == f"{h0}.readline"})
        assert len(writes) == 1 and writes[0].copy_of == h0 and n_src_reads == 1, \
            "the first two lines are not copied one-for-one from the first source"
        for h in src_handles[1:]:
            assert len([r for r in reads if norm(r.node.func.value) == h]) == 1, f"{h} is not advanced in lock-step (first two lines)"
        # (b) nfields
        for h in src_handles:
            l = top[i]; i += 1
            assert isinstance(l, Line) and l.tokens is None and norm(l.node.func.value) == h, "field-count line not skipped on every source"
        l = top[i]; i += 1
        assert isinstance(l, Line) and l.tokens is not None and one_ph(nfields_src)(l), \
            f"field-count line is `{l.show()}`, expected {nfields_src}"
        # (c) until FabOnDisk
        u = top[i]; i += 1
        assert isinstance(u, Until) and u.marker == "FabOnDisk:", "no copy-until-FabOnDisk loop"
        ureads = [x for x in u.body if isinstance(x, Line) and x.tokens is None]
        for h in src_handles:
            assert len([r for r in ureads if norm(r.node.func.value) == h]) == 1, f"{h} not advanced once per copied line"
        cond = [x for x in u.body if isinstance(x, Cond)]
        assert len(cond) == 1 and len(cond[0].body) == 1 and len(cond[0].orelse) == 1, "FabOnDisk test shape"
        first_fab, copy = cond[0].body[0], cond[0].orelse[0]
        assert copy.copy_of == h0, "mesh lines are not copied from the first source"
        # (d) remaining FabOnDisk lines
        r2 = top[i]; i += 1
        assert isinstance(r2, Repeat) and r2.count == f"len({offsets_name}[1:])", \
            f"remaining FabOnDisk lines are written {getattr(r2, 'count', '?')} times, expected len({offsets_name}[1:])"
        rr = [x for x in r2.body if isinstance(x, Line) and x.tokens is None]
        for h in src_handles:
            assert len([r for r in rr if norm(r.node.func.value) == h]) == 1, f"{h} not advanced once per FabOnDisk line"
        rest = top[i:]
    except AssertionError as e:
        ctx.finding(f"{rule}.H-COPY", site, f"level-header rewriter structure: {e}; grammar = {desc[:500]}",
                    key="structure", where=loc(fi, fi.node))
        return
    except IndexError:
        ctx.finding(f"{rule}.H-COPY", site, f"level-header rewriter is shorter than the Cell_H format: {desc[:500]}",
                    key="structure", where=loc(fi, fi.node))
        return
    ctx.ok(f"{rule}.H-COPY", site, "lines up to the FabOnDisk table are copied one-for-one (all sources advanced in "
                                   "lock-step), field count replaced, one FabOnDisk line per offset", key="structure")
    # FabOnDisk rewriting: tokens[:-1] of the source line + str(new offset)
    fab_ok = _fab_line_rule(fi, offsets_name, src_handles[0])
    ctx.check(fab_ok, f"{rule}.H-COPY", site,
              "each FabOnDisk line keeps `FabOnDisk: file` of the source line and gets the box's new offset "
              "(offsets[0] for the first, then offsets[1:] in order)",
              "FabOnDisk lines are not rebuilt as source tokens[:-1] + new offset in box order", key="fabondisk")
    minmax(ctx, rule, fi, rest, desc)


def _fab_line_rule(fi, offsets_name, h0=None):
    """V = L.split()[:-1]; V.append(str(X)); write(' '.join(V) + '\n') with X = offsets[0] for the first FabOnDisk line
    and the loop variable over offsets[1:] for the others; V and L may have any name, L is the line just read"""
    loopvars = [norm(n.target) for n in walk_no_nested(fi.node) if isinstance(n, ast.For)
                and norm(n.iter) == f"{offsets_name}[1:]"]
    if len(loopvars) != 1:
        return False
    got = []
    for blk in _blocks(fi.node):
        for i, n in enumerate(blk):
            if not (isinstance(n, ast.Expr) and isinstance(n.value, ast.Call) and isinstance(n.value.func, ast.Attribute)
                    and n.value.func.attr == "append" and isinstance(n.value.func.value, ast.Name)
                    and len(n.value.args) == 1):
                continue
            v = n.value.func.value.id
            # nearest preceding binding of v in the block, nearest following write
            base = None
            for m in reversed(blk[:i]):
                if isinstance(m, ast.Assign) and norm(m.targets[0]) == v:
                    base = m.value
                    break
            wr = None
            for m in blk[i + 1:]:
                if isinstance(m, ast.Expr) and isinstance(m.value, ast.Call) and isinstance(m.value.func, ast.Attribute) \
                        and m.value.func.attr == "write":
                    wr = m.value
                    break
            if base is None or wr is None:
                continue
            mt = re.fullmatch(r"(\w+)\.split\(\)\[:-1\]", norm(base))
            direct = re.fullmatch(r"(\w+)\.readline\(\)\.split\(\)\[:-1\]", norm(base))
            if not mt and not direct:
                continue
            src = direct
            if mt:
                line = mt.group(1)
                # the line variable is the line most recently read from a source — the *first* source (the plotfile
                # whose layout the output follows): every binding of it to a readline() reads that handle
                reads = []
                for blk2 in _blocks(fi.node):
                    for m in blk2:
                        if not isinstance(m, ast.Assign):
                            continue
                        pairs = []
                        if isinstance(m.targets[0], (ast.Tuple, ast.List)) and isinstance(m.value, (ast.Tuple, ast.List)) \
                                and len(m.targets[0].elts) == len(m.value.elts):
                            pairs = list(zip(m.targets[0].elts, m.value.elts))
                        else:
                            pairs = [(m.targets[0], m.value)]
                        for tg, vv in pairs:
                            if norm(tg) == line and norm(vv).endswith(".readline()"):
                                src = m
                                reads.append(norm(vv)[:-len(".readline()")])
                if h0 is not None and any(r != h0 for r in reads):
                    return False
            forms = {norm(ast.parse(t, mode="eval").body) for t in
                     ("' '.join(%s) + '\\n'" % v, "f\"{' '.join(%s)}\\n\"" % v)}
            if src is None or len(wr.args) != 1 or norm(wr.args[0]) not in forms:
                continue
            got.append((n.lineno, norm(n.value.args[0])))
    # second form: the rebuilt line in one expression — ' '.join(L.split()[:-1] + [str(X)]) + '\n'
    for blk in _blocks(fi.node):
        for i, n in enumerate(blk):
            c = n.value if isinstance(n, ast.Expr) else None
            if not (isinstance(c, ast.Call) and isinstance(c.func, ast.Attribute) and c.func.attr == "write" and len(c.args) == 1):
                continue
            m = re.fullmatch(r"f\"\{' '\.join\((\w+)\.split\(\)\[:-1\] \+ \[(f'\{.+\}')\]\)\}\\n\"|"
                             r"f'\{' '\.join\((\w+)\.split\(\)\[:-1\] \+ \[(f'\{.+\}')\]\)\}\\n'", norm(c.args[0]))
            if not m:
                continue
            line = m.group(1) or m.group(3)
            val = m.group(2) or m.group(4)
            # the line variable's nearest preceding binding in this block (or an enclosing one) reads the first source
            src = None
            for blk2 in _blocks(fi.node):
                for mm in blk2:
                    if isinstance(mm, ast.Assign) and norm(mm.targets[0]) == line and norm(mm.value).endswith(".readline()"):
                        src = norm(mm.value)[:-len(".readline()")] if src in (None, norm(mm.value)[:-len(".readline()")]) else "?"
            if src is None or (h0 is not None and src != h0):
                return False
            got.append((n.lineno, val))
    got = [t for _, t in sorted(got)]
    return got == ["f'{%s[0]}'" % offsets_name, "f'{%s}'" % loopvars[0]]


def _blocks(node):
    for x in ast.walk(node):
        for fld in ("body", "orelse", "finalbody"):
            b = getattr(x, fld, None)
            if isinstance(b, list) and b and isinstance(b[0], ast.stmt):
                yield b
