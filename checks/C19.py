"""C19 — point queries at interior cell centres return the stored cell value."""
import ast

from vk import rules, formulas
from vk.formulas import A
from vk.model import norm, loc, AnalysisError, walk_no_nested, parents
from vk.rules import expr_ratio, local_env, compare_nf, FormulaError, conjuncts

P = "C19"
PC = "amr_kitchen/plotfile_cooker.py"


def run(ctx):
    prog = ctx.prog
    fi = prog.func(PC, "LevelDataSelector.__call__", P)
    site = fi.site
    # every selected level is searched (finer levels are not nested in the *cell-centre* bounds of coarser boxes)
    nlr = formulas.rule_level_range(ctx, f"{P}.LEVEL-RANGE", fi, exceptions={
        "range(load_lv_low, load_lv_hi + 1)": "between-boxes case: loads only the levels that hold the neighbouring "
                                              "boxes (this case is not decided, DESIGN §4.C19)"})
    ctx.floor("level loops of the point query", nlr, 1)
    # point -> index formula (two sites), with the dx of the level that is read
    assigns = [n for n in walk_no_nested(fi.node) if isinstance(n, ast.Assign) and norm(n.targets[0]) == "point_idx"]
    ctx.check(len(assigns) == 2, f"{P}.INDEX-FORMULA", site, "point -> index conversion in the single-box case and in the "
                                                             "between-boxes case", f"{len(assigns)} conversions", key="sites")
    pt, lo, dx = A("point"), A("self.geo_low"), A("dx")
    fenv = local_env(fi.node)
    for nm in ("point", "dx", "point_idx"):
        fenv[nm] = None
    for i, a in enumerate(assigns):
        formulas.formula_rule(ctx, f"{P}.INDEX-FORMULA", fi, a.value, (pt - lo) / dx - 0.5,
                              (), "cell index of a physical point = (point - geo_low)/dx - 1/2", f"case{i + 1}", fenv)
    # which dx
    dxs = [n for n in walk_no_nested(fi.node) if isinstance(n, ast.Assign) and norm(n.targets[0]) == "dx"]
    vals = [norm(d.value) for d in dxs]
    ctx.check(vals == ["self.dx[level]", "self.dx[match_lv_inner]", "self.dx[load_lv_hi]"], f"{P}.LEVEL-COH", site,
              "the cell size used is that of the level whose data is read", f"dx assignments are {vals}", key="dx")
    e = {}
    for n in walk_no_nested(fi.node):
        if isinstance(n, ast.Assign):
            e.setdefault(norm(n.targets[0]), []).append(norm(n.value))
    ok = e.get("data_arrays") == ["self[match_lv_inner][match_box_id]"] and \
        "self.cells[match_lv_inner]['indexes'][match_box_id]" in e.get("box_indices", []) and \
        "point_idx - box_indices[0]" in e.get("point_local", []) and \
        e.get("match_box_id") == ["int(box_matches_inner[match_lv_inner][0])"]
    ctx.check(ok, f"{P}.LOCAL-INDEX", site,
              "local index = cell index - low index of the same box (same level, same box id) whose data is read",
              f"local index is built from data={e.get('data_arrays')}, box_indices={e.get('box_indices')}, "
              f"local={e.get('point_local')}", where=loc(fi, fi.node))
    # box-match comparators per dimension
    lvloop = [n for n in fi.node.body if isinstance(n, ast.For) and norm(n.iter) == "range(self.limit_level + 1)"]
    ctx.check(len(lvloop) == 1 and norm(lvloop[0].target) == "level", f"{P}.LEVEL-RANGE", site,
              "boxes are matched on every selected level in ascending order", "level loop changed")
    if lvloop:
        t = {norm(n.targets[0]): n.value for n in lvloop[0].body if isinstance(n, ast.Assign)}
        for name, margin in (("box_match_exact", 0), ("box_match_inner", +1), ("box_match_outer", -1)):
            node = t.get(name)
            if node is None:
                raise AnalysisError(f"{P}.DIM-COH", site, f"{name} not found")
            forms = set()
            for c in conjuncts(node):
                try:
                    r, op = compare_nf(c, {})
                    forms.add((str(r), op))
                except FormulaError:
                    forms.add(("?", norm(c)))
            want = set()
            E = lambda t: expr_ratio(ast.parse(t, mode="eval").body, {})
            for d in range(3):
                m = A(f"dx[{d}]") / 2 * margin
                blo, bhi, p = E(f"boxes[:, {d}, 0]"), E(f"boxes[:, {d}, 1]"), A(f"point[{d}]")
                want.add((str(blo + m - p), "<="))
                want.add((str(p - (bhi - m)), "<="))
            ctx.check(forms == want, f"{P}.DIM-COH", site,
                      f"{name}: box_lo[d] {'+' if margin > 0 else '-' if margin < 0 else ''}"
                      f"{'dx[d]/2 ' if margin else ''}<= point[d] <= box_hi[d] … for d = 0, 1, 2, each with its own "
                      f"dimension's bounds, point coordinate and cell size",
                      f"{name} compares {sorted(forms)}; expected {sorted(want)}: every dimension must use its own box "
                      f"bounds, point coordinate and dx", key=name, where=loc(fi, node))
        st = {norm(n.targets[0]): norm(n.value) for n in lvloop[0].body if isinstance(n, ast.Assign)}
        ok = st.get("boxes") == "np.array(self.boxes[level])" and all(
            st.get(f"box_matches_{k}[level]") == f"np.where(box_match_{k})[0]" for k in ("exact", "inner", "outer"))
        ctx.check(ok, f"{P}.LEVEL-COH", site, "matches of a level are stored under that level, from that level's boxes",
                  f"per-level match bookkeeping is { {k: v for k, v in st.items() if 'match' in k or k == 'boxes'} }", key="matches")
    # finest matching level = last of the ascending filter; refusal path not swallowed
    fin = {k: v for k, v in e.items() if k.startswith("match_lv_")}
    ok = all(any(x == f"[lv for lv in box_matches_{k} if len(box_matches_{k}[lv]) != 0][-1]" for x in fin.get(f"match_lv_{k}", []))
             for k in ("exact", "inner", "outer"))
    ctx.check(ok, f"{P}.FINEST", site, "the level used is the last (finest) level with a matching box",
              f"finest-level selection is {fin}")
    pm = parents(fi.node)
    ex = [n for n in walk_no_nested(fi.node) if isinstance(n, ast.Assign) and norm(n.targets[0]) == "match_lv_exact"]
    in_try = False
    for a in ex:
        cur = pm.get(a)
        while cur is not None and cur is not fi.node:
            if isinstance(cur, ast.Try):
                in_try = True
            cur = pm.get(cur)
    ctx.check(bool(ex) and not in_try, f"{P}.REFUSAL", site,
              "a point inside no box (outside the domain) raises: the exact-match `[...][-1]` is not under a handler",
              "the exact-match lookup is wrapped in a try: an out-of-domain point is answered instead of refused",
              where=loc(fi, ex[0]) if ex else None)
    # interpolation calls
    calls = [norm(c) for c in walk_no_nested(fi.node) if isinstance(c, ast.Call) and norm(c.func) == "map_coordinates"]
    ok = "map_coordinates(data_arrays, np.transpose([point_local]))" in calls and \
        "map_coordinates(data_arrays[..., fid], np.transpose([point_local]))" in calls
    fl = [n for n in walk_no_nested(fi.node) if isinstance(n, ast.For) and norm(n.iter) == "range(len(self.farg))"]
    ctx.check(ok and len(fl) == 1, f"{P}.PER-FIELD", site,
              "single field: the box array is sampled at the local index; several fields: component fid of the "
              "component axis for each selected field, in order", f"map_coordinates calls are {calls}")
    # geo_low wiring
    ini = prog.func(PC, "LevelDataSelector.__init__", P)
    st = {norm(n.targets[0]): norm(n.value) for n in walk_no_nested(ini.node) if isinstance(n, ast.Assign)}
    pg = prog.func(PC, "PlotfileCooker.__getitem__", P)
    rets = [n for n in walk_no_nested(pg.node) if isinstance(n, ast.Return)]
    bound = {}
    if rets and isinstance(rets[0].value, ast.Call):
        params = ini.params[1:]
        for i, a in enumerate(rets[0].value.args):
            bound[params[i]] = norm(a)
        for k in rets[0].value.keywords:
            bound[k.arg] = norm(k.value)
    ok = st.get("self.geo_low") == "geo_low" and bound.get("geo_low") == "self.geo_low" and bound.get("dx") == "self.dx" \
        and bound.get("boxes") == "self.boxes" and st.get("self.dx") == "dx" and st.get("self.boxes") == "boxes"
    ctx.check(ok, f"{P}.WIRING", pg.site, "the selector receives this reader's geo_low, dx and boxes",
              f"selector construction binds {bound}; stored as { {k: v for k, v in st.items() if k in ('self.geo_low', 'self.dx', 'self.boxes')} }")
    # the box data the query interpolates is read through the indexing interface `self[level][box]`: the byte window,
    # shape and Fortran order of the seek-addressed box readers (rules of C01) are necessary for "that cell's stored
    # value"
    from checks import readers
    _, disp = readers.stream_dispatch(prog, P)
    slots = readers.task_slots(prog, P)
    n_rd = 0
    for kind, funs in sorted(disp.items()):
        if "read_fun" in funs:
            readers.check_reader(ctx, P, funs["read_fun"], kind, "box", slots)
            n_rd += 1
    ctx.floor("box readers behind the point query", n_rd, 3)
    # value i of a multi-field query is the i-th selected field only if the stream hands the readers the requested
    # selector itself (rule of C01 / C15)
    ctx.attempt(readers.selector_identity, ctx, P)
    ctx.assume("spline evaluation of map_coordinates at an exact integer index returns the sample (not decided)")
    ctx.assume("the between-boxes case (CASE 2) is decided only for its index formula and level choice")
    return ("Static: the point -> index conversion as a rational-function identity (with the domain origin), level and "
            "box coherence of the local index, per-dimension comparator normal forms of the three box-match conditions, "
            "finest-level selection, un-swallowed refusal path, per-field sampling. Decides structural clauses of DESIGN "
            "§4.C19.", ["vk/rules.py formula evaluator"])
