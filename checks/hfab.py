"""H-FAB — FAB header templates and parsers compared by *summary*.

A tiny abstract evaluator over a token-template string domain: strings are Python
strings whose varying parts are placeholder identifiers (LO0, HI1, NC …); integers
parsed from placeholders are polynomial atoms.  The writers' templates
(utils.header_from_indices, mandoline's literal) are evaluated to a template string
and compared with the canonical AMReX FAB header; each of the four parsers in
utils.py is evaluated on the canonical template and must return the placeholders in
the right slots.  Nothing of the repository is executed: the evaluator interprets
the ast itself and knows only str.split/replace/join, slicing, int(), np.array,
np.append and vector arithmetic.
"""
import ast

from vk.model import AnalysisError, norm, loc
from vk.poly import Poly

UT = "amr_kitchen/utils.py"
CONST = "FAB ((8, (64 11 52 0 1 12 0 1023)),(8, (8 7 6 5 4 3 2 1)))"


def canonical(nd, lo="LO", hi="HI", n="NC"):
    los = ",".join(f"{lo}{i}" for i in range(nd))
    his = ",".join(f"{hi}{i}" for i in range(nd))
    z = ",".join("0" for _ in range(nd))
    return f"{CONST}(({los}) ({his}) ({z})) {n}\n"


class SInt:
    def __init__(self, p):
        self.p = Poly.lift(p)

    def __str__(self):
        a = self.p.single_atom()
        if a is not None:
            return a
        c = self.p.const_value()
        if c is not None and c.denominator == 1:
            return str(int(c))
        return f"<{self.p}>"

    def __repr__(self):
        return f"SInt({self.p})"

    def __eq__(self, o):
        return isinstance(o, SInt) and self.p == o.p

    def __hash__(self):
        return hash(self.p)


class SVec:
    def __init__(self, items):
        self.items = list(items)

    def __repr__(self):
        return f"SVec({self.items})"


class SBytes:
    def __init__(self, s):
        self.s = s

    def __repr__(self):
        return f"b{self.s!r}"


class Unknown(Exception):
    pass


class SFile:
    """a symbolic text file: readline() yields the next template line"""

    def __init__(self, lines):
        self.lines = list(lines)

    def readline(self):
        if not self.lines:
            return ""
        return self.lines.pop(0)


def to_sint(x):
    if isinstance(x, SInt):
        return x
    if isinstance(x, bool):
        raise Unknown("bool")
    if isinstance(x, int):
        return SInt(x)
    if isinstance(x, str):
        t = x.strip()
        if t.lstrip("-").isdigit():
            return SInt(int(t))
        if t.isidentifier():
            return SInt(Poly.atom(t))
        raise Unknown(f"int({x!r}) is not an integer token")
    raise Unknown(f"int of {type(x).__name__}")


class SEval:
    """evaluates a (small) function body on symbolic arguments"""

    def __init__(self, fn, args, leaf=None):
        self.fn = fn
        self.env = dict(args)
        self.leaf = leaf
        self.ret = None

    def run(self):
        try:
            self.block(self.fn.body)
        except _Return:
            pass
        return self.ret

    def block(self, stmts):
        for s in stmts:
            self.stmt(s)

    def stmt(self, s):
        if isinstance(s, ast.Expr):
            if isinstance(s.value, ast.Constant):
                return
            if isinstance(s.value, ast.Call) and (norm(s.value.func) == "print" or
                                                  norm(s.value.func).startswith(("logging.", "logger.", "warnings."))):
                return
            self.ev(s.value)
        elif isinstance(s, ast.Assign):
            v = self.ev(s.value)
            for t in s.targets:
                self.bind(t, v)
        elif isinstance(s, ast.AugAssign):
            cur = self.ev(s.target)
            v = self.ev(s.value)
            self.bind(s.target, self.binop(cur, s.op, v))
        elif isinstance(s, ast.Return):
            self.ret = self.ev(s.value) if s.value is not None else None
            raise _Return()
        elif isinstance(s, ast.For):
            it = self.ev(s.iter)
            if isinstance(it, SVec):
                it = it.items
            elif not isinstance(it, (list, tuple, range)):
                raise Unknown(f"iteration over {type(it).__name__}")
            for x in list(it):
                self.bind(s.target, x)
                self.block(s.body)
        elif isinstance(s, ast.Pass):
            pass
        else:
            raise Unknown(f"statement {type(s).__name__}")

    def bind(self, t, v):
        if isinstance(t, ast.Name):
            self.env[t.id] = v
        elif isinstance(t, ast.Attribute):
            self.env[norm(t)] = v
        elif isinstance(t, (ast.Tuple, ast.List)):
            vs = list(v.items) if isinstance(v, SVec) else list(v)
            if len(vs) != len(t.elts):
                raise Unknown(f"unpack {len(vs)} values into {len(t.elts)} names")
            for a, b in zip(t.elts, vs):
                self.bind(a, b)
        else:
            raise Unknown("store target")

    def binop(self, a, op, b):
        if isinstance(a, str) and isinstance(b, str) and isinstance(op, ast.Add):
            return a + b
        if isinstance(a, list) and isinstance(b, list) and isinstance(op, ast.Add):
            return a + b
        if isinstance(a, SVec) or isinstance(b, SVec):
            n = len(a.items) if isinstance(a, SVec) else len(b.items)
            ai = a.items if isinstance(a, SVec) else [a] * n
            bi = b.items if isinstance(b, SVec) else [b] * n
            return SVec([self.binop(x, op, y) for x, y in zip(ai, bi)])
        if isinstance(a, (SInt, int)) and isinstance(b, (SInt, int)) and not isinstance(a, bool):
            pa, pb = to_sint(a).p, to_sint(b).p
            if isinstance(op, ast.Add):
                return SInt(pa + pb)
            if isinstance(op, ast.Sub):
                return SInt(pa - pb)
            if isinstance(op, ast.Mult):
                return SInt(pa * pb)
            if isinstance(op, ast.Div) and pb.const_value() not in (None, 0):
                return SInt(pa.divide_by_monomial_const(pb.const_value()))
        raise Unknown(f"binop {type(op).__name__} on {type(a).__name__},{type(b).__name__}")

    def ev(self, n):
        if isinstance(n, ast.Constant):
            return n.value
        if isinstance(n, ast.Name):
            if n.id in self.env:
                return self.env[n.id]
            if self.leaf:
                return self.leaf(n)
            raise Unknown(f"name {n.id}")
        if isinstance(n, ast.JoinedStr):
            out = ""
            for v in n.values:
                if isinstance(v, ast.Constant):
                    out += v.value
                else:
                    if v.format_spec is not None or v.conversion != -1:
                        raise Unknown("format spec in header template")
                    out += self.to_str(self.ev(v.value))
            return out
        if isinstance(n, ast.BinOp):
            return self.binop(self.ev(n.left), n.op, self.ev(n.right))
        if isinstance(n, (ast.Tuple, ast.List)):
            return [self.ev(e) for e in n.elts]
        if isinstance(n, ast.ListComp):
            if len(n.generators) != 1 or n.generators[0].ifs:
                raise Unknown("comprehension")
            g = n.generators[0]
            it = self.ev(g.iter)
            it = it.items if isinstance(it, SVec) else it
            out = []
            for x in list(it):
                self.bind(g.target, x)
                out.append(self.ev(n.elt))
            return out
        if isinstance(n, ast.Subscript):
            if self.leaf is not None and not (isinstance(n.value, ast.Name) and n.value.id in self.env):
                try:
                    return self.leaf(n)
                except Unknown:
                    pass
            v = self.ev(n.value)
            if isinstance(v, SVec):
                v = v.items
            if isinstance(n.slice, ast.Slice):
                lo = None if n.slice.lower is None else self.const_int(n.slice.lower)
                hi = None if n.slice.upper is None else self.const_int(n.slice.upper)
                st = None if n.slice.step is None else self.const_int(n.slice.step)
                return v[lo:hi:st]
            i = self.ev(n.slice)
            if isinstance(i, SInt):
                c = i.p.const_value()
                if c is None:
                    if self.leaf:
                        return self.leaf(n)
                    raise Unknown("symbolic index")
                i = int(c)
            try:
                return v[i]
            except Exception:
                if self.leaf:
                    return self.leaf(n)
                raise Unknown(f"index {i!r} of {type(v).__name__}")
        if isinstance(n, ast.Attribute):
            if norm(n) in self.env:
                return self.env[norm(n)]
            if self.leaf:
                return self.leaf(n)
            raise Unknown(f"attribute {norm(n)}")
        if isinstance(n, ast.UnaryOp) and isinstance(n.op, ast.USub):
            v = self.ev(n.operand)
            if isinstance(v, int):
                return -v
        if isinstance(n, ast.Call):
            return self.call(n)
        raise Unknown(f"expression {type(n).__name__}")

    def const_int(self, n):
        v = self.ev(n)
        if isinstance(v, SInt):
            c = v.p.const_value()
            if c is None:
                raise Unknown("symbolic slice bound")
            return int(c)
        return v

    def to_str(self, v):
        if isinstance(v, str):
            return v
        if isinstance(v, (SInt, int)):
            return str(v)
        raise Unknown(f"str of {type(v).__name__}")

    def call(self, n):
        f = n.func
        if isinstance(f, ast.Attribute):
            fn = norm(f)
            if fn in ("np.array", "numpy.array", "np.asarray"):
                v = self.ev(n.args[0])
                v = v.items if isinstance(v, SVec) else v
                if any(isinstance(x, (list, SVec)) for x in v):
                    return SVec([x if isinstance(x, SVec) else SVec(x) for x in v])
                return SVec([to_sint(x) for x in v])
            if fn in ("np.transpose", "numpy.transpose"):
                v = self.ev(n.args[0])
                rows = [list(r.items) if isinstance(r, SVec) else list(r) for r in (v.items if isinstance(v, SVec) else v)]
                return [SVec(c) for c in zip(*rows)]
            if fn in ("np.append", "numpy.append"):
                a, b = self.ev(n.args[0]), self.ev(n.args[1])
                a = a.items if isinstance(a, SVec) else list(a)
                return SVec(list(a) + [to_sint(b)])
            m = f.attr
            if m == "append" and isinstance(f.value, (ast.Name, ast.Attribute)) and norm(f.value) not in self.env \
                    and not (isinstance(f.value, ast.Name) and f.value.id in self.env):
                self.env[norm(f.value)] = []
            recv = self.ev(f.value)
            args = [self.ev(a) for a in n.args]
            if isinstance(recv, SFile) and m == "readline":
                return recv.readline()
            if isinstance(recv, SBytes):
                if m == "decode":
                    return recv.s
                raise Unknown(f"bytes.{m}: a bytes header needs decoding before str operations")
            if isinstance(recv, str):
                if any(isinstance(a, (SBytes, bytes)) for a in args):
                    raise Unknown("unmodelled: bytes argument to a str method")
                if m == "split":
                    return recv.split(*args)
                if m == "replace":
                    return recv.replace(*args)
                if m == "join":
                    return recv.join(self.to_str(x) for x in args[0])
                if m == "encode":
                    return SBytes(recv)
                if m == "decode":
                    raise Unknown("str.decode")
                if m == "strip":
                    return recv.strip(*args)
            if isinstance(recv, list) and m == "append":
                recv.append(args[0])
                return None
            raise Unknown(f"method {m} on {type(recv).__name__}")
        if isinstance(f, ast.Name):
            args = [self.ev(a) for a in n.args]
            if f.id in ("int", "float"):
                return to_sint(args[0])
            if f.id == "str":
                return self.to_str(args[0])
            if f.id in ("tuple", "list"):
                v = args[0]
                return list(v.items) if isinstance(v, SVec) else list(v)
            if f.id == "len":
                v = args[0]
                return len(v.items) if isinstance(v, SVec) else len(v)
            if f.id == "range":
                vals = []
                for a in args:
                    c = to_sint(a).p.const_value()
                    if c is None:
                        raise Unknown("symbolic range")
                    vals.append(int(c))
                return list(range(*vals))
        raise Unknown(f"call {norm(f)}")


class _Return(Exception):
    pass


# ---------------------------------------------------------------------------
def parser_summary(prog, name, nd, rule):
    """evaluate a utils.py header parser on the canonical nd-dimensional template"""
    fi = prog.func(UT, name, rule)
    tpl = canonical(nd)
    arg = fi.params[0]
    wants_bytes = any(isinstance(n, ast.Call) and isinstance(n.func, ast.Attribute) and n.func.attr == "decode"
                      and isinstance(n.func.value, ast.Name) and n.func.value.id == arg for n in ast.walk(fi.node))
    args = {arg: SBytes(tpl) if wants_bytes else tpl}
    if len(fi.params) > 1:
        args[fi.params[1]] = nd
    ev = SEval(fi.node, args)
    try:
        r = ev.run()
    except Unknown as e:
        return fi, None, str(e), wants_bytes
    return fi, r, None, wants_bytes


def flat(v):
    if isinstance(v, SVec):
        return [flat(x) for x in v.items]
    if isinstance(v, (list, tuple)):
        return [flat(x) for x in v]
    if isinstance(v, SInt):
        return str(v.p)
    return v


EXPECT = {
    "shape_from_header": lambda nd: [str(Poly.atom(f"HI{i}") - Poly.atom(f"LO{i}") + 1) for i in range(nd)] + ["NC"],
    "indices_from_header": lambda nd: [[f"LO{i}" for i in range(nd)], [f"HI{i}" for i in range(nd)]],
    "indexes_and_shape_from_header": lambda nd: [[[f"LO{i}" for i in range(nd)], [f"HI{i}" for i in range(nd)]],
                                                 [str(Poly.atom(f"HI{i}") - Poly.atom(f"LO{i}") + 1)
                                                  for i in range(nd)] + ["NC"]],
    "shapes_from_header_vardims": lambda nd: [str(Poly.atom(f"HI{i}") - Poly.atom(f"LO{i}") + 1)
                                              for i in range(nd)] + ["NC"],
}


def check_parser(ctx, prefix, name, dims=(2, 3)):
    """the parser maps the canonical header to (start, stop, N) in the documented slots"""
    for nd in dims:
        fi, r, err, _ = parser_summary(ctx.prog, name, nd, f"{prefix}.H-FAB")
        exp = EXPECT[name](nd)
        got = flat(r) if r is not None else None
        ctx.decide(err is None and got == exp, not (err or "").startswith("unmodelled"), f"{prefix}.H-FAB", fi.site,
                   f"{name} parses the canonical {nd}D FAB header to {exp}",
                  f"{name} evaluated on the canonical {nd}D FAB header gives {got if err is None else 'ERROR: ' + err}"
                  f"; expected {exp}", key=f"{nd}D", objects={"template": canonical(nd), "summary": got})


def check_builder(ctx, prefix, dims=(2, 3)):
    """utils.header_from_indices produces the canonical template, as bytes"""
    fi = ctx.prog.func(UT, "header_from_indices", f"{prefix}.H-FAB")
    for nd in dims:
        p = fi.params
        args = {p[0]: [SInt(Poly.atom(f"LO{i}")) for i in range(nd)],
                p[1]: [SInt(Poly.atom(f"HI{i}")) for i in range(nd)],
                p[2]: SInt(Poly.atom("NC"))}
        try:
            r = SEval(fi.node, args).run()
            err = None
        except Unknown as e:
            r, err = None, str(e)
        ok = isinstance(r, SBytes) and r.s == canonical(nd)
        ctx.check(ok, f"{prefix}.H-FAB", fi.site,
                  f"header_from_indices emits the canonical {nd}D FAB header as bytes",
                  f"header_from_indices emits {r!r} {err or ''}; canonical is {canonical(nd)!r}", key=f"build{nd}D")


def check_sibling_parsers(ctx, prefix, names=("shape_from_header", "indices_from_header",
                                               "indexes_and_shape_from_header", "shapes_from_header_vardims")):
    for n in names:
        check_parser(ctx, prefix, n)
    # every decode of header bytes is strict and ASCII: a validator that decodes leniently (errors='replace' /
    # 'ignore') accepts bytes at a recorded offset on which the reader's strict decode raises
    import ast
    from vk.model import norm, walk_no_nested, loc
    for n in names:
        fi = ctx.prog.func(UT, n, f"{prefix}.H-FAB")
        lenient = [c for c in walk_no_nested(fi.node) if isinstance(c, ast.Call) and isinstance(c.func, ast.Attribute)
                   and c.func.attr == "decode" and (len(c.args) > 1 or any(k.arg == "errors" for k in c.keywords))]
        arg = fi.params[0]
        decodes = any(isinstance(c, ast.Call) and isinstance(c.func, ast.Attribute) and c.func.attr == "decode"
                      and isinstance(c.func.value, ast.Name) and c.func.value.id == arg for c in ast.walk(fi.node))
        raw_calls = []
        if not decodes:
            # the parser takes text: every caller must hand it decoded text
            from vk import rules as _rules
            for g in ctx.prog.all_functions():
                env = None
                for c in ast.walk(g.node):
                    if isinstance(c, ast.Call) and isinstance(c.func, ast.Name) and c.func.id == n and c.args:
                        env = env if env is not None else _rules.local_env(g.node)
                        a = c.args[0]
                        txt = _rules.deep(a, env, tuple(g.params))
                        val = env.get(a.id) if isinstance(a, ast.Name) else None
                        decoded_names = {t.id for m in ast.walk(g.node) if isinstance(m, ast.Assign)
                                         for t in m.targets if isinstance(t, ast.Name) and ".decode(" in norm(m.value)}
                        if ".decode(" not in txt and not (isinstance(val, ast.AST) and ".decode(" in norm(val)) and \
                                not (isinstance(a, ast.Name) and a.id in decoded_names):
                            raw_calls.append(f"{g.qualname}: {norm(c)[:50]}")
        ctx.check(decodes or not raw_calls, f"{prefix}.H-FAB", fi.site,
                  f"{n} parses decoded text: the header bytes are decoded (strict ASCII) by the parser or by every caller",
                  f"{n} parses the raw bytes without decoding them: only the last tokens of the line are parsed, so binary "
                  f"junk in front of a FAB header (a recorded offset that points a few bytes early) passes here while the "
                  f"sibling parsers used by the readers raise UnicodeDecodeError on the same bytes"
                  + (f" (undecoded call sites: {raw_calls[:3]})" if raw_calls else ""), key=f"decodes:{n}", semantic=True)
        ctx.check(not lenient, f"{prefix}.H-FAB", fi.site,
                  f"{n} decodes header bytes strictly (like its sibling parsers and the readers)",
                  f"`{norm(lenient[0]) if lenient else ''}` decodes leniently: junk bytes in front of a FAB header are "
                  f"accepted by this parser while the strict parsers used by the readers raise UnicodeDecodeError on the "
                  f"same bytes — validation and reading disagree about the same offset", key=f"decode:{n}",
                  where=loc(fi, lenient[0]) if lenient else None, semantic=True)
