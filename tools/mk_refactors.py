#!/venv/bin/python
"""Prepares a batch of behaviour-preserving refactor requests (the false-alarm side of the self-test): one scratch
worktree of /repo and one PROMPT.md per request.  Usage: mk_refactors.py Z   (writes /tmp/seed_out/Z01.. , /tmp/wt/Z01..)
Each author gets one emphasis and one group of functions; nothing about checks or rules."""
import os, subprocess, sys

batch = sys.argv[1]
EMPH = {
 "Z": [
  ("a CORRECT cache / memo", "add a memo or cache that is provably right: kept on the object (not at module level), keyed by every input the value depends on, filled after the value is computed; e.g. keep a per-level array conversion, a compiled regular expression, a parsed header value"),
  ("CORRECT guard clauses and early exits", "add guards that cannot change results: skip work on empty lists, return early when there is nothing to do, hoist a validity test to the top of the function and raise the same error earlier"),
  ("state handling made explicit", "initialise attributes in __init__ that were created lazily, reset per-call containers at the start of the method that fills them, replace a lazily computed attribute by a property; no caller-visible change"),
  ("a CORRECT fast path", "add a special case that is exactly equivalent to the general code on its domain (e.g. a single box, a single field, all fields selected) and falls through to the general code otherwise; the condition must imply equivalence"),
  ("defensive programming", "add assertions and input validation that only reject inputs which already fail later, explicit `is None` tests instead of truthiness, explicit int()/float() conversions that do not change values, context managers for files"),
  ("optional arguments with defaults", "add keyword arguments whose default reproduces today's behaviour exactly (a verbosity flag, an optional pre-computed table that is recomputed when None), thread them through one or two call levels"),
 ],
}
TARGETS = [
 "amr_kitchen/plotfile_cooker.py (PlotfileCooker.__init__, read_cell_headers, __getitem__, LevelDataSelector, LevelDataStream)",
 "amr_kitchen/taste/taste.py (Taster and its mp_fun_* workers)",
 "amr_kitchen/mandoline/mandoline.py and blades.py (Mandoline.slice, plate, compute_mpinput_*, reducemp_data_ortho, interpolate_bylevel)",
 "amr_kitchen/chef/chef.py (Chef.__init__, cook, set_global_sarrays, the chefs_knife_* workers)",
 "amr_kitchen/colander/colander.py and amr_kitchen/combine/combine.py",
 "amr_kitchen/pestle/pestle.py, amr_kitchen/whip/cli.py and amr_kitchen/menu/menu.py",
 "amr_kitchen/chk2plt/chk2plt.py and checkpoint_reader.py",
 "amr_kitchen/utils.py, amr_kitchen/mandoline/utils.py and the cli.py entry points of three tools of your choice",
]
TMPL = """# Task: one careful, BEHAVIOUR-PRESERVING change to a scratch copy of olivecha/amrex-kitchen

You are a maintainer of the Python package `amr_kitchen` (reads, validates, slices, filters, combines and writes AMReX
adaptive-mesh plotfiles). Work ONLY inside the git worktree `{wt}` and write deliverables to `{out}/`. Do not read or
write `/repo` or `/verif`. No network. Use `/venv/bin/python`; run things as `cd {wt} && PYTHONPATH={wt} /venv/bin/python ...`.

## What to do

Make a change of this kind: **{kind}** - {text}.

Where: {target}. Touch 2-4 functions, 15-60 changed lines in total.

The change MUST NOT alter any observable behaviour for any input, any option, any sequence of calls and any failure:
same return values, same files byte for byte, same exceptions of the same type at the same points (messages may
differ), same behaviour on the second and later use of an object. When in doubt, leave it out. It is a change a
reviewer would merge without discussion.

## How to verify (required)

1. `cd {wt} && /venv/bin/python -m pytest -q -p no:cacheprovider --timeout=900` before and after: `40 passed, 1 failed`
   both times (`test_chk2plt` fails on the unchanged tree too). Remove `test/plt_tmp`-style leftovers.
2. Write `{out}/diff_demo.py`: a program that exercises the functions you touched through the public API or the
   command-line entry points on `test_assets/` (and on inputs it builds itself where the assets do not reach your
   code: several calls on one object, empty selections, limit_level 0, ...), and prints a digest (sha256 of returned
   arrays / written files, exception types). Run it on the unchanged tree (`git stash` is NOT allowed: use
   `git -C {wt} diff HEAD -- amr_kitchen > {out}/patch.diff; git -C {wt} checkout HEAD -- amr_kitchen`, run, then
   `git -C {wt} apply {out}/patch.diff`) and on your tree; the two outputs must be identical. Save them as
   `{out}/demo_before.txt` and `{out}/demo_after.txt`.

## Deliverables in `{out}/`

`patch.diff` (`git -C {wt} diff HEAD -- amr_kitchen`), `diff_demo.py`, `demo_before.txt`, `demo_after.txt`, `notes.md`
(what you changed, why behaviour is unchanged, what you ran). Leave the change applied, uncommitted, in the worktree.
Finish with a two-line summary.
"""
os.makedirs("/tmp/wt", exist_ok=True)
k = 0
for rnd in range(2):
    for i, (kind, text) in enumerate(EMPH[batch]):
        k += 1
        rid = f"{batch}{k:02d}"
        wt, out = f"/tmp/wt/{rid}", f"/tmp/seed_out/{rid}"
        os.makedirs(out, exist_ok=True)
        if not os.path.isdir(wt):
            subprocess.run(["git", "-C", "/repo", "worktree", "add", "--detach", "-f", wt, "HEAD"], check=True,
                           stdout=subprocess.DEVNULL, stderr=subprocess.DEVNULL)
        target = TARGETS[(i * 3 + rnd * 4 + 1) % len(TARGETS)]
        open(f"{out}/PROMPT.md", "w").write(TMPL.format(wt=wt, out=out, kind=kind, text=text, target=target))
        print(rid, kind, "|", target[:60])
