#!/bin/bash
# Confirms a sub-agent's seeded change in its scratch worktree (tests as on the unchanged tree, demo fails with the
# change and passes without it), then runs all checks against a scratch copy of /repo/amr_kitchen with the patch applied.
# Usage: confirm_seed.sh <id> [worktree] [outdir]
id=$1; wt=${2:-/tmp/wt/$id}; out=${3:-/tmp/seed_out/$id}
set -u
echo "== $id: patch"; git -C $wt diff HEAD --stat -- amr_kitchen | tail -3
git -C $wt diff HEAD -- amr_kitchen > $out/patch.confirmed.diff
echo "== tests on the changed tree"
(cd $wt && /venv/bin/python -m pytest -q -p no:cacheprovider --timeout=900 2>&1 | grep -E "passed|failed" | tail -2)
echo "== demo with the change (must fail)"
(cd $wt && PYTHONPATH=$wt timeout 900 /venv/bin/python $out/demo.py > $out/demo_with.log 2>&1; echo "exit=$?"; tail -4 $out/demo_with.log | cut -c1-200)
git -C $wt checkout HEAD -- amr_kitchen
echo "== demo without the change (must pass)"
(cd $wt && PYTHONPATH=$wt timeout 900 /venv/bin/python $out/demo.py > $out/demo_without.log 2>&1; echo "exit=$?"; tail -2 $out/demo_without.log | cut -c1-200)
git -C $wt apply $out/patch.confirmed.diff
rm -rf $wt/test/plt_tmp
echo "== checks against the change (scratch copy of /repo/amr_kitchen + patch)"
tmp=$(mktemp -d /tmp/vk_conf.XXXX); cp -r /repo/amr_kitchen $tmp/; 
if ! patch -p1 -s -d $tmp -i $out/patch.confirmed.diff; then echo "PATCH DOES NOT APPLY to /repo"; rm -rf $tmp; exit 3; fi
for c in C01 C02 C03 C04 C05 C06 C07 C08 C09 C10 C11 C12 C13 C14 C15 C16 C17 C18 C19 C20; do
  ( r=$(VERIF_EVIDENCE_DIR=$tmp/ev_$c /venv/bin/python /verif/run_check.py $c --tier thorough --repo $tmp 2>&1); rc=$?
    if [ $rc -ne 0 ]; then echo "-- $c exit=$rc"; echo "$r" | grep -E "^FINDING|^ANALYSIS" | cut -c1-330 | head -6; fi ) > $tmp/out_$c.txt &
done; wait
cat $tmp/out_C*.txt; rm -rf $tmp
echo "== done $id"
