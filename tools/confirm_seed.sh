#!/bin/bash
# Confirms a sub-agent's seeded change in its scratch worktree, then runs the checks against it on /repo
# (apply -> run -> undo).  Usage: confirm_seed.sh <id> [worktree] [outdir]
id=$1; wt=${2:-/tmp/wt/$id}; out=${3:-/tmp/seed_out/$id}
set -u
echo "== $id: patch"; git -C $wt diff --stat | tail -3
echo "== tests on the changed tree"
(cd $wt && /venv/bin/python -m pytest -q -p no:cacheprovider --timeout=900 2>&1 | grep -E "passed|failed" | tail -2)
echo "== demo with the change (must fail)"
(cd $wt && PYTHONPATH=$wt timeout 900 /venv/bin/python $out/demo.py > /tmp/demo_with.log 2>&1; echo "exit=$?"; tail -4 /tmp/demo_with.log | cut -c1-200)
git -C $wt diff -- amr_kitchen > $out/patch.confirmed.diff
git -C $wt checkout -- amr_kitchen
echo "== demo without the change (must pass)"
(cd $wt && PYTHONPATH=$wt timeout 900 /venv/bin/python $out/demo.py > /tmp/demo_without.log 2>&1; echo "exit=$?"; tail -2 /tmp/demo_without.log | cut -c1-200)
git -C $wt apply $out/patch.confirmed.diff
echo "== checks against the change (applied to /repo, then undone)"
if ! git -C /repo apply --check $out/patch.confirmed.diff 2>/dev/null; then echo "PATCH DOES NOT APPLY to /repo"; exit 3; fi
git -C /repo apply $out/patch.confirmed.diff
for c in C01 C02 C03 C04 C05 C06 C07 C08 C09 C10 C11 C12 C13 C14 C15 C16 C17 C18 C19 C20; do
  r=$(VERIF_EVIDENCE_DIR=/tmp/ev_seed /venv/bin/python /verif/run_check.py $c --tier thorough 2>&1); rc=$?
  if [ $rc -ne 0 ]; then echo "-- $c exit=$rc"; echo "$r" | grep -E "^FINDING|^ANALYSIS" | cut -c1-330 | head -6; fi
done
git -C /repo checkout -- . ; rm -rf /tmp/ev_seed
git -C /repo status --short | grep -v "test/plt_tmp" | head -3
echo "== done $id"
