#!/venv/bin/python
"""Writes vk/refnames.json: per function, the local-variable names of the current /repo tree with their
name-independent signatures (see vk/alpha.py).  Re-run after every commit to /repo."""
import ast, json, os, sys
HERE = os.path.dirname(os.path.dirname(os.path.abspath(__file__)))
sys.path.insert(0, HERE)
from vk import alpha
out = {}
gl = {}
root = "/repo/amr_kitchen"
for dp, dn, fn in os.walk(root):
    dn[:] = sorted(d for d in dn if d != "__pycache__")
    for f in sorted(fn):
        if f.endswith(".py"):
            p = os.path.join(dp, f)
            rel = os.path.relpath(p, "/repo")
            tree = ast.parse(open(p).read())
            from vk import canon
            canon.normalise_imports(rel, tree)
            gl.setdefault(rel, sorted(alpha.module_globals(tree)))
            # same order as vk/model.py: canonical idioms first, then the name signatures
            canon.normalise_idioms(tree)
            out[rel] = alpha.reference_for(tree)
            for q, fn in alpha.functions_of(tree):
                out[rel][q]["skeleton"] = alpha.skeleton(fn)
out_all = dict(out)
out_all["__globals__"] = gl
json.dump(out_all, open(os.path.join(HERE, "vk", "refnames.json"), "w"), indent=0, sort_keys=True)
print("functions", sum(len(v) for v in out.values()), "locals", sum(len(f["locals"]) for v in out.values() for f in v.values()))
