#!/venv/bin/python
"""Prepares a wave of seeded-change requests: one scratch worktree of /repo and one PROMPT.md per property.
Usage: mk_wave.py W10 [C01 C05 ...]
The prompt carries the property text, the kind of change asked of this author (rotating over the properties) and
one-line descriptions of the changes earlier authors delivered for this property (so that the new one is different);
nothing about checks, rules or what is detected."""
import json, os, subprocess, sys, glob

wave = sys.argv[1]
only = set(sys.argv[2:])
props = [json.loads(l) for l in open("/verif/properties.jsonl")]

KINDS = [
    ("a multi-step sequence of operations",
     "the defect shows only on the second or later use of an object, after a particular earlier call, when two tools "
     "are chained, or when one instance is reused with other arguments (state kept on an object, a cache, a default "
     "argument, a module-level table, something left behind in the output of a first step)"),
    ("two cooperating sites that each look fine alone",
     "change two places (or one place whose partner elsewhere stays as it is) so that each reads as correct on its "
     "own and only the pair is wrong: a helper and one of its callers, a producer of task/tuple/dict entries and its "
     "consumer, a writer and the reader of what it wrote, a constructor and a method, the 2D and the 3D branch"),
    ("an unusual but well-formed input",
     "inputs the assets in test_assets/ do not have: a level with a single box, one field only, boxes of different "
     "shapes, non-cubic boxes, a domain whose origin is not 0, anisotropic cell sizes, boxes of one level spread over "
     "several binary files in non-monotone order, field names with unusual characters, refinement limited to level 0, "
     "more than 2 levels, a negative index, an empty selection"),
    ("a fault or failure at a particular point",
     "behaviour when something goes wrong half-way: a worker raises for one box, a file is short, missing or "
     "unreadable, the output directory exists already, the disk write fails, an invalid argument arrives late; the "
     "changed code then reports success, swallows or misreports the failure, damages the input, or keeps going with "
     "stale or partial data"),
    ("new code added next to untouched code",
     "leave the existing statements as they are and ADD something a reviewer would welcome: a fast path or early "
     "return for a 'trivial' case, a cache or memo, a new optional argument with a default, a convenience helper that "
     "one caller starts to use, a pre-computed table, a clean-up step - which is wrong for some inputs only"),
]

TMPL = """# Task: seed one realistic defect into a scratch copy of olivecha/amrex-kitchen

You work ONLY inside the git worktree `{wt}` (a scratch checkout of the Python package `amr_kitchen`, a toolbox that
reads, validates, slices, filters, combines and writes AMReX adaptive-mesh plotfiles) and write your deliverables to
`{out}/`. Do not read or write `/repo` or `/verif`. There is no network. Use `/venv/bin/python` (numpy etc. installed).
Run things with `cd {wt} && PYTHONPATH={wt} /venv/bin/python ...` so that the worktree's copy of the package is imported.

## The property (a promise the package makes to its users)

**{pid} - {title}**

{statement}

Quantified over: {quant}

Code it is anchored in: {anchors}

## What to produce

A small, plausible change to the source under `{wt}/amr_kitchen/` - the kind of edit a contributor could make in good
faith and a reviewer could approve - after which **the property above no longer holds for some input / configuration /
schedule / history**, while

* the package still imports and the existing test suite gives the same result as before your change:
  `cd {wt} && /venv/bin/python -m pytest -q -p no:cacheprovider --timeout=900` -> `40 passed, 1 failed`
  (`test_chk2plt` fails on the unchanged tree too; run the suite once BEFORE changing anything to see the baseline,
  and remove `test/plt_tmp` style leftovers the tests create);
* ordinary use would NOT expose the defect at once: it needs something specific to manifest.

**Kind of change asked of you: {kind}.** That is: {kind_text}.

Keep it to roughly 3-30 changed lines. Do not touch tests, assets or setup files. Do not use: swapping one pool
primitive for another (`imap` -> `imap_unordered` ...), wrapping code in `try/except`, `sort` -> `unique`, or a plain
typo. Read the code the property is anchored in first and choose a spot where your kind of change fits naturally.
{avoid}
## Deliverables (all three are required), in `{out}/`

1. `patch.diff` - `git -C {wt} diff HEAD -- amr_kitchen > {out}/patch.diff`. Leave the change applied (uncommitted) in
   the worktree when you finish. Never run `git stash`, never commit.
2. `demo.py` - a self-contained program, run as `cd {wt} && PYTHONPATH={wt} /venv/bin/python {out}/demo.py`, that exits
   0 when the property holds (unchanged tree) and exits non-zero with a short message when it is broken (changed tree).
   It builds whatever inputs it needs (synthetic plotfiles written by the demo itself into a `tempfile.mkdtemp()`
   directory, or copies of `test_assets/`), uses the public API or the command-line entry points the way a user would
   (no monkey-patching of the package), checks the promised behaviour against an independent computation (e.g. bytes
   read straight from the files with numpy), removes its temporary files, and finishes in under 5 minutes.
   Verify both outcomes yourself: with your change (must fail) and after `git -C {wt} checkout HEAD -- amr_kitchen`
   (must pass), then re-apply the patch with `git -C {wt} apply {out}/patch.diff`.
3. `notes.md` - five to fifteen lines: what you changed and where, why it looks reasonable, why the 40 tests do not
   see it, exactly what is needed for it to manifest, and the two demo outcomes you observed.

Finish by replying with a two-line summary (what the change is; what it needs to manifest).
"""

os.makedirs("/tmp/wt", exist_ok=True)
for k, p in enumerate(props):
    pid = p["id"]
    if only and pid not in only:
        continue
    sid = f"{wave}-{pid}"
    wt, out = f"/tmp/wt/{sid}", f"/tmp/seed_out/{sid}"
    os.makedirs(out, exist_ok=True)
    if not os.path.isdir(wt):
        subprocess.run(["git", "-C", "/repo", "worktree", "add", "--detach", "-f", wt, "HEAD"], check=True,
                       stdout=subprocess.DEVNULL, stderr=subprocess.DEVNULL)
    earlier = []
    for m in sorted(glob.glob(f"/verif/seeded/{pid}-*/meta.json")) + sorted(glob.glob(f"/verif/seeded/{pid}b-*/meta.json")):
        earlier.append(json.load(open(m))["change"])
    avoid = ""
    if earlier:
        avoid = ("\nEarlier contributors already delivered the following changes for this property; yours must be a "
                 "different idea in a different spot:\n" + "".join(f" - {c}\n" for c in earlier))
    wnum = int("".join(ch for ch in wave if ch.isdigit()) or 0)
    kind, kind_text = KINDS[(k + wnum) % len(KINDS)]
    a = p.get("anchors", {})
    anchors = "files " + ", ".join(a.get("files", [])) + "".join(
        f"\n * {m['name']} ({m.get('where', '')})" for m in a.get("mechanism", []) + a.get("state", []))
    open(f"{out}/PROMPT.md", "w").write(TMPL.format(
        wt=wt, out=out, pid=pid, title=p["title"], statement=p["statement"], quant=p["quantifier"]["text"],
        anchors=anchors, kind=kind, kind_text=kind_text, avoid=avoid))
    print(sid, kind)
