#!/venv/bin/python
"""Runs every check against the behaviour-preserving refactors kept under /verif/selftest/refactors (NOT a
registered check).  Each patch is applied to a scratch copy of /repo/amr_kitchen (outside /repo and /verif, removed
afterwards).  Any non-zero exit is a false alarm (exit 1) or an analysis the refactor broke (exit 2).
Usage: run_refactors.py [-k substr] [-c C05,C14] [--tier quick|thorough] [-v]"""
import argparse, os, shutil, subprocess, sys, tempfile, concurrent.futures as cf

VERIF = os.path.dirname(os.path.dirname(os.path.abspath(__file__)))
PY = "/venv/bin/python"
ALL = [f"C{i:02d}" for i in range(1, 21)]


def prepare(diff):
    tmp = tempfile.mkdtemp(prefix="vk_ref_")
    shutil.copytree("/repo/amr_kitchen", os.path.join(tmp, "amr_kitchen"), ignore=shutil.ignore_patterns("__pycache__"))
    r = subprocess.run(["patch", "-p1", "-s", "-d", tmp, "-i", diff], capture_output=True, text=True)
    if r.returncode != 0:
        shutil.rmtree(tmp, ignore_errors=True)
        return None, r.stdout + r.stderr
    return tmp, ""


def check(args):
    tmp, prop, tier = args
    rr = subprocess.run([PY, os.path.join(VERIF, "run_check.py"), prop, "--tier", tier, "--repo", tmp],
                        capture_output=True, text=True,
                        env={**os.environ, "VERIF_EVIDENCE_DIR": os.path.join(tmp, "ev_" + prop)})
    lines = [l for l in rr.stdout.splitlines() if l.startswith(("FINDING", "ANALYSIS-ERROR"))]
    return prop, rr.returncode, lines


def main():
    ap = argparse.ArgumentParser()
    ap.add_argument("-k", default="")
    ap.add_argument("-c", default="")
    ap.add_argument("--tier", default="thorough")
    ap.add_argument("-v", action="store_true")
    ap.add_argument("-j", type=int, default=16)
    a = ap.parse_args()
    d = os.path.join(VERIF, "selftest", "refactors")
    ids = sorted(f[:-5] for f in os.listdir(d) if f.endswith(".diff") and a.k in f)
    props = a.c.split(",") if a.c else ALL
    total_bad = 0
    with cf.ThreadPoolExecutor(a.j) as ex:
        for rid in ids:
            tmp, err = prepare(os.path.join(d, rid + ".diff"))
            if tmp is None:
                print(f"{rid}: STALE patch: {err[:200]}")
                total_bad += 1
                continue
            try:
                res = list(ex.map(check, [(tmp, p, a.tier) for p in props]))
            finally:
                shutil.rmtree(tmp, ignore_errors=True)
            bad = [(p, rc, ls) for p, rc, ls in res if rc != 0]
            total_bad += len(bad)
            print(f"{rid}: {len(bad)} of {len(props)} checks alarmed " + " ".join(f"{p}={rc}" for p, rc, _ in bad))
            if a.v:
                for p, rc, ls in bad:
                    for l in ls[:8]:
                        print("    " + l[:330])
    print(f"total alarms: {total_bad}")
    sys.exit(1 if total_bad else 0)


if __name__ == "__main__":
    main()
