#!/bin/sh
# Runs the repository's baseline suite (guard off; there are no hooks) and prints the summary.
cd /repo && /venv/bin/python -m pytest -ra -q -p no:cacheprovider --timeout=900 --continue-on-collection-errors 2>&1 | grep -E "^(FAILED|ERROR)|passed|failed" | tail -15
