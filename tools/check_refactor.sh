#!/bin/bash
# Runs the 20 checks (thorough) against a behaviour-preserving refactor living in a scratch worktree.
# Every non-zero exit is a false alarm of the machinery.  Usage: check_refactor.sh <worktree-dir> [checks...]
wt=$1; shift
checks=${@:-C01 C02 C03 C04 C05 C06 C07 C08 C09 C10 C11 C12 C13 C14 C15 C16 C17 C18 C19 C20}
ev=$(mktemp -d /tmp/ev_ref.XXXX)
bad=0
for c in $checks; do
  r=$(VERIF_EVIDENCE_DIR=$ev /venv/bin/python /verif/run_check.py $c --tier thorough --repo $wt 2>&1); rc=$?
  if [ $rc -ne 0 ]; then bad=$((bad+1)); echo "-- $c exit=$rc"; echo "$r" | grep -E "^FINDING|^ANALYSIS" | cut -c1-400 | head -8; fi
done
rm -rf $ev
echo "== $wt: $bad checks alarmed"
