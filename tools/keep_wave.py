#!/venv/bin/python
"""Keeps the confirmed seeds of a wave under /verif/seeded/<prop>-<tag>/ (patch.diff, demo.py, notes.md, meta.json).
Usage: keep_wave.py W3 w3 /tmp/w3_meta.json   (meta: {prop: [change, needs_to_manifest]})"""
import json, os, re, shutil, sys
wave, tag, metaf = sys.argv[1:4]
meta = json.load(open(metaf))
for prop, (change, needs) in sorted(meta.items()):
    src = f"/tmp/seed_out/{wave}-{prop}"
    log = open(f"{src}/confirm.log").read()
    tests = re.search(r"== tests on the changed tree\n(.*)", log).group(1).strip()
    w = re.search(r"must fail\)\nexit=(\d+)", log).group(1)
    wo = re.search(r"must pass\)\nexit=(\d+)", log).group(1)
    if not (w != "0" and wo == "0" and "40 passed" in tests and "1 failed" in tests):
        print(f"{prop}: NOT CONFIRMED tests={tests} with={w} without={wo}")
        continue
    dst = f"/verif/seeded/{prop}-{tag}"
    os.makedirs(dst, exist_ok=True)
    shutil.copy(f"{src}/patch.confirmed.diff", f"{dst}/patch.diff")
    shutil.copy(f"{src}/demo.py", f"{dst}/demo.py")
    shutil.copy(f"{src}/notes.md", f"{dst}/notes.md")
    first = sorted({l.split()[1] for l in log.splitlines() if l.startswith("-- ") and "exit=1" in l})
    m = {"id": f"{prop}-{tag}", "property": prop,
         "source": f"fresh sub-agent given only the property text and a scratch worktree (wave {tag[1:]}; asked to avoid "
                   "pool-primitive swaps, try/except wrappers and sort->unique, and not to repeat earlier seeds)",
         "change": change, "needs_to_manifest": needs,
         "confirmed": {"tests_with_change": tests + " (test_chk2plt fails as on the unchanged tree)",
                       "demo_with_change": f"exit {w}", "demo_without_change": f"exit {wo}",
                       "how": f"tools/confirm_seed.sh {wave}-{prop} (scratch worktree /tmp/wt/{wave}-{prop}, removed afterwards)"},
         "checks_run": "all 20 checks, thorough tier, on a scratch copy of /repo/amr_kitchen with the patch applied",
         "detected_at_first_by": first, "detected_by": [], "detected": None}
    if os.path.exists(f"{dst}/meta.json"):
        old = json.load(open(f"{dst}/meta.json"))
        for k in ("detected_by", "detected", "note"):
            if k in old:
                m[k] = old[k]
    json.dump(m, open(f"{dst}/meta.json", "w"), indent=1)
    print(f"{prop}: kept; first detected by {first}")
