#!/venv/bin/python
"""Regenerates /verif/MANIFEST.json from the table below (keeps it valid at all times)."""
import json, os, sys
HERE = os.path.dirname(os.path.dirname(os.path.abspath(__file__)))
PY = "/venv/bin/python"

CLAIMED = {
 "C01": ("E1 byte-accounting abstract interpretation + AST rules",
         "Byte windows, F-order reshape and selector space of the three seek-addressed readers decided for all C, N, k at once in a polynomial domain; same-index/count task tuples; ordered pool primitives; exhaustive dispatch; selector bounds and negative-index normalisation; level guard."),
 "C02": ("E4 line-grammar extraction vs AMReX oracle + E5 formula identities",
         "Reader grammar (structure, counts, parse kinds, public targets) equals the format oracle; token positions by abstract evaluation on template lines; limit comparator; grid formulas; header_only guard."),
 "C03": ("E7 configuration enumeration (constant propagation) + definedness + co-sort + formula identity",
         "All 16 flag configurations x {fail,nofail}: every invoked validator method is clean; per-file tables co-sorted by offsets; box-coordinate expectation is lo+idx*dx with tolerant compare; CLI polarity."),
 "C04": ("must-pass-through + error-discipline rules + E1 checked pairs",
         "Default passes on every path; isgood/raise discipline; index range and component count compared at each recorded offset; whole-FAB walk with exact comparisons to EOF; no swallowing handlers."),
 "C05": ("E1 abstract interpretation of the strainers + E2 task/scatter normal forms + E4 writer grammar",
         "Whole-FAB window at the recorded offset, kept-field selection, F-order serialisation, header count = components written, offset capture; names/indices lock-step; scatter map; global-header writer grammar vs reader oracle with exact float formats; level-header rewriter copies min/max rows as strings; CLI wiring; sinks at the output."),
 "C06": ("E1 on the three workers + mode-enum / task-key / access-kind-vs-map-order rules + E4",
         "Whole-FAB reads, side-coherent selectors and offsets, [v1 ++ v2] order, header count; produced vs dispatched modes; task keys per worker x generator; scan/seek access against scatter-map order; names/indices/min-max order; dominance of the structure validation; writer grammars."),
 "C07": ("E1 byte window of slice_box + E5 formula identities / comparator normal forms + symmetric-store rule",
         "Window of the sliced field, span/normal-grid/face-point/default-position/interpolation identities, domain refusal and box-selection margin (>= dx/2) as comparator normal forms, four position cases with bracketing indices, ascending reduction, symmetric stores, mask+complement cover."),
 "C08": ("E1 byte window of plate_box (2D) + E5 span formulas + store/transpose rules",
         "2D window, span and factor formulas, same-box task tables, ascending overwrite, per-field store agreement, common transpose, name/array pairing, coordinates."),
 "C16": ("alias rule + E5 identities + H-FAB template evaluation + E4 writer grammars + chunking rules",
         "Distinct per-level accumulators, per-level interpolation identity, each footprint once, span/down-sampling formulas, literal FAB header = canonical 2D template, header count, offset capture, min/max source, chunk step >= 1 and chunks <= names, Header and Cell_H grammars."),
 "C09": ("must-pass-through + sentinel/polarity + level-coherence rules + E1 windows with sibling summaries + DIV-ALL",
         "Both sums on every path, limit wiring, mask sentinel and polarity, level coherence of dV/tables/masks, byte windows of both workers, ordered imap under float accumulation, occupancy resolution = gcd of all box boundaries."),
 "C10": ("E7 wiring + TEXT-KIND + E1 scan accounting + span identities + unordered-pool consumer rule",
         "All options read and wired, str header for the parser, window of the requested component with whole-FAB advance, axis<->dimension span identities, self-describing unordered results inside the ascending level loop, zero-initialised buffer."),
 "C11": ("E1 on the five knives (incl. recipe-result rank) + names/count/order rules + E2 + E4",
         "Header count = kept + new components on every path, rank agreement, [kept ++ new] order, min/max over the written array, no store through input views, names defined/counted/ordered like the data, offset-sorted scatter map, ordered pathos imap with serial twin, worker globals vs persistent pool, writer grammars."),
 "C12": ("E2 non-interference rules over all pool call sites",
         "Primitive ordering vs consumer kind, worker purity incl. parent-assigned globals vs persistent pools, no worker-count reads, lazy results fetched, serial twins, scatter maps in semantic normal form, level barriers: holds for every completion order because no rule depends on an order."),
 "C13": ("E3 path-class abstract interpretation + exception-flow rules",
         "All 38 write sinks classified (never inside an input), default outputs are normalised siblings, read-only tools reach no sink, no sink under a completing broad handler, lazy pool results fetched, CLI handlers exit non-zero."),
 "C14": ("closure by induction: reader grammar = oracle, every writer accepted (E4), FAB templates (H-FAB), per-operation rule sets re-evaluated",
         "Every writer's Header/Cell_H grammar matched against the reader-derived oracle with exact float formats; FAB header builder canonical and parsed identically; the complete rule sets of C05/C06/C11/C17 are re-evaluated under this property."),
 "C15": ("E1 scan invariant + pool/iterator protocol rules",
         "Whole-FAB advance 8*C*N per scan iteration, one append per header, np.unique over the level's file table, chained iterator protocol, ordered on-demand iterator."),
 "C17": ("E1 on the conversion worker (8 flag paths, ghost-trim extent algebra) + positional task roles + E4 + E5",
         "State scan with whole-FAB advance, subsets seek-addressed with their own offsets, F-order reshape of every subset, per-axis ghost strip, [state ++ gradp ++ I_R] order under the flags, header count, min/max source, flooring; 11-slot task vs unpack; offset-sorted scatter map; names/count; grid and per-direction box-bound formulas; Header and Cell_H writer grammars; CLI polarity; sinks under pltdir."),
 "C18": ("header-walk prefix agreement (E4) + reducer/table pairing + parity rule + picklability + wiring",
         "minuterie and menu consume the reader's own prefix, min with 'mins' and max with 'maxs' over all or the finest level, 3 significant digits, odd-count padding, every field once, reader pickles, read-only tools have no sink."),
 "C19": ("E5 index-formula identity + per-dimension comparator normal forms + refusal-path rule",
         "index = (point - geo_low)/dx - 1/2 with the read level's dx, local index vs the same box, per-dimension box-match comparators, finest-level selection, un-swallowed refusal."),
 "C20": ("assume/guarantee over parser summaries, checked pairs and reader pre-conditions",
         "Validator and reader share parser summaries and table rows; validator post-conditions cover the reader's pre-conditions."),
}
PENDING = {}
ALL = [f"C{i:02d}" for i in range(1, 21)]

def main():
    checks = []
    for p in ALL:
        if p not in CLAIMED or not os.path.exists(os.path.join(HERE, "checks", f"{p}.py")):
            continue
        tech, text = CLAIMED[p]
        checks.append({
            "property_id": p,
            "quick_cmd": f"{PY} /verif/run_check.py {p} --tier quick",
            "thorough_cmd": f"{PY} /verif/run_check.py {p} --tier thorough",
            "evidence_file": f"/verif/evidence/{p}.json",
            "replay_cmd_template": f"{PY} /verif/run_check.py --replay {{path}}",
            "engine": "vk",
            "level_claimed": {"category": "other",
                              "text": "Static analysis of /repo's current source (no execution): " + text +
                                      " Holds for every input/schedule because the rules are stated on symbolic "
                                      "objects (polynomials, grammars, key sets, comparator normal forms), not on samples.",
                              "design_ref": f"DESIGN.md §4.{p}"},
            "level_note": "Decides the structural clauses listed in DESIGN §4 for this property, not the behaviour "
                          "itself. Trusted base: Python ast, the numpy/multiprocessing/IO semantics encoded in vk/, "
                          "the hand-written role/oracle tables in checks/. Genuine defects already in the tree are "
                          "listed in known_findings.json and reported as KNOWN-FINDING. Renames of locals, re-formatting and added "
                          "logging, extracted/inlined locals and helpers are normalised away (DESIGN §10). Verdicts are three-valued "
                          "(DESIGN §11): rules that compare the shape of statements abstain (exit 2, undecided) on functions whose "
                          "statement structure no longer matches the reference tree, and obligations that meet a form the engines "
                          "cannot evaluate are undecided. Measured on 93 behaviour-preserving refactors written by independent "
                          "sub-agents (DESIGN §6, §13, §14): none draws a false VIOLATION any more, 29 leave at least one check "
                          "undecided (exit 2); every new batch first found forms that raised alarms and had to be answered by a canonical form "
                          "or an evaluator — the main weakness of this rule base. Two rule families compare with tables frozen from the "
                          "confirmed tree (vk/refnames.json for renaming / drift, vk/refeffects.json for the path conditions of effects); "
                          "after a commit to /repo they are regenerated with tools/gen_refnames.py and tools/gen_refeffects.py.",
            "technique": "static analysis: " + tech + "; generic lints over the anchored functions and every function reachable from them (loop-carried "
                         "state, untrimmed level tables, task-argument mutation, library pitfalls, unbound names, negative-index wrapping, "
                         "path conditions of effects vs the confirmed tree, module / instance state and memo lifetimes; DESIGN §12, §14)",
        })
    na = [{"property_id": p, "reason": PENDING.get(p, "check not built yet in this session (static rules designed in DESIGN §4; claimed as soon as the check exists)")}
          for p in ALL if p not in {c["property_id"] for c in checks}]
    m = {
        "version": 1,
        "setup_cmd": "true",
        "hooks": {"guard": "AMR_KITCHEN_VERIF", "enable": "no hooks are needed: the checks parse the source and never import or run amr_kitchen",
                  "baseline_off_cmd": "cd /repo && /venv/bin/python -m pytest -ra -q -p no:cacheprovider --timeout=900 --continue-on-collection-errors",
                  "source_commits": [], "add_only": True},
        "engines": [
            {"name": "vk", "path": "/verif/vk", "serves_properties": [c["property_id"] for c in checks],
             "kind_free_text": "stdlib-only static analysis kit: program model/resolver (model.py), polynomial domain (poly.py), FAB byte-accounting abstract interpreter (fabio.py), pool protocol (pools.py), line grammars (grammar.py), formula/comparator normal forms (rules.py, formulas.py), option wiring (wiring.py), path classes (paths.py)"}],
        "checks": checks,
        "not_applicable": na,
        "notes": "All checks are static (ast-based) and run in 2-15 seconds each; exit 0 held / 1 VIOLATION / 2 ANALYSIS-ERROR (an obligation could not be evaluated; never a silent pass). Known genuine defects: /verif/known_findings.json.",
    }
    with open(os.path.join(HERE, "MANIFEST.json"), "w") as fh:
        json.dump(m, fh, indent=1)
    print("claimed", [c["property_id"] for c in checks], "pending", [n["property_id"] for n in na])

if __name__ == "__main__":
    main()
