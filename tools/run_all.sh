#!/bin/bash
# runs all 20 checks on /repo in parallel: run_all.sh [quick|thorough]; prints one line per check
tier=${1:-quick}
for i in $(seq -w 1 20); do
  ( /venv/bin/python /verif/run_check.py C$i --tier $tier > /tmp/runall_C$i.log 2>&1; echo "C$i rc=$? $(grep -c '^KNOWN-FINDING' /tmp/runall_C$i.log) known $(grep -c '^VIOLATION\|^ANALYSIS' /tmp/runall_C$i.log) alarms" ) &
done | sort
wait
