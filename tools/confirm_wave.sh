#!/bin/bash
# confirm every delivered seed of a wave that has not been confirmed yet: confirm_wave.sh W3
w=$1
for d in /tmp/seed_out/$w-*; do
  id=$(basename $d)
  [ -f $d/patch.diff ] && [ -f $d/demo.py ] && [ -f $d/notes.md ] || continue
  [ -f $d/confirm.log ] && continue
  bash /verif/tools/confirm_seed.sh $id > $d/confirm.log 2>&1
  echo "$id: $(grep -A1 'tests on' $d/confirm.log | tail -1) | with: $(grep -A1 'must fail' $d/confirm.log | tail -1) | without: $(grep -A1 'must pass' $d/confirm.log | tail -1) | alarms: $(grep -c '^-- ' $d/confirm.log) $(grep '^-- ' $d/confirm.log | tr '\n' ' ')"
done
