#!/venv/bin/python
"""Writes vk/refeffects.json: per function of the confirmed /repo tree, the path condition of every effect statement
(see vk/guards.py), plus the module-level / instance state inventory used by vk/history.py.  Run after
tools/gen_refnames.py and after every commit to /repo."""
import json, os, sys
HERE = os.path.dirname(os.path.dirname(os.path.abspath(__file__)))
sys.path.insert(0, HERE)
from vk.model import Program
from vk import guards
prog = Program(sys.argv[1] if len(sys.argv) > 1 else "/repo")
out = {}
n = 0
for rel, m in sorted(prog.modules.items()):
    out[rel] = {}
    for q, fi in sorted(m.functions.items()):
        t = guards.table(fi.node)
        out[rel][q] = {text: conds for text, (conds, _node) in sorted(t.items())}
        n += len(t)
json.dump(out, open(os.path.join(HERE, "vk", "refeffects.json"), "w"), indent=0, sort_keys=True)
print("functions", sum(len(v) for v in out.values()), "effects", n)
