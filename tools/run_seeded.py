#!/venv/bin/python
"""Runs the checks against every seeded change kept under /verif/seeded (NOT a registered check).
Each patch is applied to a scratch copy of /repo/amr_kitchen (outside /repo and /verif, removed afterwards) and
every check is run with --repo on the copy.  A seed is DETECTED when at least one check of the property it breaks
(or a property that inherits its rules) exits 1 with a FINDING; checks that alarm without being related are listed.
Usage: run_seeded.py [-k substr] [--all-checks] [--tier quick|thorough]"""
import argparse, json, os, shutil, subprocess, sys, tempfile, concurrent.futures as cf

VERIF = os.path.dirname(os.path.dirname(os.path.abspath(__file__)))
PY = "/venv/bin/python"
ALL = [f"C{i:02d}" for i in range(1, 21)]


def run_one(args):
    sid, tier, allchecks, record = args
    d = os.path.join(VERIF, "seeded", sid)
    meta = json.load(open(os.path.join(d, "meta.json")))
    tmp = tempfile.mkdtemp(prefix="vk_seed_")
    try:
        shutil.copytree("/repo/amr_kitchen", os.path.join(tmp, "amr_kitchen"),
                        ignore=shutil.ignore_patterns("__pycache__"))
        r = subprocess.run(["patch", "-p1", "-s", "-d", tmp, "-i", os.path.join(d, "patch.diff")],
                           capture_output=True, text=True)
        if r.returncode != 0:
            return sid, "STALE", r.stdout[:200] + r.stderr[:200], meta
        props = ALL if allchecks else sorted({x.split(".")[0] for x in meta.get("detected_by", [])} | {meta["property"]}
                                             | set(meta.get("detected_at_first_by", []) if record else []))
        res = {}
        for p in props:
            rr = subprocess.run([PY, os.path.join(VERIF, "run_check.py"), p, "--tier", tier, "--repo", tmp],
                                capture_output=True, text=True,
                                env={**os.environ, "VERIF_EVIDENCE_DIR": os.path.join(tmp, "ev")})
            rules = sorted({l.split("@")[0].split()[1] for l in rr.stdout.splitlines() if l.startswith("FINDING")})
            res[p] = (rr.returncode, rules, [l for l in rr.stdout.splitlines() if l.startswith("ANALYSIS-ERROR")])
        hit = {p: v for p, v in res.items() if v[0] == 1}
        err = {p: v for p, v in res.items() if v[0] == 2}
        own = meta["property"]
        if own in hit:
            verdict = "DETECTED"
        elif hit:
            verdict = "DETECTED-ELSEWHERE"
        elif err:
            verdict = "ANALYSIS-ERROR"
        else:
            verdict = "MISSED"
        detail = "; ".join(f"{p}:{','.join(v[1])}" for p, v in sorted(hit.items()))
        if record:
            meta["detected_by"] = sorted(r for p, v in hit.items() for r in v[1])
            meta["detected"] = bool(hit)
            json.dump(meta, open(os.path.join(d, "meta.json"), "w"), indent=1)
        if err:
            detail += " || exit2: " + "; ".join(f"{p}:{v[2][0][:120] if v[2] else ''}" for p, v in sorted(err.items()))
        return sid, verdict, detail, meta
    finally:
        shutil.rmtree(tmp, ignore_errors=True)


def main():
    ap = argparse.ArgumentParser()
    ap.add_argument("-k", default="")
    ap.add_argument("-j", type=int, default=8)
    ap.add_argument("--all-checks", action="store_true")
    ap.add_argument("--tier", default="thorough")
    ap.add_argument("--record", action="store_true", help="with --all-checks: write detected_by into meta.json")
    a = ap.parse_args()
    ids = sorted(s for s in os.listdir(os.path.join(VERIF, "seeded")) if a.k in s
                 and os.path.exists(os.path.join(VERIF, "seeded", s, "meta.json")))
    # seeds that exposed a latent defect which was then repaired in /repo no longer break the property on the repaired
    # tree (their rule is exercised by the inverse-fix mutant instead)
    ids = [s for s in ids if "superseded_by_fix" not in json.load(open(os.path.join(VERIF, "seeded", s, "meta.json")))]
    bad = 0
    with cf.ThreadPoolExecutor(a.j) as ex:
        for sid, verdict, detail, meta in ex.map(run_one, [(s, a.tier, a.all_checks, a.record) for s in ids]):
            print(f"{verdict:20s} {sid:12s} {detail[:300]}")
            bad += verdict not in ("DETECTED", "DETECTED-ELSEWHERE")
    print(f"{len(ids) - bad}/{len(ids)} detected")
    sys.exit(1 if bad else 0)


if __name__ == "__main__":
    main()
