import os, numpy as np
HC="FAB ((8, (64 11 52 0 1 12 0 1023)),(8, (8 7 6 5 4 3 2 1)))"
def write_plt(path, fields, levels, geo_lo, geo_hi, n0, data_fun, layout=None, time=0.5, seed=0):
    """levels: list of list of (lo,hi) index boxes (3D tuples). n0: level-0 grid size (3). layout: per level list of (fileno, order_key)"""
    rng=np.random.default_rng(seed)
    nd=len(n0); nl=len(levels)
    os.makedirs(path, exist_ok=True)
    dx=[[ (geo_hi[d]-geo_lo[d])/(n0[d]*2**lv) for d in range(nd)] for lv in range(nl)]
    with open(os.path.join(path,'Header'),'w') as h:
        h.write('HyperCLaw-V1.1\n%d\n'%len(fields))
        for f in fields: h.write(f+'\n')
        h.write('%d\n%r\n%d\n'%(nd,time,nl-1))
        h.write(' '.join(repr(float(x)) for x in geo_lo)+'\n')
        h.write(' '.join(repr(float(x)) for x in geo_hi)+'\n')
        h.write(' '.join('2' for _ in range(nl-1))+'\n')
        z=','.join('0'*1 for _ in range(nd))
        h.write(' '.join('((%s) (%s) (%s))'%(z,','.join(str(n0[d]*2**lv-1) for d in range(nd)),z) for lv in range(nl))+'\n')
        h.write(' '.join('7' for _ in range(nl))+'\n')
        for lv in range(nl): h.write(' '.join(repr(x) for x in dx[lv])+'\n')
        h.write('0\n0\n')
        for lv in range(nl):
            h.write('%d %d %r\n7\n'%(lv,len(levels[lv]),time))
            for lo,hi in levels[lv]:
                for d in range(nd):
                    h.write('%r %r\n'%(geo_lo[d]+lo[d]*dx[lv][d], geo_lo[d]+(hi[d]+1)*dx[lv][d]))
            h.write('Level_%d/Cell\n'%lv)
    for lv in range(nl):
        ldir=os.path.join(path,'Level_%d'%lv); os.makedirs(ldir,exist_ok=True)
        nb=len(levels[lv])
        lay = layout[lv] if layout else [(0,i) for i in range(nb)]
        files={}
        for b,(fno,key) in enumerate(lay): files.setdefault(fno,[]).append((key,b))
        offs=[None]*nb; fn=[None]*nb; mins=[None]*nb; maxs=[None]*nb
        for fno,lst in files.items():
            name='Cell_D_%05d'%fno
            with open(os.path.join(ldir,name),'wb') as bf:
                for key,b in sorted(lst):
                    lo,hi=levels[lv][b]
                    shape=tuple(hi[d]-lo[d]+1 for d in range(nd))
                    arr=data_fun(lv,b,lo,hi,shape,len(fields),dx[lv])
                    offs[b]=bf.tell(); fn[b]=name
                    bf.write((HC+'((%s) (%s) (%s)) %d\n'%(','.join(map(str,lo)),','.join(map(str,hi)),z,len(fields))).encode())
                    bf.write(arr.flatten(order='F').tobytes())
                    mins[b]=arr.reshape(-1,len(fields),order='F').min(0); maxs[b]=arr.reshape(-1,len(fields),order='F').max(0)
        with open(os.path.join(ldir,'Cell_H'),'w') as c:
            c.write('1\n1\n%d\n0\n(%d 0\n'%(len(fields),nb))
            for lo,hi in levels[lv]:
                c.write('((%s) (%s) (%s))\n'%(','.join(map(str,lo)),','.join(map(str,hi)),z))
            c.write(')\n%d\n'%nb)
            for b in range(nb): c.write('FabOnDisk: %s %d\n'%(fn[b],offs[b]))
            c.write('\n%d,%d\n'%(nb,len(fields)))
            for b in range(nb): c.write(','.join('%.17e'%v for v in mins[b])+',\n')
            c.write('\n%d,%d\n'%(nb,len(fields)))
            for b in range(nb): c.write(','.join('%.17e'%v for v in maxs[b])+',\n')
def tiles(n, bs, off=(0,0,0)):
    out=[]
    for k in range(0,n[2],bs):
        for j in range(0,n[1],bs):
            for i in range(0,n[0],bs):
                out.append(((i+off[0],j+off[1],k+off[2]),(i+off[0]+bs-1,j+off[1]+bs-1,k+off[2]+bs-1)))
    return out
