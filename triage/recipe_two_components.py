import numpy as np
def recipe(field_indexes, box_array):
    """
    sumab diffab
    """
    a=box_array[...,field_indexes['a']]; b=box_array[...,field_indexes['b']]
    return np.stack([a+b,a-b],axis=-1)
