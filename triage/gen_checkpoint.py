import os, numpy as np
HC="FAB ((8, (64 11 52 0 1 12 0 1023)),(8, (8 7 6 5 4 3 2 1)))"
def write_chk(path, levels, geo_lo, geo_hi, nsp, ng, data_fun, layouts, time=0.123, step=5):
    """levels: list of list of (lo,hi). layouts: dict subset -> per level list of (fileno,key). subsets: state (7+nsp comps, ng ghosts), gradp 3, I_R nsp, divU 1 (ghost 1), p 1 (ghost 1)"""
    nl=len(levels); os.makedirs(path,exist_ok=True)
    with open(os.path.join(path,'Header'),'w') as h:
        h.write('Checkpoint version: 1\n%d\n%d\n%r\n1e-12\n1e-12\n'%(nl-1,step,time))
        h.write(' '.join(repr(float(x)) for x in geo_lo)+' \n'); h.write(' '.join(repr(float(x)) for x in geo_hi)+' \n')
        for lv in range(nl):
            h.write('(%d 0\n'%len(levels[lv]))
            for lo,hi in levels[lv]: h.write('((%s) (%s) (0,0,0))\n'%(','.join(map(str,lo)),','.join(map(str,hi))))
            h.write(')\n')
        h.write('101325\n0\n0\n')
        for i in range(7+nsp): h.write('%r\n'%(0.5+i))
    subs={'state':(7+nsp,ng),'gradp':(3,0),'I_R':(nsp,0),'divU':(1,1),'p':(1,1)}
    for lv in range(nl):
        ldir=os.path.join(path,'Level_%d'%lv); os.makedirs(ldir,exist_ok=True)
        nb=len(levels[lv])
        for sub,(nc,g) in subs.items():
            lay=layouts.get(sub,[[(0,i) for i in range(len(levels[l]))] for l in range(nl)])[lv]
            files={}
            for b,(fno,key) in enumerate(lay): files.setdefault(fno,[]).append((key,b))
            offs=[None]*nb; fn=[None]*nb; mins=[None]*nb; maxs=[None]*nb
            for fno,lst in files.items():
                name='%s_D_%05d'%(sub,fno)
                with open(os.path.join(ldir,name),'wb') as bf:
                    for key,b in sorted(lst):
                        lo,hi=levels[lv][b]; glo=tuple(l-g for l in lo); ghi=tuple(x+g for x in hi)
                        shape=tuple(ghi[d]-glo[d]+1 for d in range(3))
                        arr=data_fun(sub,lv,b,glo,ghi,shape,nc)
                        offs[b]=bf.tell(); fn[b]=name
                        bf.write((HC+'((%s) (%s) (0,0,0)) %d\n'%(','.join(map(str,glo)),','.join(map(str,ghi)),nc)).encode())
                        bf.write(arr.flatten(order='F').tobytes())
                        mins[b]=arr.reshape(-1,nc,order='F').min(0); maxs[b]=arr.reshape(-1,nc,order='F').max(0)
            with open(os.path.join(ldir,sub+'_H'),'w') as c:
                c.write('1\n1\n%d\n%d\n(%d 0\n'%(nc,g,nb))
                for lo,hi in levels[lv]: c.write('((%s) (%s) (0,0,0))\n'%(','.join(map(str,lo)),','.join(map(str,hi))))
                c.write(')\n%d\n'%nb)
                for b in range(nb): c.write('FabOnDisk: %s %d\n'%(fn[b],offs[b]))
                c.write('\n%d,%d\n'%(nb,nc))
                for b in range(nb): c.write(','.join('%.17e'%v for v in mins[b])+',\n')
                c.write('\n%d,%d\n'%(nb,nc))
                for b in range(nb): c.write(','.join('%.17e'%v for v in maxs[b])+',\n')
