#!/venv/bin/python
"""Self-test of the checkers (NOT a registered check): applies each catalogued mutant / neutral variant to a
scratch copy of /repo/amr_kitchen (outside /repo and /verif, removed afterwards) and runs the named checks
with --repo.  A mutant must be reported (exit 1, VIOLATION) by at least one of its expected properties; a
neutral variant must give exit 0 on all of them.  Usage: run_mutants.py [-k substring] [-j jobs]"""
import argparse, json, os, shutil, subprocess, sys, tempfile, concurrent.futures as cf

HERE = os.path.dirname(os.path.abspath(__file__))
VERIF = os.path.dirname(HERE)
PY = "/venv/bin/python"


def load():
    cat = []
    for f in sorted(os.listdir(HERE)):
        if f.startswith("catalogue") and f.endswith(".json"):
            cat += json.load(open(os.path.join(HERE, f)))
    return cat


def run_one(m):
    tmp = tempfile.mkdtemp(prefix="vk_mut_")
    try:
        shutil.copytree("/repo/amr_kitchen", os.path.join(tmp, "amr_kitchen"),
                        ignore=shutil.ignore_patterns("__pycache__"))
        for ed in m["edits"]:
            p = os.path.join(tmp, ed["file"])
            s = open(p).read()
            if s.count(ed["old"]) < 1:
                return m, "STALE", f"old text not found in {ed['file']}: {ed['old'][:50]!r}"
            s = s.replace(ed["old"], ed["new"], 1 if not ed.get("all") else -1)
            open(p, "w").write(s)
            try:
                compile(s, p, "exec")
            except SyntaxError as e:
                return m, "STALE", f"mutant does not compile: {e}"
        res = {}
        for prop in m["props"]:
            r = subprocess.run([PY, os.path.join(VERIF, "run_check.py"), prop, "--tier", m.get("tier", "quick"),
                                "--repo", tmp], capture_output=True, text=True,
                               env={**os.environ, "VERIF_EVIDENCE_DIR": os.path.join(tmp, "ev")})
            lines = [l for l in r.stdout.splitlines() if l.startswith(("FINDING", "ANALYSIS-ERROR"))]
            res[prop] = (r.returncode, lines)
        if m["kind"] == "mutant":
            hit = [p for p, (rc, _) in res.items() if rc == 1]
            if hit:
                want = m.get("rule")
                txt = " | ".join(l for p in hit for l in res[p][1])
                if want and want not in txt:
                    return m, "WRONG-RULE", f"reported, but not by {want}: {txt[:200]}"
                return m, "CAUGHT", txt[:160]
            err = [p for p, (rc, _) in res.items() if rc == 2]
            if err:
                return m, "ANALYSIS-ERROR", " | ".join(l for p in err for l in res[p][1])[:300]
            return m, "MISSED", ""
        else:
            bad = {p: v for p, v in res.items() if v[0] != 0}
            if bad:
                return m, "FALSE-ALARM", " | ".join(l for p in bad for l in bad[p][1])[:400]
            return m, "SILENT", ""
    finally:
        shutil.rmtree(tmp, ignore_errors=True)


def main():
    ap = argparse.ArgumentParser()
    ap.add_argument("-k", default="")
    ap.add_argument("-j", type=int, default=16)
    a = ap.parse_args()
    cat = [m for m in load() if a.k in m["id"] or a.k in " ".join(m["props"])]
    ok = 0
    out = []
    with cf.ThreadPoolExecutor(a.j) as ex:
        for m, verdict, detail in ex.map(run_one, cat):
            good = verdict in ("CAUGHT", "SILENT")
            ok += good
            out.append((m["id"], verdict, detail))
    for i, v, d in sorted(out):
        print(f"{v:15s} {i:45s} {d}")
    print(f"{ok}/{len(cat)} as expected")
    sys.exit(0 if ok == len(cat) else 1)


if __name__ == "__main__":
    main()
