#!/venv/bin/python
"""Robustness self-test (NOT a registered check): whole-tree behaviour-preserving transformations of
/repo/amr_kitchen applied to a scratch copy; every check must stay silent (exit 0, same KNOWN-FINDINGs).

  rename   : every local variable of every function renamed consistently (params, globals, attributes kept)
  unparse  : every module re-emitted by ast.unparse (layout, quotes, parentheses, comments all change)
  logging  : a print() inserted at the top of every function body
  extractvar : first argument of calls hoisted into a fresh local wherever that keeps evaluation order
  swap       : adjacent independent call-free assignments swapped
  flattenelse: `else` removed after a branch that always leaves (return / raise / continue / break)
  inlinevar  : single-use call-free locals inlined into the next statement

Usage: neutral_variants.py [rename|unparse|logging ...] [-k Cxx]"""
import ast, os, shutil, subprocess, sys, tempfile, builtins, concurrent.futures as cf

VERIF = os.path.dirname(os.path.dirname(os.path.abspath(__file__)))
PY = "/venv/bin/python"
ALL = [f"C{i:02d}" for i in range(1, 21)]


class Renamer(ast.NodeTransformer):
    def __init__(self, names, suffix):
        self.names, self.suffix = names, suffix

    def visit_Name(self, n):
        if n.id in self.names:
            return ast.copy_location(ast.Name(id=n.id + self.suffix, ctx=n.ctx), n)
        return n

    def visit_ExceptHandler(self, n):
        self.generic_visit(n)
        if n.name in self.names:
            n.name = n.name + self.suffix
        return n


def rename_module(tree, suffix="_rn"):
    modglobals = set()
    for n in tree.body:
        for s in ast.walk(n):
            if isinstance(s, (ast.Import, ast.ImportFrom)):
                for a in s.names:
                    modglobals.add((a.asname or a.name).split(".")[0])
        if isinstance(n, (ast.FunctionDef, ast.ClassDef)):
            modglobals.add(n.name)
        if isinstance(n, ast.Assign):
            for t in n.targets:
                for x in ast.walk(t):
                    if isinstance(x, ast.Name):
                        modglobals.add(x.id)

    def do_function(fn):
        params = {a.arg for a in fn.args.posonlyargs + fn.args.args + fn.args.kwonlyargs}
        if fn.args.vararg:
            params.add(fn.args.vararg.arg)
        if fn.args.kwarg:
            params.add(fn.args.kwarg.arg)
        declared = set()
        for s in ast.walk(fn):
            if isinstance(s, (ast.Global, ast.Nonlocal)):
                declared.update(s.names)
        local = set()
        for s in ast.walk(fn):
            if isinstance(s, ast.Name) and isinstance(s.ctx, ast.Store):
                local.add(s.id)
            if isinstance(s, ast.ExceptHandler) and s.name:
                local.add(s.name)
            if isinstance(s, (ast.FunctionDef, ast.Lambda)) and s is not fn:
                # nested functions: keep their parameter names out of the rename set
                a = s.args
                for x in a.posonlyargs + a.args + a.kwonlyargs:
                    params.add(x.arg)
        local -= params | declared | modglobals | set(dir(builtins)) | {"self", "_"}
        r = Renamer(local, suffix)
        fn.body = [r.visit(s) for s in fn.body]

    for n in ast.walk(tree):
        if isinstance(n, (ast.FunctionDef, ast.AsyncFunctionDef)):
            # only outermost functions / methods (nested ones are renamed with their parent)
            pass
    for n in tree.body:
        if isinstance(n, ast.FunctionDef):
            do_function(n)
        elif isinstance(n, ast.ClassDef):
            for m in n.body:
                if isinstance(m, ast.FunctionDef):
                    do_function(m)
    return tree


def add_logging(tree):
    for n in ast.walk(tree):
        if isinstance(n, ast.FunctionDef):
            stmt = ast.parse(f"print('enter {n.name}')").body[0]
            i = 1 if (n.body and isinstance(n.body[0], ast.Expr) and isinstance(n.body[0].value, ast.Constant)
                      and isinstance(n.body[0].value.value, str)) else 0
            n.body.insert(i, stmt)
    return tree


# ------------------------------------------------------------------------------------------------------------
# small refactorings applied wherever their side conditions hold (each is behaviour-preserving on its own)
PURE = {"len", "int", "float", "str", "tuple", "list", "range", "abs", "np.array", "np.prod", "np.arange",
        "np.asarray", "os.path.join", "os.path.basename", "os.path.split", "np.unique", "np.argsort"}


def _call_free(e):
    return not any(isinstance(x, (ast.Call, ast.Await, ast.Yield, ast.YieldFrom, ast.NamedExpr, ast.Lambda,
                                  ast.ListComp, ast.SetComp, ast.DictComp, ast.GeneratorExp)) for x in ast.walk(e))


def _blocks(fn):
    for x in ast.walk(fn):
        for fld in ("body", "orelse", "finalbody"):
            b = getattr(x, fld, None)
            if isinstance(b, list) and b and isinstance(b[0], ast.stmt):
                yield b
        if isinstance(x, ast.ExceptHandler):
            yield x.body


def extract_vars(tree):
    """Extract Variable: `t = f(E, ...)` / `f(E, ...)` / `return f(E, ...)` with E a call-free compound expression
    -> `_xvN = E; ... f(_xvN, ...)`.  f is a plain name or dotted name (looking it up has no effect), E is the first
    positional argument, so E is the first thing the statement evaluates."""
    k = [0]
    for fn in [n for n in ast.walk(tree) if isinstance(n, ast.FunctionDef)]:
        for blk in _blocks(fn):
            i = 0
            while i < len(blk):
                st = blk[i]
                v = getattr(st, "value", None)
                if isinstance(st, (ast.Assign, ast.Expr, ast.Return)) and isinstance(v, ast.Call) and v.args \
                        and not isinstance(v.args[0], ast.Starred):
                    f = v.func
                    dotted = True
                    while isinstance(f, ast.Attribute):
                        f = f.value
                    dotted = isinstance(f, ast.Name)
                    a = v.args[0]
                    if dotted and _call_free(a) and isinstance(a, (ast.BinOp, ast.Subscript, ast.Attribute, ast.Compare)) \
                            and not (isinstance(st, ast.Assign) and not all(isinstance(t, ast.Name) for t in st.targets)):
                        k[0] += 1
                        nm = f"_xv{k[0]}"
                        blk.insert(i, ast.Assign(targets=[ast.Name(id=nm, ctx=ast.Store())], value=a, lineno=st.lineno))
                        v.args[0] = ast.Name(id=nm, ctx=ast.Load())
                        i += 1
                i += 1
    return tree


def _names(n, ctxs):
    return {x.id for x in ast.walk(n) if isinstance(x, ast.Name) and isinstance(x.ctx, ctxs)}


def swap_statements(tree):
    """swap adjacent independent assignments `a = E1; b = E2` (plain names, call-free values, neither reads or
    writes what the other writes)"""
    for fn in [n for n in ast.walk(tree) if isinstance(n, ast.FunctionDef)]:
        for blk in _blocks(fn):
            i = 0
            while i + 1 < len(blk):
                a, b = blk[i], blk[i + 1]
                ok = all(isinstance(s, ast.Assign) and len(s.targets) == 1 and isinstance(s.targets[0], ast.Name)
                         and _call_free(s.value) for s in (a, b))
                if ok:
                    wa, wb = {a.targets[0].id}, {b.targets[0].id}
                    ra, rb = _names(a.value, ast.Load), _names(b.value, ast.Load)
                    if not (wa & (rb | wb)) and not (wb & ra):
                        blk[i], blk[i + 1] = b, a
                        i += 2
                        continue
                i += 1
    return tree


def flatten_else(tree):
    """`if c: ...; return/raise/continue/break  else: REST`  ->  `if c: ...; return ...` followed by REST"""
    for fn in [n for n in ast.walk(tree) if isinstance(n, ast.FunctionDef)]:
        changed = True
        while changed:
            changed = False
            for blk in _blocks(fn):
                for i, st in enumerate(blk):
                    if isinstance(st, ast.If) and st.orelse and isinstance(st.body[-1], (ast.Return, ast.Raise, ast.Continue, ast.Break)) \
                            and not (len(st.orelse) == 1 and isinstance(st.orelse[0], ast.If)):
                        rest = st.orelse
                        st.orelse = []
                        blk[i + 1:i + 1] = rest
                        changed = True
                        break
                if changed:
                    break
    return tree


def inline_vars(tree):
    """Inline Variable: `v = E` immediately followed by a simple statement that reads v exactly once as the first
    thing it evaluates, v read nowhere else, E call-free"""
    for fn in [n for n in ast.walk(tree) if isinstance(n, ast.FunctionDef)]:
        for blk in _blocks(fn):
            i = 0
            while i + 1 < len(blk):
                a, b = blk[i], blk[i + 1]
                if isinstance(a, ast.Assign) and len(a.targets) == 1 and isinstance(a.targets[0], ast.Name) \
                        and _call_free(a.value) and isinstance(b, (ast.Assign, ast.Expr, ast.Return)):
                    v = a.targets[0].id
                    uses_fn = sum(1 for x in ast.walk(fn) if isinstance(x, ast.Name) and x.id == v)
                    uses_b = [x for x in ast.walk(b) if isinstance(x, ast.Name) and x.id == v and isinstance(x.ctx, ast.Load)]
                    bv = getattr(b, "value", None)
                    if uses_fn == 2 and len(uses_b) == 1 and isinstance(bv, ast.Call) and bv.args and bv.args[0] is uses_b[0] \
                            and not isinstance(bv.func, ast.Call):
                        f = bv.func
                        while isinstance(f, ast.Attribute):
                            f = f.value
                        if isinstance(f, ast.Name) and f.id != v:
                            bv.args[0] = a.value
                            del blk[i]
                            continue
                i += 1
    return tree


class _Synonyms(ast.NodeTransformer):
    """library synonyms, the *other* way round than vk/canon.py canonicalises them"""

    def visit_Call(self, n):
        self.generic_visit(n)
        f = ast.unparse(n.func)
        kw = {k.arg for k in n.keywords}
        if isinstance(n.func, ast.Attribute) and n.func.attr == "reshape" and len(n.args) == 1 and kw <= {"order"} \
                and not (isinstance(n.func.value, ast.Name) and n.func.value.id in ("np", "numpy")):
            return ast.Call(func=ast.Attribute(value=ast.Name(id="np", ctx=ast.Load()), attr="reshape", ctx=ast.Load()),
                            args=[n.func.value, n.args[0]], keywords=n.keywords)
        if f == "np.fromfile" and len(n.args) == 3 and not n.keywords:
            return ast.Call(func=n.func, args=[n.args[0]], keywords=[ast.keyword(arg="dtype", value=n.args[1]),
                                                                      ast.keyword(arg="count", value=n.args[2])])
        if isinstance(n.func, ast.Attribute) and n.func.attr == "seek" and len(n.args) == 2 and \
                isinstance(n.args[1], ast.Constant) and n.args[1].value in (0, 1, 2):
            nm = {0: "SEEK_SET", 1: "SEEK_CUR", 2: "SEEK_END"}[n.args[1].value]
            n.args[1] = ast.Attribute(value=ast.Name(id="os", ctx=ast.Load()), attr=nm, ctx=ast.Load())
            return n
        if isinstance(n.func, ast.Attribute) and n.func.attr == "decode" and len(n.args) == 1 and not n.keywords:
            return ast.Call(func=ast.Name(id="str", ctx=ast.Load()), args=[n.func.value, n.args[0]], keywords=[])
        if isinstance(n.func, ast.Attribute) and n.func.attr in ("__next__", "__iter__") and not n.args:
            return ast.Call(func=ast.Name(id=n.func.attr.strip("_"), ctx=ast.Load()), args=[n.func.value], keywords=[])
        if f == "np.where" and len(n.args) == 1 and not n.keywords:
            return ast.Call(func=ast.Attribute(value=ast.Name(id="np", ctx=ast.Load()), attr="nonzero", ctx=ast.Load()),
                            args=n.args, keywords=[])
        if isinstance(n.func, ast.Attribute) and n.func.attr in ("any", "all") and not n.args and not n.keywords and \
                isinstance(n.func.value, (ast.Call, ast.Compare)):
            return ast.Call(func=ast.Attribute(value=ast.Name(id="np", ctx=ast.Load()), attr=n.func.attr, ctx=ast.Load()),
                            args=[n.func.value], keywords=[])
        if f in ("np.min", "np.max") and len(n.args) == 1 and isinstance(n.args[0], (ast.Name, ast.Subscript, ast.Attribute)) \
                and kw <= {"axis"}:
            return ast.Call(func=ast.Attribute(value=n.args[0], attr=f[3:], ctx=ast.Load()), args=[], keywords=n.keywords)
        return n


def synonyms(tree):
    needs_os = any(isinstance(n, ast.Call) and isinstance(n.func, ast.Attribute) and n.func.attr == "seek" and
                   len(n.args) == 2 for n in ast.walk(tree))
    tree = _Synonyms().visit(tree)
    has_os = any(isinstance(n, ast.Import) and any(a.name == "os" and a.asname is None for a in n.names)
                 for n in tree.body)
    if needs_os and not has_os:
        k = 1 if tree.body and isinstance(tree.body[0], ast.Expr) and isinstance(tree.body[0].value, ast.Constant) else 0
        tree.body.insert(k, ast.Import(names=[ast.alias(name="os")]))
    return tree


def guard_clauses(tree):
    """the last statement of a loop body `if C: BODY` (no else, BODY longer than one statement)  ->
    `if not C: continue` followed by BODY"""
    for loop in [n for n in ast.walk(tree) if isinstance(n, (ast.For, ast.While))]:
        st = loop.body[-1]
        if isinstance(st, ast.If) and not st.orelse and len(st.body) >= 2 and \
                not any(isinstance(x, (ast.Break,)) for x in ast.walk(st)):
            guard = ast.If(test=ast.UnaryOp(op=ast.Not(), operand=st.test), body=[ast.Continue()], orelse=[])
            loop.body[-1:] = [guard] + st.body
    return tree


class _Formats(ast.NodeTransformer):
    """f-strings without conversions  ->  str.format with positional fields"""

    def visit_JoinedStr(self, n):
        for v in n.values:
            if isinstance(v, ast.FormattedValue):
                v.value = self.visit(v.value)      # not the format_spec (itself a JoinedStr)
        fmt, args = "", []
        for v in n.values:
            if isinstance(v, ast.Constant):
                fmt += str(v.value).replace("{", "{{").replace("}", "}}")
            elif isinstance(v, ast.FormattedValue) and v.conversion == -1:
                spec = ""
                if v.format_spec is not None:
                    if not all(isinstance(x, ast.Constant) for x in v.format_spec.values):
                        return n
                    spec = ":" + "".join(str(x.value) for x in v.format_spec.values)
                fmt += "{" + spec + "}"
                args.append(v.value)
            else:
                return n
        if not args:
            return n
        return ast.Call(func=ast.Attribute(value=ast.Constant(value=fmt), attr="format", ctx=ast.Load()), args=args, keywords=[])


class _Concat(ast.NodeTransformer):
    """f-strings without format specs / conversions  ->  '+' concatenation of str(...) pieces"""

    def visit_JoinedStr(self, n):
        for v in n.values:
            if isinstance(v, ast.FormattedValue):
                v.value = self.visit(v.value)
        parts = []
        for v in n.values:
            if isinstance(v, ast.Constant):
                parts.append(ast.Constant(value=str(v.value)))
            elif isinstance(v, ast.FormattedValue) and v.conversion == -1 and v.format_spec is None:
                parts.append(ast.Call(func=ast.Name(id="str", ctx=ast.Load()), args=[v.value], keywords=[]))
            else:
                return n
        if not any(isinstance(p, ast.Call) for p in parts):
            return n
        e = parts[0]
        for p in parts[1:]:
            e = ast.BinOp(left=e, op=ast.Add(), right=p)
        return e


def concat(tree):
    return _Concat().visit(tree)


def import_style(tree):
    """`import numpy as np` -> `import numpy as xnp`; `os.path.f(...)` -> `f(...)` with `from os.path import f`;
    `multiprocessing.Pool` -> `Pool` with `from multiprocessing import Pool` (names that collide with anything else in
    the module are left alone)"""
    used = {x.id for x in ast.walk(tree) if isinstance(x, ast.Name)} | \
        {a.arg for x in ast.walk(tree) if isinstance(x, ast.arguments) for a in x.args + x.kwonlyargs} | \
        {x.name for x in ast.walk(tree) if isinstance(x, (ast.FunctionDef, ast.ClassDef))}
    has_np = any(isinstance(st, ast.Import) and any(a.name == "numpy" and a.asname == "np" for a in st.names) for st in tree.body)
    ospath, mp = set(), set()

    class T(ast.NodeTransformer):
        def visit_Attribute(self, n):
            self.generic_visit(n)
            if isinstance(n.ctx, ast.Load) and isinstance(n.value, ast.Attribute) and isinstance(n.value.value, ast.Name) and \
                    n.value.value.id == "os" and n.value.attr == "path" and n.attr not in used:
                ospath.add(n.attr)
                return ast.copy_location(ast.Name(id=n.attr, ctx=ast.Load()), n)
            if isinstance(n.ctx, ast.Load) and isinstance(n.value, ast.Name) and n.value.id == "multiprocessing" and \
                    n.attr == "Pool" and "Pool" not in used:
                mp.add("Pool")
                return ast.copy_location(ast.Name(id="Pool", ctx=ast.Load()), n)
            return n

        def visit_Name(self, n):
            if has_np and n.id == "np" and "xnp" not in used:
                n.id = "xnp"
            return n
    for st in tree.body:
        if not isinstance(st, (ast.Import, ast.ImportFrom)):
            T().visit(st)
    for st in tree.body:
        if isinstance(st, ast.Import) and has_np and "xnp" not in used:
            for a in st.names:
                if a.name == "numpy" and a.asname == "np":
                    a.asname = "xnp"
    k = 1 if tree.body and isinstance(tree.body[0], ast.Expr) and isinstance(tree.body[0].value, ast.Constant) else 0
    if ospath:
        tree.body.insert(k, ast.ImportFrom(module="os.path", names=[ast.alias(name=f) for f in sorted(ospath)], level=0))
    if mp:
        tree.body.insert(k, ast.ImportFrom(module="multiprocessing", names=[ast.alias(name="Pool")], level=0))
    return tree


def formats(tree):
    return _Formats().visit(tree)


def build(kind, dst):
    shutil.copytree("/repo/amr_kitchen", os.path.join(dst, "amr_kitchen"), ignore=shutil.ignore_patterns("__pycache__"))
    for dp, dn, fn in os.walk(os.path.join(dst, "amr_kitchen")):
        for f in fn:
            if not f.endswith(".py") or f == "mandoline_bias_cut.py":
                continue
            p = os.path.join(dp, f)
            tree = ast.parse(open(p).read())
            if kind == "rename":
                tree = rename_module(tree)
            elif kind == "logging":
                tree = add_logging(tree)
            elif kind == "extractvar":
                tree = extract_vars(tree)
            elif kind == "swap":
                tree = swap_statements(tree)
            elif kind == "flattenelse":
                tree = flatten_else(tree)
            elif kind == "inlinevar":
                tree = inline_vars(tree)
            elif kind == "synonyms":
                tree = synonyms(tree)
            elif kind == "guards":
                tree = guard_clauses(tree)
            elif kind == "formats":
                tree = formats(tree)
            elif kind == "concat":
                tree = concat(tree)
            elif kind == "imports":
                tree = import_style(tree)
            ast.fix_missing_locations(tree)
            src = ast.unparse(tree)
            compile(src, p, "exec")
            open(p, "w").write(src + "\n")


def run(kind, props):
    tmp = tempfile.mkdtemp(prefix="vk_neutral_")
    try:
        build(kind, tmp)

        def one(p):
            r = subprocess.run([PY, os.path.join(VERIF, "run_check.py"), p, "--tier", "thorough", "--repo", tmp],
                               capture_output=True, text=True, env={**os.environ, "VERIF_EVIDENCE_DIR": os.path.join(tmp, "ev_" + p)})
            lines = [l for l in r.stdout.splitlines() if l.startswith(("FINDING", "ANALYSIS-ERROR"))]
            return p, r.returncode, lines
        bad = 0
        with cf.ThreadPoolExecutor(16) as ex:
            for p, rc, lines in ex.map(one, props):
                if rc != 0:
                    bad += 1
                    print(f"[{kind}] {p} exit={rc}")
                    for l in lines[:12]:
                        print("    " + l[:260])
        print(f"[{kind}] {len(props) - bad}/{len(props)} checks silent")
        return bad
    finally:
        shutil.rmtree(tmp, ignore_errors=True)


if __name__ == "__main__":
    args = [a for a in sys.argv[1:] if not a.startswith("-")]
    props = ALL
    if "-k" in sys.argv:
        props = [sys.argv[sys.argv.index("-k") + 1]]
        args = [a for a in args if a not in props]
    kinds = args or ["unparse", "logging", "rename", "extractvar", "swap", "flattenelse", "inlinevar", "synonyms", "guards", "formats", "concat", "imports"]
    tot = sum(run(k, props) for k in kinds)
    sys.exit(1 if tot else 0)
