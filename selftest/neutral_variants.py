#!/venv/bin/python
"""Robustness self-test (NOT a registered check): whole-tree behaviour-preserving transformations of
/repo/amr_kitchen applied to a scratch copy; every check must stay silent (exit 0, same KNOWN-FINDINGs).

  rename   : every local variable of every function renamed consistently (params, globals, attributes kept)
  unparse  : every module re-emitted by ast.unparse (layout, quotes, parentheses, comments all change)
  logging  : a print() inserted at the top of every function body

Usage: neutral_variants.py [rename|unparse|logging ...] [-k Cxx]"""
import ast, os, shutil, subprocess, sys, tempfile, builtins, concurrent.futures as cf

VERIF = os.path.dirname(os.path.dirname(os.path.abspath(__file__)))
PY = "/venv/bin/python"
ALL = [f"C{i:02d}" for i in range(1, 21)]


class Renamer(ast.NodeTransformer):
    def __init__(self, names, suffix):
        self.names, self.suffix = names, suffix

    def visit_Name(self, n):
        if n.id in self.names:
            return ast.copy_location(ast.Name(id=n.id + self.suffix, ctx=n.ctx), n)
        return n

    def visit_ExceptHandler(self, n):
        self.generic_visit(n)
        if n.name in self.names:
            n.name = n.name + self.suffix
        return n


def rename_module(tree, suffix="_rn"):
    modglobals = set()
    for n in tree.body:
        for s in ast.walk(n):
            if isinstance(s, (ast.Import, ast.ImportFrom)):
                for a in s.names:
                    modglobals.add((a.asname or a.name).split(".")[0])
        if isinstance(n, (ast.FunctionDef, ast.ClassDef)):
            modglobals.add(n.name)
        if isinstance(n, ast.Assign):
            for t in n.targets:
                for x in ast.walk(t):
                    if isinstance(x, ast.Name):
                        modglobals.add(x.id)

    def do_function(fn):
        params = {a.arg for a in fn.args.posonlyargs + fn.args.args + fn.args.kwonlyargs}
        if fn.args.vararg:
            params.add(fn.args.vararg.arg)
        if fn.args.kwarg:
            params.add(fn.args.kwarg.arg)
        declared = set()
        for s in ast.walk(fn):
            if isinstance(s, (ast.Global, ast.Nonlocal)):
                declared.update(s.names)
        local = set()
        for s in ast.walk(fn):
            if isinstance(s, ast.Name) and isinstance(s.ctx, ast.Store):
                local.add(s.id)
            if isinstance(s, ast.ExceptHandler) and s.name:
                local.add(s.name)
            if isinstance(s, (ast.FunctionDef, ast.Lambda)) and s is not fn:
                # nested functions: keep their parameter names out of the rename set
                a = s.args
                for x in a.posonlyargs + a.args + a.kwonlyargs:
                    params.add(x.arg)
        local -= params | declared | modglobals | set(dir(builtins)) | {"self", "_"}
        r = Renamer(local, suffix)
        fn.body = [r.visit(s) for s in fn.body]

    for n in ast.walk(tree):
        if isinstance(n, (ast.FunctionDef, ast.AsyncFunctionDef)):
            # only outermost functions / methods (nested ones are renamed with their parent)
            pass
    for n in tree.body:
        if isinstance(n, ast.FunctionDef):
            do_function(n)
        elif isinstance(n, ast.ClassDef):
            for m in n.body:
                if isinstance(m, ast.FunctionDef):
                    do_function(m)
    return tree


def add_logging(tree):
    for n in ast.walk(tree):
        if isinstance(n, ast.FunctionDef):
            stmt = ast.parse(f"print('enter {n.name}')").body[0]
            i = 1 if (n.body and isinstance(n.body[0], ast.Expr) and isinstance(n.body[0].value, ast.Constant)
                      and isinstance(n.body[0].value.value, str)) else 0
            n.body.insert(i, stmt)
    return tree


def build(kind, dst):
    shutil.copytree("/repo/amr_kitchen", os.path.join(dst, "amr_kitchen"), ignore=shutil.ignore_patterns("__pycache__"))
    for dp, dn, fn in os.walk(os.path.join(dst, "amr_kitchen")):
        for f in fn:
            if not f.endswith(".py") or f == "mandoline_bias_cut.py":
                continue
            p = os.path.join(dp, f)
            tree = ast.parse(open(p).read())
            if kind == "rename":
                tree = rename_module(tree)
            elif kind == "logging":
                tree = add_logging(tree)
            ast.fix_missing_locations(tree)
            src = ast.unparse(tree)
            compile(src, p, "exec")
            open(p, "w").write(src + "\n")


def run(kind, props):
    tmp = tempfile.mkdtemp(prefix="vk_neutral_")
    try:
        build(kind, tmp)

        def one(p):
            r = subprocess.run([PY, os.path.join(VERIF, "run_check.py"), p, "--tier", "thorough", "--repo", tmp],
                               capture_output=True, text=True, env={**os.environ, "VERIF_EVIDENCE_DIR": os.path.join(tmp, "ev_" + p)})
            lines = [l for l in r.stdout.splitlines() if l.startswith(("FINDING", "ANALYSIS-ERROR"))]
            return p, r.returncode, lines
        bad = 0
        with cf.ThreadPoolExecutor(16) as ex:
            for p, rc, lines in ex.map(one, props):
                if rc != 0:
                    bad += 1
                    print(f"[{kind}] {p} exit={rc}")
                    for l in lines[:12]:
                        print("    " + l[:260])
        print(f"[{kind}] {len(props) - bad}/{len(props)} checks silent")
        return bad
    finally:
        shutil.rmtree(tmp, ignore_errors=True)


if __name__ == "__main__":
    args = [a for a in sys.argv[1:] if not a.startswith("-")]
    props = ALL
    if "-k" in sys.argv:
        props = [sys.argv[sys.argv.index("-k") + 1]]
        args = [a for a in args if a not in props]
    kinds = args or ["unparse", "logging", "rename"]
    tot = sum(run(k, props) for k in kinds)
    sys.exit(1 if tot else 0)
