"""vk — static-analysis kit for the amrex-kitchen properties (stdlib only)."""
