"""Small reusable AST rules: dispatch exhaustiveness, comparator normal forms,
must-pass-through on a statement CFG, handler discipline."""
import ast

from .model import norm, walk_no_nested, parents, call_name, enclosing
from .poly import Poly, Ratio


# ---------------------------------------------------------------------------
# arithmetic expression -> Ratio (atoms = normalised text of non-arithmetic leaves)
# ---------------------------------------------------------------------------
class FormulaError(Exception):
    pass


IDENTITY_CALLS = {"int", "float", "np.array", "np.asarray", "np.float64", "np.int64", "abs_nonneg"}


class Thunk:
    """an expression together with the environment it must be evaluated in"""

    def __init__(self, node, env):
        self.node, self.env = node, env


class Appended:
    """a list built by `name = []` + one `name.append(value)` per iteration of `for loopvar in range(..)`"""

    def __init__(self, loopvar, value, loop):
        self.loopvar, self.value, self.loop = loopvar, value, loop


LINSPACE = ("np.linspace", "numpy.linspace")


def resolve(node, env, depth=0, lists=False):
    """follow single-assignment names and subscripts of appended lists -> (node, env)"""
    while depth < 60:
        depth += 1
        if isinstance(node, ast.Name) and env.get(node.id) is not None:
            v = env[node.id]
            if isinstance(v, Appended):
                return node, env
            if isinstance(v, Thunk):
                if isinstance(v.node, ast.Name) and v.node.id == node.id and v.env.get(node.id) is None:
                    return v.node, v.env
                node, env = v.node, v.env
                continue
            if isinstance(v, ast.Name) and v.id == node.id:
                return node, env
            if isinstance(v, (ast.Dict, ast.DictComp, ast.SetComp, ast.GeneratorExp, ast.Lambda)) or \
                    (isinstance(v, ast.ListComp) and not lists):
                return node, env      # containers are never substituted into leaves
            node = v
            continue
        if isinstance(node, ast.Subscript) and not isinstance(node.slice, (ast.Slice, ast.Tuple)):
            base, benv = resolve(node.value, env, depth, lists)
            if isinstance(base, ast.Name) and isinstance(benv.get(base.id), Appended):
                ap = benv[base.id]
                env2 = dict(benv)
                env2[ap.loopvar] = Thunk(node.slice, env)
                node, env = ap.value, env2
                continue
            comp = base
            cenv = benv
            if isinstance(base, ast.Name) and isinstance(benv.get(base.id), ast.ListComp):
                comp = benv[base.id]
            if isinstance(comp, ast.Call) and norm(comp.func) in ("tuple", "list", "np.array", "numpy.array") and \
                    len(comp.args) == 1 and not comp.keywords and isinstance(comp.args[0], (ast.ListComp, ast.GeneratorExp)):
                comp = comp.args[0]     # tuple(E(v) for v in range(N))[k]: the same element
            if isinstance(comp, (ast.ListComp, ast.GeneratorExp)) and len(comp.generators) == 1 and not comp.generators[0].ifs and \
                    isinstance(comp.generators[0].target, ast.Name) and isinstance(comp.generators[0].iter, ast.Call) \
                    and norm(comp.generators[0].iter.func) == "range" and len(comp.generators[0].iter.args) == 1 \
                    and all(norm(c.func) in DEEP_PURE or norm(c.func) in LINSPACE
                            for c in ast.walk(comp.elt) if isinstance(c, ast.Call)):
                # [E(v) for v in range(N)][k]  ->  E(k)   (the list built by a range loop, element k)
                env2 = dict(cenv)
                env2[comp.generators[0].target.id] = Thunk(node.slice, env)
                node, env = comp.elt, env2
                continue
            if isinstance(comp, (ast.ListComp, ast.GeneratorExp)) and len(comp.generators) == 1 and \
                    not comp.generators[0].ifs and isinstance(comp.generators[0].target, ast.Name) and \
                    isinstance(comp.generators[0].iter, (ast.Name, ast.Attribute, ast.Subscript)) and \
                    not any(isinstance(c, ast.Call) for c in ast.walk(comp.generators[0].iter)) and \
                    all(norm(c.func) in DEEP_PURE or norm(c.func) in LINSPACE
                        for c in ast.walk(comp.elt) if isinstance(c, ast.Call)):
                # [E(v) for v in seq][k]  ->  E(seq[k])   (element k of an element-wise map)
                env2 = dict(cenv)
                pick = ast.Subscript(value=comp.generators[0].iter, slice=node.slice, ctx=ast.Load())
                env2[comp.generators[0].target.id] = Thunk(ast.fix_missing_locations(ast.copy_location(pick, node)), env)
                node, env = comp.elt, env2
                continue
            if isinstance(base, ast.List) or isinstance(base, ast.Tuple):
                try:
                    c = expr_ratio(node.slice, env).const()
                except FormulaError:
                    c = None
                if c is not None and c.denominator == 1 and -len(base.elts) <= int(c) < len(base.elts):
                    node, env = base.elts[int(c)], benv
                    continue
        return node, env
    raise FormulaError("resolution too deep")


def expr_ratio(node, env=None, atom=None, depth=0):
    """evaluate an arithmetic expression to a Ratio.  env: name -> ast node | Thunk | Appended | None
    (forward substitution of single-assignment locals).  atom: callable(node)->str|None to rename leaves."""
    env = env if env is not None else {}
    if depth > 60:
        raise FormulaError("substitution too deep")
    if isinstance(node, ast.Constant) and isinstance(node.value, (int, float)) and not isinstance(node.value, bool):
        return Ratio(Poly.lift(node.value))
    if isinstance(node, ast.BinOp):
        a = expr_ratio(node.left, env, atom, depth + 1)
        b = expr_ratio(node.right, env, atom, depth + 1)
        if isinstance(node.op, ast.Add):
            return a + b
        if isinstance(node.op, ast.Sub):
            return a - b
        if isinstance(node.op, ast.Mult):
            return a * b
        if isinstance(node.op, ast.Div):
            if b.n.is_zero():
                raise FormulaError("division by zero")
            return a / b
        if isinstance(node.op, ast.Pow):
            cb = b.const()
            if cb is not None and cb.denominator == 1:
                return a ** int(cb)
            return Ratio.atom(f"pow({a},{b})")
        if isinstance(node.op, ast.FloorDiv):
            return Ratio.atom(f"floordiv({a},{b})")
        if isinstance(node.op, ast.Mod):
            return Ratio.atom(f"mod({a},{b})")
        raise FormulaError(f"operator {type(node.op).__name__}")
    if isinstance(node, ast.UnaryOp):
        if isinstance(node.op, ast.USub):
            return -expr_ratio(node.operand, env, atom, depth + 1)
        if isinstance(node.op, ast.UAdd):
            return expr_ratio(node.operand, env, atom, depth + 1)
    if isinstance(node, (ast.Name, ast.Subscript)):
        n2, e2 = resolve(node, env)
        if n2 is not node or e2 is not env:
            return expr_ratio(n2, e2, atom, depth + 1)
        if isinstance(node, ast.Subscript) and not isinstance(node.slice, (ast.Slice, ast.Tuple)):
            base, benv = resolve(node.value, env)
            if isinstance(base, ast.Call) and norm(base.func) in LINSPACE and len(base.args) >= 3:
                a = expr_ratio(base.args[0], benv, atom, depth + 1)
                b = expr_ratio(base.args[1], benv, atom, depth + 1)
                n = expr_ratio(base.args[2], benv, atom, depth + 1)
                k = expr_ratio(node.slice, env, atom, depth + 1)
                if (n - 1).n.is_zero():
                    raise FormulaError("linspace of one point")
                return a + k * (b - a) / (n - 1)
    if isinstance(node, ast.Call):
        fn = norm(node.func)
        if fn in IDENTITY_CALLS and len(node.args) == 1 and not node.keywords:
            return expr_ratio(node.args[0], env, atom, depth + 1)
    return Ratio.atom(leaf_text(node, env, atom, depth))


DEEP_PURE = {"len", "int", "float", "str", "tuple", "list", "range", "abs", "min", "max", "sum", "sorted", "zip",
             "enumerate", "np.array", "np.asarray", "np.prod", "np.arange", "np.unique", "np.argsort", "np.flip",
             "np.flatnonzero", "np.sort", "os.path.join", "os.path.basename", "os.path.split", "os.path.dirname",
             "os.path.normpath", "os.getcwd", "np.append", "np.concatenate"}   # allocations keep their name (identity matters)


class _Deep(ast.NodeTransformer):
    def __init__(self, env, bound, depth):
        self.env, self.bound, self.depth = env, bound, depth

    def visit_Name(self, n):
        if not isinstance(n.ctx, ast.Load) or n.id in self.bound or self.depth > 25:
            return n
        v = self.env.get(n.id)
        if isinstance(v, ast.Call) and norm(v.func) not in DEEP_PURE and not (
                isinstance(v.func, ast.Attribute) and v.func.attr in ("split", "strip", "replace", "copy", "keys",
                                                                      "values", "items", "decode", "encode", "join",
                                                                      "format", "rstrip", "lstrip", "lower", "upper")):
            return n        # the result of a call into the package / an effectful call keeps its name
        if isinstance(v, ast.AST) and not (isinstance(v, ast.Name) and v.id == n.id):
            import copy as _copy
            return _Deep(self.env, self.bound, self.depth + 1).visit(_copy.deepcopy(v))
        return n

    def _comp(self, n):
        bound = set(self.bound)
        for g in n.generators:
            for x in ast.walk(g.target):
                if isinstance(x, ast.Name):
                    bound.add(x.id)
        return _Deep(self.env, bound, self.depth).generic_visit(n)

    visit_ListComp = visit_SetComp = visit_DictComp = visit_GeneratorExp = _comp

    def visit_Lambda(self, n):
        return n


def deep(node, env, keep=()):
    """normal text of an expression with every single-assignment local replaced by its defining expression,
    recursively (locals bound more than once, loop variables and comprehension variables stay names).  Two
    functions that differ only in which sub-expressions they name give the same deep text.  `keep`: names that
    must stay (the function's parameters: a parameter that is re-bound has two definitions)."""
    import copy as _copy
    if node is None:
        return None
    t = _Deep(env or {}, set(keep), 0).visit(_copy.deepcopy(node))
    ast.fix_missing_locations(t)
    return norm(t)


ARANGE = ("np.arange", "numpy.arange", "range")


def affine_seq(node, env=None, atom=None, depth=0):
    """a sequence expression as an arithmetic progression -> dict(first, step, count) of Ratios, or None when the
    expression is not one of: linspace(a, b, n) · arange([a,] b) · seq ± scalar · scalar ± seq · seq * / scalar ·
    np.array(seq) · a local bound to one of those"""
    env = env if env is not None else {}
    if depth > 30:
        return None
    if isinstance(node, ast.Name):
        n2, e2 = resolve(node, env)
        if n2 is node:
            return None
        return affine_seq(n2, e2, atom, depth + 1)
    if isinstance(node, ast.Call):
        fn = norm(node.func)
        if fn in LINSPACE and len(node.args) >= 3:
            a = expr_ratio(node.args[0], env, atom)
            b = expr_ratio(node.args[1], env, atom)
            n = expr_ratio(node.args[2], env, atom)
            if (n - 1).n.is_zero():
                return None
            return dict(first=a, step=(b - a) / (n - 1), count=n)
        if fn in ARANGE and 1 <= len(node.args) <= 2 and not node.keywords:
            a = expr_ratio(node.args[0], env, atom) if len(node.args) == 2 else Ratio(0)
            b = expr_ratio(node.args[-1], env, atom)
            return dict(first=a, step=Ratio(1), count=b - a)
        if fn in ("np.array", "np.asarray", "numpy.array") and node.args:
            return affine_seq(node.args[0], env, atom, depth + 1)
        return None
    if isinstance(node, ast.BinOp):
        l = affine_seq(node.left, env, atom, depth + 1)
        r = affine_seq(node.right, env, atom, depth + 1)
        if (l is None) == (r is None):
            return None
        seq, other, left_is_seq = (l, node.right, True) if l is not None else (r, node.left, False)
        try:
            k = expr_ratio(other, env, atom)
        except FormulaError:
            return None
        if isinstance(node.op, ast.Add):
            return dict(first=seq["first"] + k, step=seq["step"], count=seq["count"])
        if isinstance(node.op, ast.Sub):
            if left_is_seq:
                return dict(first=seq["first"] - k, step=seq["step"], count=seq["count"])
            return dict(first=k - seq["first"], step=-seq["step"], count=seq["count"])
        if isinstance(node.op, ast.Mult):
            return dict(first=seq["first"] * k, step=seq["step"] * k, count=seq["count"])
        if isinstance(node.op, ast.Div) and left_is_seq and not k.n.is_zero():
            return dict(first=seq["first"] / k, step=seq["step"] / k, count=seq["count"])
    return None


def leaf_text(node, env, atom, depth=0):
    """canonical text of a non-arithmetic leaf, with locals substituted inside subscripts"""
    if depth > 60:
        return norm(node)
    if atom is not None:
        t = atom(node)
        if t is not None:
            return t
    if isinstance(node, (ast.Name, ast.Subscript)):
        n2, e2 = resolve(node, env)
        if n2 is not node or e2 is not env:
            return leaf_text(n2, e2, atom, depth + 1)
    if isinstance(node, ast.Name):
        return node.id
    if isinstance(node, ast.Attribute):
        return leaf_text(node.value, env, atom, depth + 1) + "." + node.attr
    if isinstance(node, ast.Subscript):
        base = leaf_text(node.value, env, atom, depth + 1)
        sl = node.slice
        if isinstance(sl, ast.Slice) or isinstance(sl, ast.Tuple):
            idx = norm(sl)
        else:
            try:
                r = expr_ratio(sl, env, atom, depth + 1)
                idx = str(r)
            except FormulaError:
                idx = norm(sl)
            if isinstance(sl, ast.Constant) and isinstance(sl.value, str):
                idx = repr(sl.value)
        return f"{base}[{idx}]"
    if isinstance(node, (ast.List, ast.Tuple)):
        return "[" + ", ".join(leaf_text(e, env, atom, depth + 1) for e in node.elts) + "]"
    if isinstance(node, ast.Call):
        args = []
        for a in node.args:
            if isinstance(a, (ast.List, ast.Tuple)):
                args.append(leaf_text(a, env, atom, depth + 1))
                continue
            try:
                args.append(str(expr_ratio(a, env, atom, depth + 1)))
            except FormulaError:
                args.append(norm(a))
        kws = [f"{k.arg}={norm(k.value)}" for k in node.keywords]
        return f"{leaf_text(node.func, env, atom, depth + 1)}({', '.join(args + kws)})"
    return norm(node)


def local_env(fn_node, upto=None):
    """name -> value node for locals assigned exactly once (straight-line forward substitution);
    names assigned more than once (or loop targets, augmented) map to None; lists built by one
    append per iteration of a range loop map to Appended"""
    counts, vals = {}, {}
    for n in walk_no_nested(fn_node):
        if isinstance(n, ast.Assign):
            for t in n.targets:
                if isinstance(t, ast.Name):
                    counts[t.id] = counts.get(t.id, 0) + 1
                    vals[t.id] = n.value
                elif isinstance(t, (ast.Tuple, ast.List)):
                    for e in ast.walk(t):
                        if isinstance(e, ast.Name):
                            counts[e.id] = counts.get(e.id, 0) + 2
        elif isinstance(n, (ast.AugAssign, ast.AnnAssign)):
            if isinstance(n.target, ast.Name):
                counts[n.target.id] = counts.get(n.target.id, 0) + 2
        elif isinstance(n, (ast.For, ast.comprehension)):
            for e in ast.walk(n.target):
                if isinstance(e, ast.Name):
                    counts[e.id] = counts.get(e.id, 0) + 2
        elif isinstance(n, ast.withitem) and n.optional_vars is not None:
            for e in ast.walk(n.optional_vars):
                if isinstance(e, ast.Name):
                    counts[e.id] = counts.get(e.id, 0) + 2
    env = {k: (vals[k] if counts[k] == 1 else None) for k in counts}
    # appended lists
    pm = parents(fn_node)
    appends = {}
    for n in walk_no_nested(fn_node):
        if isinstance(n, ast.Call) and isinstance(n.func, ast.Attribute) and n.func.attr == "append" \
                and isinstance(n.func.value, ast.Name) and len(n.args) == 1:
            appends.setdefault(n.func.value.id, []).append(n)
    for name, calls in appends.items():
        v = env.get(name)
        if isinstance(v, ast.List) and not v.elts:
            env[name] = None      # a list under construction keeps its own name unless recognised below
        if len(calls) == 1 and isinstance(v, ast.List) and not v.elts:
            loop = enclosing(calls[0], pm, (ast.For, ast.While))
            if isinstance(loop, ast.For) and isinstance(loop.target, ast.Name) and isinstance(loop.iter, ast.Call) \
                    and norm(loop.iter.func) == "range":
                env[name] = Appended(loop.target.id, calls[0].args[0], loop)
    return env


def local_env_at(fn_node, use):
    """local_env, plus - for locals bound more than once - the definition that reaches `use` along the straight line
    of its own block: the nearest earlier plain assignment in the statement list that holds `use`, when no statement
    in between (at any depth) binds the name again.  A name hoisted into two branches (`term1` in a fast path and in
    the general code) then reads its own branch's definition."""
    env = local_env(fn_node)
    multi = [k for k, v in env.items() if v is None]
    if not multi or use is None:
        return env

    def find_block(stmts):
        for i, s in enumerate(stmts):
            if any(x is use for x in ast.walk(s)):
                for f in ("body", "orelse", "finalbody"):
                    b = getattr(s, f, None)
                    if isinstance(b, list) and b and isinstance(b[0], ast.stmt):
                        r = find_block(b)
                        if r is not None:
                            return r
                for h in getattr(s, "handlers", []):
                    r = find_block(h.body)
                    if r is not None:
                        return r
                return stmts, i
        return None
    found = find_block(fn_node.body)
    if found is None:
        return env
    stmts, i = found
    for name in multi:
        for j in range(i - 1, -1, -1):
            s = stmts[j]
            binds = [x for x in ast.walk(s) if isinstance(x, ast.Name) and x.id == name and isinstance(x.ctx, ast.Store)]
            if not binds:
                continue
            if isinstance(s, ast.Assign) and len(s.targets) == 1 and isinstance(s.targets[0], ast.Name) \
                    and s.targets[0].id == name:
                env[name] = s.value
            break
    return env


# comparator normal form --------------------------------------------------------
FLIP = {ast.Lt: ast.Gt, ast.Gt: ast.Lt, ast.LtE: ast.GtE, ast.GtE: ast.LtE, ast.Eq: ast.Eq, ast.NotEq: ast.NotEq}
NEG = {ast.Lt: ast.GtE, ast.Gt: ast.LtE, ast.LtE: ast.Gt, ast.GtE: ast.Lt, ast.Eq: ast.NotEq, ast.NotEq: ast.Eq}
SYM = {ast.Lt: "<", ast.Gt: ">", ast.LtE: "<=", ast.GtE: ">=", ast.Eq: "==", ast.NotEq: "!="}


def compare_nf(node, env=None, atom=None, negate=False):
    """single comparison -> (Ratio lhs-rhs, op symbol) with op in < <= == != (> >= are flipped)"""
    if not (isinstance(node, ast.Compare) and len(node.ops) == 1):
        raise FormulaError("not a single comparison")
    op = type(node.ops[0])
    if op not in SYM:
        raise FormulaError("non-arithmetic comparison")
    if negate:
        op = NEG[op]
    d = expr_ratio(node.left, env, atom) - expr_ratio(node.comparators[0], env, atom)
    if op in (ast.Gt, ast.GtE):
        d, op = -d, FLIP[op]
    return d, SYM[op]


def split_chain(node):
    """a < b <= c  ->  [a<b, b<=c] as Compare nodes"""
    if isinstance(node, ast.Compare) and len(node.ops) > 1:
        out = []
        left = node.left
        for op, right in zip(node.ops, node.comparators):
            out.append(ast.Compare(left=left, ops=[op], comparators=[right]))
            left = right
        return out
    return [node]


def conjuncts(node):
    """flatten `a and b and (c & d)` into comparison nodes"""
    if isinstance(node, ast.BoolOp) and isinstance(node.op, ast.And):
        out = []
        for v in node.values:
            out += conjuncts(v)
        return out
    if isinstance(node, ast.BinOp) and isinstance(node.op, ast.BitAnd):
        return conjuncts(node.left) + conjuncts(node.right)
    return split_chain(node)


def disjuncts(node):
    if isinstance(node, ast.BoolOp) and isinstance(node.op, ast.Or):
        out = []
        for v in node.values:
            out += disjuncts(v)
        return out
    if isinstance(node, ast.BinOp) and isinstance(node.op, ast.BitOr):
        return disjuncts(node.left) + disjuncts(node.right)
    return split_chain(node)


def is_noise(stmt):
    """statements with no effect on the analysed behaviour: docstrings, print/logging calls, pass"""
    if isinstance(stmt, ast.Pass):
        return True
    if isinstance(stmt, ast.Expr):
        v = stmt.value
        if isinstance(v, ast.Constant):
            return True
        if isinstance(v, ast.Call):
            f = norm(v.func)
            if f == "print" or f.startswith(("logging.", "logger.", "log.", "warnings.warn")):
                return True
    return False


def effective(stmts):
    return [s for s in stmts if not is_noise(s)]


# ---------------------------------------------------------------------------
# dispatch exhaustiveness (U5)
# ---------------------------------------------------------------------------
def always_leaves(stmts):
    """True if every path through stmts ends in return/raise (no fall-through)"""
    for s in stmts:
        if isinstance(s, (ast.Return, ast.Raise)):
            return True
        if isinstance(s, ast.If):
            if s.orelse and always_leaves(s.body) and always_leaves(s.orelse):
                return True
        if isinstance(s, ast.Try):
            body_ok = always_leaves(s.body) or (s.orelse and always_leaves(s.orelse))
            if body_ok and all(always_leaves(h.body) for h in s.handlers):
                return True
            if s.finalbody and always_leaves(s.finalbody):
                return True
        if isinstance(s, ast.With):
            if always_leaves(s.body):
                return True
    return False


def always_raises(stmts):
    for s in stmts:
        if isinstance(s, ast.Raise):
            return True
        if isinstance(s, ast.If) and s.orelse and always_raises(s.body) and always_raises(s.orelse):
            return True
        if isinstance(s, ast.Return):
            return False
    return False


def isinstance_chains(fn_node):
    """top-level dispatch chains whose tests are isinstance(...) of one subject, written as if/elif ladders, as
    consecutive `if isinstance(...): ...; return|raise` statements, or a mix -> list of
    (subject text, [branches], terminal_else_stmts|None, chain node, following stmts)"""
    out = []
    body = fn_node.body
    used = set()
    for i, n in enumerate(body):
        if not isinstance(n, ast.If) or id(n) in used:
            continue
        subj = _isinstance_subject(n.test)
        if subj is None:
            continue
        branches, cur = [], n
        tail = None
        j = i
        following = None
        while True:
            if isinstance(cur.test, ast.UnaryOp) and isinstance(cur.test.op, ast.Not) and not cur.orelse and \
                    always_leaves(cur.body) and cur is not n and j + 1 < len(body):
                # `if not isinstance(x, T): raise ...` followed by the rest of the function: the rest is the T branch
                # and the guard's body is the terminal else
                synth = ast.If(test=cur.test.operand, body=body[j + 1:], orelse=cur.body)
                ast.copy_location(synth, cur)
                branches.append(synth)
                used.add(id(cur))
                tail = cur.body
                following = []
                break
            branches.append(cur)
            used.add(id(cur))
            if len(cur.orelse) == 1 and isinstance(cur.orelse[0], ast.If) and \
                    _isinstance_subject(cur.orelse[0].test) == subj:
                cur = cur.orelse[0]
            elif not cur.orelse and always_leaves(cur.body) and j + 1 < len(body) and isinstance(body[j + 1], ast.If) \
                    and _isinstance_subject(body[j + 1].test) == subj:
                j += 1
                cur = body[j]
            else:
                tail = cur.orelse or None
                break
        if len(branches) >= 2:
            out.append((subj, branches, tail, n, body[j + 1:] if following is None else following))
    return out


def _isinstance_subject(test):
    subs = set()
    for c in ast.walk(test):
        if isinstance(c, ast.Call) and isinstance(c.func, ast.Name) and c.func.id == "isinstance" and c.args:
            subs.add(norm(c.args[0]))
    if len(subs) == 1:
        return subs.pop()
    return None


# ---------------------------------------------------------------------------
# a tiny statement CFG for must-pass-through questions
# ---------------------------------------------------------------------------
def paths_avoiding(stmts, is_target, consts=None):
    """Can control flow run from the start of `stmts` to a *normal* completion or `return`
    without executing a statement for which is_target(stmt) holds?
    consts: name -> bool for constant propagation of simple flag tests (callable test_value(node)->True/False/None).
    Returns list of witness strings (empty = every path passes through a target)."""
    witnesses = []

    def test_value(t):
        if consts is None:
            return None
        return consts(t)

    def contains_target(s):
        if is_target(s):
            return True
        return False

    def walk(seq, trail):
        """returns list of trails that reach the end of seq normally without target;
        records returns without target in witnesses"""
        trails = [trail]
        for s in seq:
            nxt = []
            for tr in trails:
                if contains_target(s):
                    continue  # this path passed through the target: discharged
                if isinstance(s, ast.Return):
                    witnesses.append(" -> ".join(tr + [f"return@{s.lineno}"]))
                    continue
                if isinstance(s, ast.Raise):
                    continue
                if isinstance(s, ast.If):
                    tv = test_value(s.test)
                    if tv is not False:
                        nxt += walk(s.body, tr + [f"if@{s.lineno}:{norm(s.test)[:40]}"])
                    if tv is not True:
                        nxt += walk(s.orelse, tr + [f"else@{s.lineno}:not {norm(s.test)[:40]}"]) if s.orelse else \
                            [tr + [f"skip-if@{s.lineno}:not {norm(s.test)[:40]}"]]
                    continue
                if isinstance(s, (ast.For, ast.While)):
                    # zero iterations possible (unless while True)
                    if isinstance(s, ast.While) and isinstance(s.test, ast.Constant) and s.test.value:
                        nxt += walk(s.body, tr + [f"loop@{s.lineno}"])
                    else:
                        inner = walk(s.body, tr + [f"loop@{s.lineno}"])
                        nxt += inner
                        nxt.append(tr + [f"loop@{s.lineno}:0-iterations"]) if not _has_target_deep(s, is_target) else None
                        nxt[:] = [x for x in nxt if x is not None]
                    continue
                if isinstance(s, ast.With):
                    nxt += walk(s.body, tr)
                    continue
                if isinstance(s, ast.Try):
                    nxt += walk(s.body + s.orelse, tr)
                    for h in s.handlers:
                        nxt += walk(h.body, tr + [f"except@{h.lineno}"])
                    continue
                nxt.append(tr)
            trails = nxt
        return trails

    end = walk(stmts, [])
    for tr in end:
        witnesses.append(" -> ".join(tr + ["end"]))
    return witnesses


def _has_target_deep(s, is_target):
    for n in ast.walk(s):
        if isinstance(n, ast.stmt) and n is not s and is_target(n):
            return True
    return False


def stmt_calls(s, pred):
    """does statement s (not descending into nested defs) contain a call satisfying pred"""
    for n in ast.walk(s):
        if isinstance(n, ast.Call) and pred(n):
            return True
    return False


def simple_stmt_calls(s, pred):
    """like stmt_calls but only for simple statements (compound statements are entered by the walker)"""
    if isinstance(s, (ast.If, ast.For, ast.While, ast.With, ast.Try)):
        hdr = []
        if isinstance(s, ast.If) or isinstance(s, ast.While):
            hdr = [s.test]
        elif isinstance(s, ast.For):
            hdr = [s.iter]
        elif isinstance(s, ast.With):
            hdr = [i.context_expr for i in s.items]
        return any(stmt_calls(h, pred) for h in hdr)
    return stmt_calls(s, pred)


# ---------------------------------------------------------------------------
# exception handlers
# ---------------------------------------------------------------------------
def handler_can_complete(h):
    """can the except-handler finish without raising (i.e. swallow)?"""
    return not always_raises(h.body)


def swallowing_handlers(fn_node):
    out = []
    for n in walk_no_nested(fn_node):
        if isinstance(n, ast.Try):
            for h in n.handlers:
                if handler_can_complete(h):
                    out.append((n, h))
    return out


def is_count_range(iter_node, count_text, containers=()):
    """the loop runs `count_text` times: `range(count_text)`, or over the length of (one of) the container(s) whose
    entries it visits — `range(len(C))`, `range(min(len(C1), len(C2)))` with every C in `containers`"""
    import re as _re
    t = norm(iter_node)
    if t == f"range({count_text})":
        return True
    m = _re.fullmatch(r"range\(len\((.+)\)\)", t)
    if m:
        return m.group(1) in containers
    m = _re.fullmatch(r"range\(min\((.+)\)\)", t)
    if m:
        parts = [x.strip() for x in _re.findall(r"len\(((?:[^()]|\([^()]*\))+)\)", m.group(1))]
        return bool(parts) and all(x in containers for x in parts)
    return False


def norm_comp(node):
    """normal text with the variables of comprehensions renamed by position (v0, v1, ...): two comprehensions that
    differ only in the name of their loop variable give the same text"""
    import copy as _copy
    t = _copy.deepcopy(node)
    counter = [0]

    def rename(comp):
        mapping = {}
        for g in comp.generators:
            for x in ast.walk(g.target):
                if isinstance(x, ast.Name) and x.id not in mapping:
                    mapping[x.id] = f"v{counter[0]}"
                    counter[0] += 1
        for x in ast.walk(comp):
            if isinstance(x, ast.Name) and x.id in mapping:
                x.id = mapping[x.id]
    for c in [x for x in ast.walk(t) if isinstance(x, (ast.ListComp, ast.SetComp, ast.GeneratorExp, ast.DictComp))]:
        rename(c)
    return norm(t)

