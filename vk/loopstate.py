"""Loop-carried state lints (generic, applied to every function a property anchors).

Three shapes of "a value that is stale or shared between iterations", each a necessary condition of every property
whose mechanism builds per-level / per-file / per-box tables in loops:

  LOOP-STATE.STALE   a container is (re)filled inside an inner loop and consumed in the body of the enclosing loop L,
                     but its only initialisation is outside L: iteration k of L consumes the rows of iterations 0..k
                     (per-level tables that pile up).
  LOOP-STATE.LOST    a container is initialised and filled inside loop L and never read inside L; every read comes
                     after L: only the last iteration's content is ever consumed (work lists reset per level but
                     dispatched after the level loop).
  LOOP-STATE.SHARED  one mutable object created outside loop L is updated in L and appended / stored into a
                     collection in L without a copy: every entry of the collection is the same object and holds the
                     last iteration's values.

The lints are flow-light but scoped: they look at names bound to *fresh empty or literal containers* only (`[]`, `{}`,
`list()`, `dict()`, dict/list displays), and at the loops of one function.  They never fire on accumulators that are
initialised outside a loop and consumed after it, nor on per-iteration containers consumed in the same iteration.
"""
import ast

from .model import norm, walk_no_nested, loc

FILL = {"append", "extend", "insert", "update", "add", "setdefault"}
LOOPS = (ast.For, ast.While)


def _fresh_container(v):
    if isinstance(v, (ast.List, ast.Dict, ast.Set)):
        return "display"
    if isinstance(v, ast.Call) and isinstance(v.func, ast.Name) and v.func.id in ("list", "dict", "set") and not v.args \
            and not v.keywords:
        return "ctor"
    return None


def _parents(fn):
    par = {}
    for n in ast.walk(fn):
        for c in ast.iter_child_nodes(n):
            par[c] = n
    return par


def _loops_of(node, par, fn):
    """enclosing loops of node inside fn, innermost first; a node in the `orelse` of a loop is not inside it; the
    iterable / test of a loop is evaluated outside it"""
    out = []
    c, p = node, par.get(node)
    while p is not None and c is not fn:
        if isinstance(p, LOOPS) and (c in p.body):
            out.append(p)
        if isinstance(p, (ast.ListComp, ast.SetComp, ast.DictComp, ast.GeneratorExp)):
            pass
        c, p = p, par.get(p)
    return out


def _stmt_of(node, par):
    while node is not None and not isinstance(node, ast.stmt):
        node = par.get(node)
    return node


class _Var:
    def __init__(self, name):
        self.name = name
        self.inits = []      # (stmt, loops)  plain assignment of a fresh container
        self.rebinds = []    # other bindings
        self.fills = []      # (call/stmt node, loops)
        self.reads = []      # (Name node, loops)  reads that are not the receiver of a fill


def collect(fn):
    par = _parents(fn)
    vars_ = {}

    def var(n):
        return vars_.setdefault(n, _Var(n))
    receivers = set()
    for n in walk_no_nested(fn):
        if isinstance(n, ast.Assign):
            for t in n.targets:
                if isinstance(t, ast.Name):
                    if _fresh_container(n.value):
                        var(t.id).inits.append((n, _loops_of(n, par, fn)))
                    else:
                        var(t.id).rebinds.append((n, _loops_of(n, par, fn)))
                elif isinstance(t, (ast.Tuple, ast.List)):
                    for x in ast.walk(t):
                        if isinstance(x, ast.Name):
                            var(x.id).rebinds.append((n, _loops_of(n, par, fn)))
                elif isinstance(t, ast.Subscript) and isinstance(t.value, ast.Name):
                    # v[k] = e fills v
                    var(t.value.id).fills.append((n, _loops_of(n, par, fn)))
                    receivers.add(id(t.value))
        elif isinstance(n, (ast.AugAssign, ast.AnnAssign)) and isinstance(n.target, ast.Name):
            var(n.target.id).rebinds.append((n, _loops_of(n, par, fn)))
        elif isinstance(n, (ast.For, ast.comprehension)):
            for x in ast.walk(n.target):
                if isinstance(x, ast.Name):
                    var(x.id).rebinds.append((n, _loops_of(n, par, fn) if isinstance(n, ast.For) else []))
        elif isinstance(n, ast.withitem) and n.optional_vars is not None:
            for x in ast.walk(n.optional_vars):
                if isinstance(x, ast.Name):
                    var(x.id).rebinds.append((n, []))
        elif isinstance(n, ast.Call) and isinstance(n.func, ast.Attribute) and n.func.attr in FILL \
                and isinstance(n.func.value, ast.Name):
            var(n.func.value.id).fills.append((n, _loops_of(n, par, fn)))
            receivers.add(id(n.func.value))
    for n in walk_no_nested(fn):
        if isinstance(n, ast.Name) and isinstance(n.ctx, ast.Load) and id(n) not in receivers and n.id in vars_:
            vars_[n.id].reads.append((n, _loops_of(n, par, fn)))
    return vars_, par


def lint(fi):
    """[(kind, node, message)]"""
    fn = fi.node
    vars_, par = collect(fn)
    out = []
    params = set(fi.params)
    for name, v in vars_.items():
        if name in params or not v.inits or not v.fills:
            continue
        # ---- STALE: every init is outside loop L; a fill is inside an inner loop of L (or in L itself after a read);
        #      a read lies in L's body outside the inner filling loop
        for fill, floops in v.fills:
            if len(floops) < 2:
                continue
            inner = floops[0]
            for L in floops[1:]:
                if any(L in il for _, il in v.inits) or any(L in rl for _, rl in v.rebinds):
                    continue            # re-initialised (or re-bound) inside L
                # reads inside L but outside the filling loop and every loop between
                between = floops[:floops.index(L)]
                reads = [r for r, rl in v.reads if L in rl and not any(b in rl for b in between)]
                if not reads:
                    continue
                # the read must come after the filling loop in L's body (consumption of the filled rows)
                if not any(r.lineno >= getattr(between[-1], "end_lineno", between[-1].lineno) for r in reads):
                    continue
                init = v.inits[0][0]
                out.append(("STALE", fill,
                            f"`{name}` is filled inside `{_head(inner)}` and consumed in the body of the enclosing "
                            f"`{_head(L)}` (`{norm(_stmt_of(reads[0], par))[:70]}`), but it is only initialised before "
                            f"that loop (`{norm(init)}`): iteration k consumes the rows of iterations 0..k", L))
                break
        # ---- LOST: an init inside loop L, fills inside L, no read inside L at all, reads after L
        for init, iloops in v.inits:
            if not iloops:
                continue
            L = iloops[0]
            if not any(L in fl for _, fl in v.fills):
                continue
            reads_in = [r for r, rl in v.reads if L in rl]
            reads_after = [r for r, rl in v.reads if L not in rl and r.lineno > getattr(L, "end_lineno", L.lineno)]
            if not reads_in and reads_after:
                out.append(("LOST", init,
                            f"`{name}` is reset (`{norm(init)}`) and filled on every iteration of `{_head(L)}` but only "
                            f"read after that loop (`{norm(_stmt_of(reads_after[0], par))[:70]}`): the content of every "
                            f"iteration but the last is dropped", L))
        # ---- SHARED: init outside loop L, filled (update / v[k]=) inside L, and `coll.append(v)` / `coll[k] = v` in L
        for fill, floops in v.fills:
            if not floops:
                continue
            L = floops[0]
            if any(L in il for _, il in v.inits) or any(L in rl for _, rl in v.rebinds):
                continue
            for r, rl in v.reads:
                if L not in rl:
                    continue
                p = par.get(r)
                stored = False
                if isinstance(p, ast.Call) and isinstance(p.func, ast.Attribute) and p.func.attr in ("append", "insert", "add") \
                        and r in p.args:
                    stored = True
                if isinstance(p, ast.Assign) and p.value is r and any(isinstance(t, ast.Subscript) for t in p.targets):
                    stored = True
                if stored:
                    out.append(("SHARED", p if isinstance(p, ast.stmt) else _stmt_of(p, par),
                                f"`{name}` is created once (`{norm(v.inits[0][0])[:50]}`) outside `{_head(L)}`, updated in it "
                                f"(`{norm(fill)[:50]}`) and stored without a copy (`{norm(_stmt_of(r, par))[:50]}`): every "
                                f"stored entry is the same object and ends up holding the last iteration's values", L))
                    break
            else:
                continue
            break
    # de-duplicate by (kind, variable message)
    seen, res = set(), []
    for kind, node, msg, L in out:
        k = (kind, msg)
        if k in seen:
            continue
        seen.add(k)
        res.append((kind, node, msg))
    return res


def _head(loop):
    if isinstance(loop, ast.For):
        return f"for {norm(loop.target)} in {norm(loop.iter)[:40]}"
    return f"while {norm(loop.test)[:40]}"


def rule_loop_state(ctx, prefix, fi):
    hits = lint(fi)
    n = len(collect(fi.node)[0])
    if not hits:
        ctx.ok(f"{prefix}.LOOP-STATE", fi.site, f"no stale / lost / shared loop-carried container among {n} locals",
               key="loop-state")
        return
    for kind, node, msg in hits:
        ctx.finding(f"{prefix}.LOOP-STATE", fi.site, f"{kind}: {msg}", key=f"{kind.lower()}", where=loc(fi, node))
