"""HISTORY: state that survives from one call (or one object) to the next.

Every property here is stated for *every history*: the n-th use of a reader, a tool object or a module in one
process must behave like the first.  That is a structural fact about where values live:

* MODULE-STATE - a module-level name that functions write (`global G` + rebinding, `G[k] = v`, `G.append(..)` ...)
  outlives every object of the package.  The only accepted discipline (the one `Chef.set_global_sarrays` follows on
  the confirmed tree) is *reset before use*: the writing function first rebinds the name to a fresh container,
  unconditionally.  A write without that reset - a cache filled on demand, a reset under a condition - makes the result
  of a call depend on the calls before it, unless the key under which the value is kept determines the value.  That
  last clause is decided: for the memo idiom `if key not in G: G[key] = value` every input the value is computed
  from (`self.<attr>` roots, parameters) must occur in the key; an object attribute can never be pinned by a path or a
  name, because another object (or the same path rewritten on disk) carries other contents.
* INSTANCE-STATE - a container attribute created once (`self.A = []` in `__init__`) and grown by a method that can be
  called again (append / extend / `+=` / insert, directly or through a local alias) accumulates the entries of every
  earlier call.  Methods that only run as part of construction are exempt.
* MEMO-ORDER - a one-slot memo (`if self.K != key: self.K = key; self.V = compute()`) must publish the key after the
  value: when `compute()` raises between the two stores the slot names the new key and still holds the old value.
"""
import ast

from .model import norm, walk_no_nested, loc, parents

FRESH_CALLS = {"dict", "list", "set", "OrderedDict", "defaultdict", "collections.OrderedDict",
               "collections.defaultdict"}
MUTATORS = {"append", "extend", "insert", "update", "setdefault", "add", "appendleft"}
GROWERS = {"append", "extend", "insert", "appendleft"}


def _fresh(v):
    if isinstance(v, (ast.Dict, ast.List, ast.Set)) and not getattr(v, "elts", getattr(v, "keys", [])):
        return True
    if isinstance(v, ast.Call) and norm(v.func) in FRESH_CALLS and not v.args:
        return True
    return False


def _local_names(fn):
    out = set(a.arg for a in fn.args.posonlyargs + fn.args.args + fn.args.kwonlyargs)
    if fn.args.vararg:
        out.add(fn.args.vararg.arg)
    if fn.args.kwarg:
        out.add(fn.args.kwarg.arg)
    glob = set()
    for n in walk_no_nested(fn):
        if isinstance(n, ast.Global):
            glob.update(n.names)
    for n in walk_no_nested(fn):
        if isinstance(n, ast.Name) and isinstance(n.ctx, ast.Store) and n.id not in glob:
            out.add(n.id)
    return out, glob


def _reads(node, locals_defined=()):
    """roots the expression / statements read: parameter / free names and `self.<attr>` chains (first attribute)"""
    out = set()
    nodes = node if isinstance(node, list) else [node]
    for root in nodes:
        for n in ast.walk(root):
            if isinstance(n, ast.Attribute) and isinstance(n.value, ast.Name) and n.value.id == "self" \
                    and isinstance(n.ctx, ast.Load):
                out.add("self." + n.attr)
            elif isinstance(n, ast.Name) and isinstance(n.ctx, ast.Load) and n.id != "self" \
                    and n.id not in locals_defined:
                out.add(n.id)
    return out


def module_state_writes(fi, modglobals):
    """[(global name, node, kind)] for writes of module-level names in fi; kind rebind|store|mutate"""
    fn = fi.node
    local, glob = _local_names(fn)
    out = []
    for n in walk_no_nested(fn):
        if isinstance(n, (ast.Assign, ast.AugAssign, ast.AnnAssign)):
            tgts = n.targets if isinstance(n, ast.Assign) else [n.target]
            for t in tgts:
                for e in ([t] if not isinstance(t, (ast.Tuple, ast.List)) else t.elts):
                    if isinstance(e, ast.Name) and e.id in glob and e.id in modglobals:
                        out.append((e.id, n, "rebind"))
                    b = e
                    while isinstance(b, (ast.Subscript, ast.Attribute)):
                        b = b.value
                    if b is not e and isinstance(b, ast.Name) and b.id in modglobals and (b.id in glob or b.id not in local):
                        out.append((b.id, n, "store"))
        elif isinstance(n, ast.Call) and isinstance(n.func, ast.Attribute) and n.func.attr in MUTATORS:
            b = n.func.value
            while isinstance(b, (ast.Subscript, ast.Attribute)):
                b = b.value
            if isinstance(b, ast.Name) and b.id in modglobals and (b.id in glob or b.id not in local):
                out.append((b.id, n, "mutate"))
    return out


def _top_level_index(fn, node):
    """index of the top-level statement of fn that contains node, and whether node IS that statement"""
    for i, s in enumerate(fn.body):
        for x in ast.walk(s):
            if x is node:
                return i, s is node
    return None, False


def _fresh_local(fn, v, upto):
    """v is a local name whose only binding, in an earlier top-level statement, is a fresh container (the function
    fills the new container through the local name and publishes it)"""
    if not isinstance(v, ast.Name):
        return False
    binds = [s for s in walk_no_nested(fn) if isinstance(s, ast.Assign)
             and any(isinstance(t, ast.Name) and t.id == v.id for t in s.targets)]
    if len(binds) != 1 or not _fresh(binds[0].value):
        return False
    return any(s is binds[0] for s in fn.body[:upto])


def rule_module_state(ctx, prefix, fi):
    m = fi.module
    modglobals = {g for g, nodes in m.globals_assigned.items()}
    # names imported or defined as functions / classes are not state
    modglobals -= set(m.functions) | set(m.classes)
    if not modglobals:
        return
    writes = module_state_writes(fi, modglobals)
    if not writes:
        return
    byname = {}
    for g, n, kind in writes:
        byname.setdefault(g, []).append((n, kind))
    for g, ws in sorted(byname.items()):
        # reset-before-use: a top-level statement of the function rebinds g to a fresh container, and no write of g
        # precedes it
        order = []
        for n, kind in ws:
            i, is_top = _top_level_index(fi.node, n)
            order.append((i if i is not None else 10 ** 6, is_top, n, kind))
        order.sort(key=lambda t: (t[0], getattr(t[2], "lineno", 0)))
        first = order[0]
        reset = first[1] and first[3] == "rebind" and isinstance(first[2], ast.Assign) and \
            (_fresh(first[2].value) or _fresh_local(fi.node, first[2].value, first[0]))
        if reset:
            ctx.ok(f"{prefix}.MODULE-STATE", fi.site, f"module-level `{g}` is rebound to a fresh container before "
                   f"this function writes it (no entry survives from an earlier call)", f"module-state:{g}")
            continue
        # memo idiom with a complete key?
        verdict = _memo_key_complete(fi, g, ws)
        if verdict is True:
            ctx.ok(f"{prefix}.MODULE-STATE", fi.site, f"module-level memo `{g}`: every input of the kept value occurs "
                   f"in its key", f"module-state:{g}")
            continue
        why = verdict if isinstance(verdict, str) else \
            "it is written without first being rebound to a fresh container on every path"
        ctx.finding(f"{prefix}.MODULE-STATE", fi.site,
                    f"module-level `{g}` outlives every object of the package and {why}: what this function returns "
                    f"or leaves behind depends on the calls (and objects) before it, not only on its arguments and "
                    f"the files", key=f"module-state:{g}", where=loc(fi, first[2]), semantic=True)


def _memo_key_complete(fi, g, ws):
    """True / explanation string / None (not the memo idiom)"""
    pm = parents(fi.node)
    for n, kind in ws:
        if kind != "store" or not isinstance(n, ast.Assign) or len(n.targets) != 1:
            continue
        t = n.targets[0]
        if not (isinstance(t, ast.Subscript) and isinstance(t.value, ast.Name) and t.value.id == g):
            continue
        key = t.slice
        # the guarding `if key not in g` block
        p = pm.get(n)
        while p is not None and not isinstance(p, ast.If):
            p = pm.get(p)
        if p is None:
            continue
        block = p.body if any(x is n for s in p.body for x in ast.walk(s)) else p.orelse
        defined = set()
        for s in block:
            for x in ast.walk(s):
                if isinstance(x, ast.Name) and isinstance(x.ctx, ast.Store):
                    defined.add(x.id)
        env_defs = {}
        for s in fi.node.body:
            if isinstance(s, ast.Assign) and len(s.targets) == 1 and isinstance(s.targets[0], ast.Name):
                env_defs[s.targets[0].id] = s.value
        key_reads = _reads(key)
        for k in list(key_reads):
            if k in env_defs:
                key_reads |= _reads(env_defs[k])
        val_reads = _reads(block, defined) - {g}
        val_reads = {r for r in val_reads if r in fi.params or r.startswith("self.")}
        missing = sorted(r for r in val_reads if r not in key_reads and r != "self")
        if missing:
            return (f"is filled on demand under the key `{norm(key)}`, which does not determine the kept value: the "
                    f"value is computed from {', '.join(missing)}, which another object, another call or a rewritten "
                    f"file can change under the same key")
        return True
    return None


# ---------------------------------------------------------------------------------------------------------------
def _constructor_phase(prog, ci):
    """names of the methods of ci's hierarchy that are called from __init__ (transitively) and from nowhere else in
    the package"""
    callers = {}
    for f in prog.all_functions():
        for n in walk_no_nested(f.node):
            if isinstance(n, ast.Call) and isinstance(n.func, ast.Attribute):
                callers.setdefault(n.func.attr, set()).add(f.qualname.split(".")[-1] if f.cls else f.qualname)
    phase = {"__init__"}
    changed = True
    while changed:
        changed = False
        for name, cs in callers.items():
            if name not in phase and cs and cs <= phase:
                phase.add(name)
                changed = True
    return phase


def rule_instance_state(ctx, prefix, fi):
    if fi.cls is None:
        return
    name = fi.qualname.split(".")[-1]
    prog = ctx.prog
    cache = prog.__dict__.setdefault("_ctor_phase", {})
    key = (fi.module.relpath, fi.cls.name)
    if key not in cache:
        cache[key] = _constructor_phase(prog, fi.cls)
    if name in cache[key]:
        return
    # container attributes created by an assignment of a fresh container anywhere in the hierarchy's __init__-phase
    created = {}
    for c in prog.mro(fi.cls):
        for mname, mf in c.methods.items():
            for n in walk_no_nested(mf.node):
                if isinstance(n, ast.Assign) and _fresh(n.value) and not isinstance(n.value, (ast.Dict, ast.Set)):
                    for t in n.targets:
                        if isinstance(t, ast.Attribute) and isinstance(t.value, ast.Name) and t.value.id == "self":
                            created.setdefault(t.attr, []).append(mname)
    if not created:
        return
    fn = fi.node
    # local aliases of the attribute (x = self.A)
    alias = {}
    rebound_here = set()
    for n in walk_no_nested(fn):
        if isinstance(n, ast.Assign) and len(n.targets) == 1:
            t, v = n.targets[0], n.value
            if isinstance(t, ast.Name) and isinstance(v, ast.Attribute) and isinstance(v.value, ast.Name) \
                    and v.value.id == "self" and v.attr in created:
                alias[t.id] = v.attr
            if isinstance(t, ast.Attribute) and isinstance(t.value, ast.Name) and t.value.id == "self" \
                    and t.attr in created:
                rebound_here.add(t.attr)
    bad = []
    for n in walk_no_nested(fn):
        attr = None
        if isinstance(n, ast.Call) and isinstance(n.func, ast.Attribute) and n.func.attr in GROWERS:
            b = n.func.value
            if isinstance(b, ast.Attribute) and isinstance(b.value, ast.Name) and b.value.id == "self":
                attr = b.attr
            elif isinstance(b, ast.Name) and b.id in alias:
                attr = alias[b.id]
        elif isinstance(n, ast.AugAssign) and isinstance(n.op, ast.Add):
            b = n.target
            if isinstance(b, ast.Attribute) and isinstance(b.value, ast.Name) and b.value.id == "self":
                attr = b.attr
        if attr in created and attr not in rebound_here:
            bad.append((n, attr))
    for n, attr in bad[:3]:
        ctx.finding(f"{prefix}.INSTANCE-STATE", fi.site,
                    f"`{norm(n)[:90]}` grows `self.{attr}`, a list created once (in {', '.join(sorted(set(created[attr])))}) "
                    f"and never started afresh by this method: a second call on the same object sees the entries of "
                    f"the first", key=f"instance-state:{attr}", where=loc(fi, n), semantic=True)
    if not bad:
        return


def _self_attr(e):
    return e.attr if isinstance(e, ast.Attribute) and isinstance(e.value, ast.Name) and e.value.id == "self" else None


def rule_memo_order(ctx, prefix, fi):
    """one-slot memo: `if self.K != key: self.K = key; self.V = <computation>`"""
    if fi.cls is None or fi.qualname.endswith(".__init__"):
        return
    for n in walk_no_nested(fi.node):
        if not (isinstance(n, ast.If) and isinstance(n.test, ast.Compare) and len(n.test.ops) == 1
                and isinstance(n.test.ops[0], (ast.NotEq, ast.IsNot, ast.Eq, ast.Is))):
            continue
        l, r = n.test.left, n.test.comparators[0]
        k, keytext = (_self_attr(l), norm(r)) if _self_attr(l) else ((_self_attr(r), norm(l)) if _self_attr(r) else (None, None))
        if k is None:
            continue
        blk = n.body if isinstance(n.test.ops[0], (ast.NotEq, ast.IsNot)) else n.orelse
        kpos = vpos = None
        for i, s in enumerate(blk):
            if isinstance(s, ast.Assign) and len(s.targets) == 1 and _self_attr(s.targets[0]):
                a = _self_attr(s.targets[0])
                if a == k and norm(s.value) == keytext and kpos is None:
                    kpos = (i, s)
                elif a != k and any(isinstance(x, (ast.Call, ast.Subscript)) for x in ast.walk(s.value)) and vpos is None:
                    vpos = (i, s, a)
        if kpos and vpos and kpos[0] < vpos[0]:
            v = vpos[2]
            ctx.finding(f"{prefix}.MEMO-ORDER", fi.site,
                        f"`self.{k}` (the key compared before `self.{v}` is reused) is stored before "
                        f"`self.{v} = {norm(vpos[1].value)[:70]}` is computed: when that computation raises (a missing "
                        f"or short file), the slot names the new key and still holds the previous value, and the next "
                        f"call with this key returns the other box's data", key=f"memo-order:{k}:{v}",
                        where=loc(fi, kpos[1]), semantic=True)
        elif kpos and vpos:
            ctx.ok(f"{prefix}.MEMO-ORDER", fi.site, f"one-slot memo self.{k} / self.{vpos[2]}: key published after the value",
                   f"memo-order:{k}")


SNAPSHOTS = {"tuple", "str", "repr", "frozenset", "hash", "bytes", "int", "float", "len", "id"}


def rule_instance_memo(ctx, prefix, fi):
    """dict memo on the object (`if k not in self.A: self.A[k] = V`): a mutable argument the kept value holds by
    reference must be part of the key by identity, not by a snapshot of its contents"""
    if fi.cls is None:
        return
    env = {}
    for s in walk_no_nested(fi.node):
        if isinstance(s, ast.Assign) and len(s.targets) == 1 and isinstance(s.targets[0], ast.Name):
            env.setdefault(s.targets[0].id, []).append(s.value)
    params = [p for p in fi.params if p != "self"]
    for n in walk_no_nested(fi.node):
        if not (isinstance(n, ast.Assign) and len(n.targets) == 1 and isinstance(n.targets[0], ast.Subscript)
                and _self_attr(n.targets[0].value)):
            continue
        a = _self_attr(n.targets[0].value)
        key = n.targets[0].slice
        # memo idiom only: the same function tests membership of the key in the same attribute
        member = any(isinstance(c, ast.Compare) and len(c.ops) == 1 and isinstance(c.ops[0], (ast.In, ast.NotIn))
                     and _self_attr(c.comparators[0]) == a for c in walk_no_nested(fi.node))
        if not member:
            continue
        key_exprs = [key] + [v for nm in {x.id for x in ast.walk(key) if isinstance(x, ast.Name)} for v in env.get(nm, [])]
        for p in params:
            raw_in_value = any(isinstance(x, ast.Name) and x.id == p for c in ast.walk(n.value) if isinstance(c, ast.Call)
                               for x in list(c.args) + [k.value for k in c.keywords])
            if not raw_in_value:
                continue
            snap = raw = False
            for ke in key_exprs:
                par = parents(ke)
                for x in ast.walk(ke):
                    if isinstance(x, ast.Name) and x.id == p:
                        q = par.get(x)
                        if isinstance(q, ast.Call) and norm(q.func) in SNAPSHOTS:
                            snap = True
                        elif isinstance(q, ast.Attribute):
                            snap = True     # p.start, p.stop ...: a snapshot of a component
                        elif isinstance(q, ast.Call) and x in q.args and norm(q.func) == "isinstance":
                            pass
                        else:
                            raw = True
            if snap:
                ctx.finding(f"{prefix}.INSTANCE-MEMO", fi.site,
                            f"`self.{a}[{norm(key)}]` keeps `{norm(n.value)[:70]}`, which holds the caller's `{p}` by "
                            f"reference, under a key that is (on some branch) a snapshot of `{p}`'s contents: when the "
                            f"caller changes the container afterwards the kept object follows it and its key does not "
                            f"- a later request for the original value is answered with other fields",
                            key=f"instance-memo:{a}:{p}", where=loc(fi, n), semantic=True)
                return


def sweep(ctx, prefix, fns):
    n = 0
    for f in fns:
        rule_module_state(ctx, prefix, f)
        rule_instance_state(ctx, prefix, f)
        rule_memo_order(ctx, prefix, f)
        rule_instance_memo(ctx, prefix, f)
        n += 1
    return n
