"""Multivariate polynomials / rational functions with rational coefficients.

Atoms are arbitrary strings (canonical names of symbolic quantities).  Used as
the numeric abstract domain of the byte-accounting interpreter (fabio) and of the
formula-conformance rules (formulas).  Equality is semantic (normal form), so any
algebraically equivalent rewrite of the analysed source compares equal.
"""
from fractions import Fraction


class Poly:
    __slots__ = ("t",)

    def __init__(self, terms=None):
        # terms: {monomial: Fraction}; monomial = tuple(sorted((atom, exp)))
        self.t = {}
        if terms:
            for m, c in terms.items():
                if c != 0:
                    self.t[m] = Fraction(c)

    # -- constructors -----------------------------------------------------
    @staticmethod
    def const(c):
        return Poly({(): Fraction(c)})

    @staticmethod
    def atom(name):
        return Poly({((name, 1),): Fraction(1)})

    @staticmethod
    def lift(x):
        if isinstance(x, Poly):
            return x
        if isinstance(x, (int, Fraction)):
            return Poly.const(x)
        if isinstance(x, float):
            return Poly.const(Fraction(x).limit_denominator(10 ** 12))
        raise TypeError(x)

    # -- algebra ------------------------------------------------------------
    def __add__(self, o):
        o = Poly.lift(o)
        r = dict(self.t)
        for m, c in o.t.items():
            r[m] = r.get(m, 0) + c
        return Poly(r)

    __radd__ = __add__

    def __neg__(self):
        return Poly({m: -c for m, c in self.t.items()})

    def __sub__(self, o):
        return self + (-Poly.lift(o))

    def __rsub__(self, o):
        return Poly.lift(o) - self

    def __mul__(self, o):
        o = Poly.lift(o)
        r = {}
        for m1, c1 in self.t.items():
            for m2, c2 in o.t.items():
                d = dict(m1)
                for a, e in m2:
                    d[a] = d.get(a, 0) + e
                m = tuple(sorted((a, e) for a, e in d.items() if e))
                r[m] = r.get(m, 0) + c1 * c2
        return Poly(r)

    __rmul__ = __mul__

    def __pow__(self, n):
        if not isinstance(n, int) or n < 0:
            raise ValueError("non-natural power")
        r = Poly.const(1)
        for _ in range(n):
            r = r * self
        return r

    def is_zero(self):
        return not self.t

    def is_const(self):
        return all(m == () for m in self.t)

    def const_value(self):
        if not self.is_const():
            return None
        return self.t.get((), Fraction(0))

    def atoms(self):
        s = set()
        for m in self.t:
            for a, _ in m:
                s.add(a)
        return s

    def subs(self, mapping):
        """mapping: atom -> Poly|number"""
        r = Poly()
        for m, c in self.t.items():
            term = Poly.const(c)
            for a, e in m:
                base = Poly.lift(mapping[a]) if a in mapping else Poly.atom(a)
                term = term * (base ** e)
            r = r + term
        return r

    def __eq__(self, o):
        if not isinstance(o, (Poly, int, Fraction)):
            return NotImplemented
        return (self - Poly.lift(o)).is_zero()

    def __hash__(self):
        return hash(tuple(sorted(self.t.items())))

    def single_atom(self):
        """return atom name if the poly is exactly one atom with coefficient 1"""
        if len(self.t) == 1:
            (m, c), = self.t.items()
            if c == 1 and len(m) == 1 and m[0][1] == 1:
                return m[0][0]
        return None

    def div_monomial(self, o):
        """exact division by a single-term polynomial; None if some term is not divisible"""
        o = Poly.lift(o)
        if len(o.t) != 1:
            return None
        (om, oc), = o.t.items()
        od = dict(om)
        r = {}
        for m, c in self.t.items():
            d = dict(m)
            for a, e in od.items():
                if d.get(a, 0) < e:
                    return None
                d[a] -= e
            r[tuple(sorted((a, e) for a, e in d.items() if e))] = c / oc
        return Poly(r)

    def divide_by_monomial_const(self, c):
        return Poly({m: v / Fraction(c) for m, v in self.t.items()})

    def __str__(self):
        if not self.t:
            return "0"
        parts = []
        for m, c in sorted(self.t.items(), key=lambda kv: (len(kv[0]), kv[0])):
            mono = "*".join(a if e == 1 else f"{a}^{e}" for a, e in m)
            if not mono:
                parts.append(str(c))
            elif c == 1:
                parts.append(mono)
            elif c == -1:
                parts.append("-" + mono)
            else:
                parts.append(f"{c}*{mono}")
        return " + ".join(parts).replace("+ -", "- ")

    __repr__ = __str__


class Ratio:
    """num/den with Poly parts; equality by cross multiplication."""
    __slots__ = ("n", "d")

    def __init__(self, n, d=None):
        self.n = Poly.lift(n)
        self.d = Poly.const(1) if d is None else Poly.lift(d)
        cv = self.d.const_value()
        if cv is not None and cv != 0 and cv != 1:
            self.n = self.n.divide_by_monomial_const(cv)
            self.d = Poly.const(1)

    @staticmethod
    def lift(x):
        return x if isinstance(x, Ratio) else Ratio(Poly.lift(x))

    @staticmethod
    def atom(name):
        return Ratio(Poly.atom(name))

    def __add__(self, o):
        o = Ratio.lift(o)
        if self.d == o.d:
            return Ratio(self.n + o.n, self.d)
        return Ratio(self.n * o.d + o.n * self.d, self.d * o.d)

    __radd__ = __add__

    def __neg__(self):
        return Ratio(-self.n, self.d)

    def __sub__(self, o):
        return self + (-Ratio.lift(o))

    def __rsub__(self, o):
        return Ratio.lift(o) - self

    def __mul__(self, o):
        o = Ratio.lift(o)
        return Ratio(self.n * o.n, self.d * o.d)

    __rmul__ = __mul__

    def __truediv__(self, o):
        o = Ratio.lift(o)
        if o.n.is_zero():
            raise ZeroDivisionError
        return Ratio(self.n * o.d, self.d * o.n)

    def __rtruediv__(self, o):
        return Ratio.lift(o) / self

    def __pow__(self, n):
        if isinstance(n, Ratio):
            cv = n.const()
            if cv is None or cv.denominator != 1:
                raise ValueError("symbolic power")
            n = int(cv)
        if n >= 0:
            return Ratio(self.n ** n, self.d ** n)
        return Ratio(self.d ** (-n), self.n ** (-n))

    def __eq__(self, o):
        if not isinstance(o, (Ratio, Poly, int, Fraction)):
            return NotImplemented
        o = Ratio.lift(o)
        return (self.n * o.d - o.n * self.d).is_zero()

    def __hash__(self):
        return hash((self.n, self.d))

    def const(self):
        if self.d.const_value() == 1:
            return self.n.const_value()
        return None

    def is_poly(self):
        return self.d.const_value() == 1

    def atoms(self):
        return self.n.atoms() | self.d.atoms()

    def subs(self, mapping):
        m2 = {}
        for k, v in mapping.items():
            if isinstance(v, Ratio):
                if not v.is_poly():
                    raise ValueError("rational substitution")
                v = v.n
            m2[k] = v
        return Ratio(self.n.subs(m2), self.d.subs(m2))

    def __str__(self):
        if self.d.const_value() == 1:
            return str(self.n)
        return f"({self.n})/({self.d})"

    __repr__ = __str__
