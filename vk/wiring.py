"""E7 — CLI option -> API parameter wiring."""
import ast

from .model import norm, walk_no_nested, AnalysisError, loc


def cli_options(fi):
    """argparse options declared in a main(): dest -> dict(flags, action, type, default, nargs)"""
    out = {}
    for n in walk_no_nested(fi.node):
        if isinstance(n, ast.Call) and isinstance(n.func, ast.Attribute) and n.func.attr == "add_argument":
            flags = [a.value for a in n.args if isinstance(a, ast.Constant) and isinstance(a.value, str)]
            if not flags:
                continue
            kw = {k.arg: k.value for k in n.keywords}
            long = [f for f in flags if f.startswith("--")]
            dest = norm(kw["dest"]).strip("'\"") if "dest" in kw else (long[0][2:] if long else flags[0]).replace("-", "_")
            action = kw["action"].value if "action" in kw and isinstance(kw["action"], ast.Constant) else None
            out[dest] = dict(flags=flags, action=action, type=norm(kw["type"]) if "type" in kw else None,
                             default=norm(kw["default"]) if "default" in kw else None,
                             nargs=norm(kw["nargs"]) if "nargs" in kw else None, node=n)
    return out


def args_reads(fi, argsname="args"):
    """set of dests read as args.<dest> anywhere in the function"""
    return {n.attr for n in walk_no_nested(fi.node) if isinstance(n, ast.Attribute)
            and isinstance(n.value, ast.Name) and n.value.id == argsname}


def call_bindings(prog, fi, callee_pred):
    """first call whose func text satisfies callee_pred -> (call, {param-or-position: expr text})"""
    for n in sorted((x for x in walk_no_nested(fi.node) if isinstance(x, ast.Call)),
                    key=lambda x: (x.lineno, x.col_offset)):
        if callee_pred(norm(n.func)):
            b = {}
            tg = prog.resolve_callable(fi, n.func)
            params = None
            if tg:
                params = [p for p in tg[0].params if p != "self"]
            for i, a in enumerate(n.args):
                key = params[i] if params and i < len(params) else i
                b[key] = norm(a)
            for k in n.keywords:
                if k.arg:
                    b[k.arg] = norm(k.value)
            return n, b
    return None, {}


def rule_wired(ctx, rule, fi, call_b, param, dest, opts, polarity=None):
    """API parameter `param` is bound to args.<dest>; polarity: None | 'store_true' | 'store_false'"""
    got = call_b.get(param)
    ok = got == f"args.{dest}"
    if dest not in opts:
        ctx.finding(rule, fi.site, f"option for `{param}` (dest {dest}) is not declared", key=param)
        return
    if polarity is not None:
        ok = ok and opts[dest]["action"] == polarity
    ctx.check(ok, rule, fi.site,
              f"option {opts[dest]['flags'][0]} reaches parameter `{param}`" + (f" with action {polarity}" if polarity else ""),
              f"parameter `{param}` is bound to {got!r} (option dest `{dest}`, action {opts[dest]['action']}); "
              f"expected args.{dest}" + (f" with action {polarity}" if polarity else ""),
              key=param, where=loc(fi, opts[dest]["node"]))
