"""E0 — resolved program model of /repo/amr_kitchen (ast + symtable, stdlib only).

Parses every module, indexes functions / classes (with MRO across modules),
resolves import aliases and callees (direct names, self.m() through the MRO,
super().__init__, function-valued attributes, pool workers) and offers the
small AST utilities the engines share.
"""
import ast
import os
import symtable

PKG = "amr_kitchen"
EXCLUDED = {"amr_kitchen/mandoline_bias_cut.py":
            "imports uninstalled meshio/skimage, has no entry point, anchored by no property"}


class AnalysisError(Exception):
    """An obligation cannot be evaluated (vanished anchor, unknown idiom feeding an
    obligation).  Converted to `ANALYSIS-ERROR`, exit 2 — never a silent pass."""

    def __init__(self, rule, site, reason):
        super().__init__(f"rule={rule} site={site} reason={reason}")
        self.rule, self.site, self.reason = rule, site, reason


def norm(node):
    """normalised source text of a node (position/format independent); something that is not a syntax node (a local
    with several bindings looked up in an environment: None, an appended-list marker) has no source text and compares
    unequal to every expected form instead of stopping the check"""
    if not isinstance(node, ast.AST):
        return f"<{type(node).__name__}>"
    return ast.unparse(node)


class FunctionInfo:
    def __init__(self, module, qualname, node, cls=None):
        self.module = module
        self.qualname = qualname
        self.node = node
        self.cls = cls

    @property
    def site(self):
        return f"{self.module.relpath}::{self.qualname}"

    @property
    def params(self):
        a = self.node.args
        return [x.arg for x in a.posonlyargs + a.args + a.kwonlyargs]

    def __repr__(self):
        return f"<fn {self.site}>"


class ClassInfo:
    def __init__(self, module, name, node):
        self.module = module
        self.name = name
        self.node = node
        self.methods = {}
        self.base_names = [norm(b) for b in node.bases]
        self.bases = []  # resolved ClassInfo

    def __repr__(self):
        return f"<class {self.module.relpath}::{self.name}>"


class Module:
    def __init__(self, relpath, modname, src):
        self.relpath = relpath
        self.modname = modname
        self.src = src
        self.tree = ast.parse(src, filename=relpath)
        from . import alpha, canon
        # semantics-preserving canonicalisation: inline functions / locals the reference tree does not have,
        # rename locals back to the reference names (see vk/canon.py, vk/alpha.py)
        imps = canon.normalise_imports(relpath, self.tree)
        consts = imps + canon.inline_new_constants(relpath, self.tree)
        self.idioms = canon.normalise_idioms(self.tree)
        unpassed = canon.default_unpassed_params(relpath, self.tree)
        self.canon, self.canon_refused = canon.canonicalise(relpath, self.tree)
        self.canon = consts + unpassed + list(self.canon)
        self.renames = alpha.normalise(relpath, self.tree)
        more = canon.inline_new_locals(relpath, self.tree)
        if more:
            self.canon += more
            self.renames += alpha.normalise(relpath, self.tree)
            self.idioms += canon.normalise_idioms(self.tree)
        if self.canon:
            self.tree = _renumber(self.tree)
        # shape drift of every function against the reference (statement skeletons, leaves erased)
        self.drift = {}
        _ref = alpha.load_ref().get(relpath) or {}
        for q, fn in alpha.functions_of(self.tree):
            r = _ref.get(q)
            self.drift[q] = alpha.drift(fn, r["skeleton"]) if r and "skeleton" in r else None
        self.imports = {}     # local alias -> fully qualified dotted name
        self.functions = {}   # qualname -> FunctionInfo
        self.classes = {}     # name -> ClassInfo
        self.globals_assigned = {}  # name -> [ast.Assign]
        self._index()

    def _index(self):
        pkgparts = self.modname.split(".")
        is_pkg = self.relpath.endswith("__init__.py")
        for node in self.tree.body:
            if isinstance(node, ast.Import):
                for a in node.names:
                    self.imports[a.asname or a.name.split(".")[0]] = a.name if a.asname else a.name.split(".")[0]
            elif isinstance(node, ast.ImportFrom):
                base = node.module or ""
                if node.level:
                    anchor = pkgparts if is_pkg else pkgparts[:-1]
                    anchor = anchor[:len(anchor) - (node.level - 1)]
                    base = ".".join(anchor + ([node.module] if node.module else []))
                for a in node.names:
                    self.imports[a.asname or a.name] = f"{base}.{a.name}"
            elif isinstance(node, (ast.FunctionDef, ast.AsyncFunctionDef)):
                self.functions[node.name] = FunctionInfo(self, node.name, node)
            elif isinstance(node, ast.ClassDef):
                ci = ClassInfo(self, node.name, node)
                self.classes[node.name] = ci
                for sub in node.body:
                    if isinstance(sub, (ast.FunctionDef, ast.AsyncFunctionDef)):
                        fi = FunctionInfo(self, f"{node.name}.{sub.name}", sub, ci)
                        ci.methods[sub.name] = fi
                        self.functions[fi.qualname] = fi
            elif isinstance(node, (ast.Assign, ast.AnnAssign)):
                tgts = node.targets if isinstance(node, ast.Assign) else [node.target]
                for t in tgts:
                    if isinstance(t, ast.Name):
                        self.globals_assigned.setdefault(t.id, []).append(node)


class Program:
    def __init__(self, repo):
        self.repo = os.path.abspath(repo)
        self.modules = {}      # relpath -> Module
        self.by_modname = {}
        self.excluded = dict(EXCLUDED)
        root = os.path.join(self.repo, PKG)
        if not os.path.isdir(root):
            raise AnalysisError("E0", PKG, f"package directory not found under {repo}")
        # named constants the reference tree does not have, per module (so that `from m import CONST` resolves too)
        from . import canon as _canon
        _canon.EXTERNAL_CONSTS.clear()
        _canon.CALL_FACTS.clear()
        for dp, dn, fn in os.walk(root):
            dn[:] = sorted(d for d in dn if d != "__pycache__")
            for f in sorted(fn):
                if f.endswith(".py"):
                    full = os.path.join(dp, f)
                    rel = os.path.relpath(full, self.repo).replace(os.sep, "/")
                    modname = rel[:-3].replace("/", ".")
                    if modname.endswith(".__init__"):
                        modname = modname[:-9]
                    try:
                        with open(full, encoding="utf-8") as fh:
                            _t = ast.parse(fh.read())
                            _canon.collect_new_constants(rel, modname, _t)
                            _canon.collect_call_facts(_t)
                    except SyntaxError:
                        pass
        for dp, dn, fn in os.walk(root):
            dn[:] = sorted(d for d in dn if d != "__pycache__")
            for f in sorted(fn):
                if not f.endswith(".py"):
                    continue
                full = os.path.join(dp, f)
                rel = os.path.relpath(full, self.repo).replace(os.sep, "/")
                modname = rel[:-3].replace("/", ".")
                if modname.endswith(".__init__"):
                    modname = modname[:-9]
                with open(full, encoding="utf-8") as fh:
                    src = fh.read()
                try:
                    m = Module(rel, modname, src)
                except SyntaxError as e:
                    raise AnalysisError("E0", rel, f"syntax error: {e}")
                self.modules[rel] = m
                self.by_modname[modname] = m
        self._link_classes()
        self._attr_fun_cache = {}

    # -- lookup -------------------------------------------------------------
    def module(self, relpath):
        if relpath not in self.modules:
            raise AnalysisError("E0", relpath, "anchored module no longer exists")
        return self.modules[relpath]

    def func(self, relpath, qualname, rule="E0"):
        m = self.module(relpath)
        if qualname not in m.functions:
            raise AnalysisError(rule, f"{relpath}::{qualname}", "anchored function no longer exists")
        if rule != "E0":
            self.__dict__.setdefault("requested", set()).add((relpath, qualname))
        return m.functions[qualname]

    def has_func(self, relpath, qualname):
        return relpath in self.modules and qualname in self.modules[relpath].functions

    def cls(self, relpath, name):
        m = self.module(relpath)
        if name not in m.classes:
            raise AnalysisError("E0", f"{relpath}::{name}", "anchored class no longer exists")
        return m.classes[name]

    def all_functions(self, include_excluded=False):
        for rel, m in self.modules.items():
            if rel in self.excluded and not include_excluded:
                continue
            for fi in m.functions.values():
                yield fi

    # -- name resolution ------------------------------------------------------
    def resolve_dotted(self, dotted):
        """fully-qualified dotted name -> FunctionInfo | ClassInfo | Module | None"""
        parts = dotted.split(".")
        for i in range(len(parts), 0, -1):
            mn = ".".join(parts[:i])
            if mn in self.by_modname:
                m = self.by_modname[mn]
                rest = parts[i:]
                if not rest:
                    return m
                name = rest[0]
                if len(rest) == 1:
                    if name in m.functions:
                        return m.functions[name]
                    if name in m.classes:
                        return m.classes[name]
                    if name in m.imports:
                        return self.resolve_dotted(m.imports[name])
                    return None
                if len(rest) == 2 and name in m.classes:
                    return self.find_method(m.classes[name], rest[1])
                if name in m.imports:
                    return self.resolve_dotted(m.imports[name] + "." + ".".join(rest[1:]))
                return None
        return None

    def resolve_name(self, module, name):
        """a bare Name used in `module` -> FunctionInfo | ClassInfo | dotted str | None"""
        if name in module.functions:
            return module.functions[name]
        if name in module.classes:
            return module.classes[name]
        if name in module.imports:
            fq = module.imports[name]
            r = self.resolve_dotted(fq)
            return r if r is not None else fq
        return None

    def external_name(self, module, node):
        """dotted external name of an expression like np.fromfile / os.path.join /
        multiprocessing.Pool, with import aliases expanded; None if not a dotted name."""
        parts = []
        n = node
        while isinstance(n, ast.Attribute):
            parts.append(n.attr)
            n = n.value
        if not isinstance(n, ast.Name):
            return None
        head = n.id
        parts.reverse()
        if head in module.imports:
            fq = module.imports[head]
        else:
            fq = head
        return ".".join([fq] + parts)

    def _link_classes(self):
        for m in self.modules.values():
            for ci in m.classes.values():
                for b in ci.base_names:
                    r = self.resolve_name(m, b.split(".")[-1]) if "." not in b else self.resolve_dotted(
                        (m.imports.get(b.split(".")[0], b.split(".")[0])) + "." + ".".join(b.split(".")[1:]))
                    if isinstance(r, ClassInfo):
                        ci.bases.append(r)

    def mro(self, ci):
        out, seen = [], set()

        def walk(c):
            if id(c) in seen:
                return
            seen.add(id(c))
            out.append(c)
            for b in c.bases:
                walk(b)
        walk(ci)
        return out

    def find_method(self, ci, name, after=None):
        chain = self.mro(ci)
        if after is not None:
            chain = chain[chain.index(after) + 1:]
        for c in chain:
            if name in c.methods:
                return c.methods[name]
        return None

    def subclasses(self, ci):
        out = []
        for m in self.modules.values():
            for c in m.classes.values():
                if c is not ci and ci in self.mro(c):
                    out.append(c)
        return out

    # -- function-valued attributes ------------------------------------------
    def attr_functions(self, ci, attr):
        """set of functions ever stored into self.<attr> in the class hierarchy of ci"""
        key = (id(ci), attr)
        if key in self._attr_fun_cache:
            return self._attr_fun_cache[key]
        out = []
        family = set(map(id, self.mro(ci)))
        classes = [c for m in self.modules.values() for c in m.classes.values()
                   if id(c) in family or ci in self.mro(c)]
        for c in classes:
            for fi in c.methods.values():
                for node in ast.walk(fi.node):
                    if isinstance(node, ast.Assign):
                        for t in node.targets:
                            if (isinstance(t, ast.Attribute) and t.attr == attr and
                                    isinstance(t.value, ast.Name) and t.value.id == "self" and
                                    isinstance(node.value, ast.Name)):
                                r = self.resolve_name(c.module, node.value.id)
                                if isinstance(r, FunctionInfo) and r not in out:
                                    out.append(r)
        self._attr_fun_cache[key] = out
        return out

    def resolve_callable(self, fi, node):
        """callee set of an expression used as a callable inside function fi"""
        m = fi.module
        if isinstance(node, ast.Name):
            r = self.resolve_name(m, node.id)
            if isinstance(r, FunctionInfo):
                return [r]
            if isinstance(r, ClassInfo):
                init = self.find_method(r, "__init__")
                return [init] if init else []
            return []
        if isinstance(node, ast.Attribute):
            v = node.value
            if isinstance(v, ast.Name) and v.id == "self" and fi.cls is not None:
                meth = self.find_method(fi.cls, node.attr)
                if meth:
                    out = [meth]
                    # dynamic dispatch: overriding methods in subclasses
                    for sc in self.subclasses(fi.cls):
                        if node.attr in sc.methods and sc.methods[node.attr] not in out:
                            out.append(sc.methods[node.attr])
                    return out
                return list(self.attr_functions(fi.cls, node.attr))
            if (isinstance(v, ast.Call) and isinstance(v.func, ast.Name) and v.func.id == "super"
                    and fi.cls is not None):
                meth = self.find_method(fi.cls, node.attr, after=fi.cls)
                return [meth] if meth else []
            ext = self.external_name(m, node)
            if ext:
                r = self.resolve_dotted(ext)
                if isinstance(r, FunctionInfo):
                    return [r]
                if isinstance(r, ClassInfo):
                    init = self.find_method(r, "__init__")
                    return [init] if init else []
            # obj.method() on a non-self object: resolve when the method name is defined by exactly one
            # class family of the package (pck1.by_binfile_output, pck.make_dir_tree ...)
            if isinstance(v, ast.Name) and v.id not in m.imports and not node.attr.startswith("__"):
                owners = [c for mm in self.modules.values() if mm.relpath not in self.excluded
                          for c in mm.classes.values() if node.attr in c.methods]
                if len(owners) == 1:
                    return [owners[0].methods[node.attr]]
        return []

    # -- call graph -------------------------------------------------------------
    def callees(self, fi):
        """[(call node, [FunctionInfo], kind)] kind in direct|pool|serial-map"""
        out = []
        for node in ast.walk(fi.node):
            if not isinstance(node, ast.Call):
                continue
            tg = self.resolve_callable(fi, node.func)
            if tg:
                out.append((node, tg, "direct"))
            # worker functions passed to pool primitives / builtin map
            fname = node.func.attr if isinstance(node.func, ast.Attribute) else (
                node.func.id if isinstance(node.func, ast.Name) else None)
            if fname in POOL_PRIMS or (fname == "map" and isinstance(node.func, ast.Name)):
                if node.args:
                    w = self.resolve_callable(fi, node.args[0])
                    if w:
                        out.append((node, w, "pool" if fname in POOL_PRIMS and isinstance(node.func, ast.Attribute)
                                    else "serial-map"))
        return out

    def reachable(self, roots):
        seen, stack = [], list(roots)
        ids = set()
        while stack:
            f = stack.pop()
            if id(f) in ids:
                continue
            ids.add(id(f))
            seen.append(f)
            for _, tg, _ in self.callees(f):
                stack.extend(tg)
        return seen

    def stats(self):
        nf = sum(len(m.functions) for m in self.modules.values())
        nc = sum(len(m.classes) for m in self.modules.values())
        rn = sum(len(m.renames) for m in self.modules.values())
        cn = sum(len(m.canon) for m in self.modules.values())
        return {"modules": len(self.modules), "functions": nf, "classes": nc,
                "excluded": sorted(self.excluded), "locals_alpha_normalised": rn,
                "inline_rewrites": cn}


POOL_PRIMS = {"map", "imap", "imap_unordered", "uimap", "amap", "map_async", "starmap",
              "apply_async", "apply"}

# ---------------------------------------------------------------------------
# shared AST helpers
# ---------------------------------------------------------------------------


def walk_no_nested(node):
    """pre-order (source order) walk of a function body without descending into nested function/class defs"""
    for c in ast.iter_child_nodes(node):
        yield c
        if isinstance(c, (ast.FunctionDef, ast.AsyncFunctionDef, ast.ClassDef, ast.Lambda)):
            continue
        yield from walk_no_nested(c)


def calls_in(node, pred=None):
    out = []
    for n in ast.walk(node):
        if isinstance(n, ast.Call) and (pred is None or pred(n)):
            out.append(n)
    out.sort(key=lambda n: (n.lineno, n.col_offset))
    return out


def call_name(call):
    f = call.func
    if isinstance(f, ast.Attribute):
        return f.attr
    if isinstance(f, ast.Name):
        return f.id
    return None


def const_str(node):
    if isinstance(node, ast.Constant) and isinstance(node.value, str):
        return node.value
    return None


def parents(root):
    """child -> parent map"""
    p = {}
    for n in ast.walk(root):
        for c in ast.iter_child_nodes(n):
            p[c] = n
    return p


def enclosing(node, pmap, types):
    n = pmap.get(node)
    while n is not None:
        if isinstance(n, types):
            return n
        n = pmap.get(n)
    return None


def ancestors(node, pmap):
    n = pmap.get(node)
    while n is not None:
        yield n
        n = pmap.get(n)


def stmt_of(node, pmap):
    n = node
    while n is not None and not isinstance(n, ast.stmt):
        n = pmap.get(n)
    return n


def assigned_names(target):
    out = []
    for n in ast.walk(target):
        if isinstance(n, ast.Name):
            out.append(n.id)
    return out


def loc(fi, node):
    return f"{fi.module.relpath}:{getattr(node, '_src_line', getattr(node, 'lineno', '?'))}"


def _renumber(tree):
    """after inlining, statements carry the line numbers of the place they were copied from, so `lineno` is no
    longer monotonic in execution order.  Re-parse the unparsed tree (fresh, monotonic positions) and remember the
    line of the file on disk in `_src_line` for reports."""
    try:
        new = ast.parse(ast.unparse(tree))
    except Exception:
        return tree
    a, b = list(ast.walk(tree)), list(ast.walk(new))
    if len(a) != len(b) or any(type(x) is not type(y) for x, y in zip(a, b)):
        return tree
    for x, y in zip(a, b):
        if hasattr(x, "lineno"):
            y._src_line = getattr(x, "_src_line", x.lineno)
    return new


def undefined_names(prog, fi):
    """U1: names loaded in fi that bind nowhere (local, enclosing, module, builtins)."""
    import builtins
    m = fi.module
    modnames = set(m.imports) | set(m.functions) | set(m.classes) | set(m.globals_assigned)
    for n in m.tree.body:
        if isinstance(n, (ast.For, ast.With, ast.If, ast.Try)):
            for s in ast.walk(n):
                if isinstance(s, ast.Name) and isinstance(s.ctx, ast.Store):
                    modnames.add(s.id)
    # names declared global in any function and assigned there
    for f in m.functions.values():
        for n in ast.walk(f.node):
            if isinstance(n, ast.Global):
                modnames.update(n.names)
    local = set(fi.params)
    a = fi.node.args
    if a.vararg:
        local.add(a.vararg.arg)
    if a.kwarg:
        local.add(a.kwarg.arg)
    for n in ast.walk(fi.node):
        if isinstance(n, ast.Name) and isinstance(n.ctx, (ast.Store, ast.Del)):
            local.add(n.id)
        elif isinstance(n, (ast.FunctionDef, ast.ClassDef)) and n is not fi.node:
            local.add(n.name)
        elif isinstance(n, ast.ExceptHandler) and n.name:
            local.add(n.name)
        elif isinstance(n, (ast.Import, ast.ImportFrom)):
            for al in n.names:
                local.add((al.asname or al.name).split(".")[0])
        elif isinstance(n, ast.arg):
            local.add(n.arg)
    out = []
    for n in ast.walk(fi.node):
        if isinstance(n, ast.Name) and isinstance(n.ctx, ast.Load):
            if n.id in local or n.id in modnames or hasattr(builtins, n.id):
                continue
            out.append(n)
    out.sort(key=lambda n: (n.lineno, n.col_offset))
    return out


def self_attrs_assigned(prog, ci):
    """all attribute names stored through self.<a> (or class-level names) anywhere in the MRO"""
    names = set()
    for c in prog.mro(ci):
        for n in c.node.body:
            if isinstance(n, ast.Assign):
                for t in n.targets:
                    names.update(assigned_names(t))
        for fi in c.methods.values():
            names.add(fi.node.name)
            for n in ast.walk(fi.node):
                if (isinstance(n, ast.Attribute) and isinstance(n.ctx, ast.Store)
                        and isinstance(n.value, ast.Name) and n.value.id == "self"):
                    names.add(n.attr)
                # tuple-unpacking store with subscripts like self.boxes[lv][...] does not define
    return names


def symtable_free_globals(fi):
    """names the function body treats as global (symtable), used by pool purity"""
    try:
        st = symtable.symtable(fi.module.src, fi.module.relpath, "exec")
    except SyntaxError:
        return set()

    def find(tab, parts):
        for ch in tab.get_children():
            if ch.get_name() == parts[0]:
                if len(parts) == 1:
                    return ch
                return find(ch, parts[1:])
        return None
    tab = find(st, fi.qualname.split("."))
    if tab is None:
        return set()
    return {s.get_name() for s in tab.get_symbols() if s.is_global()}
