"""Alpha-normalisation of local variable names.

Many rules locate a construct by the local name the pinned tree uses (`x_start`, `box_index_map`, …).  A pure
rename of locals is behaviour-preserving and must not disturb them.  Before analysis every function's locals are
therefore mapped back to the names recorded for the reference tree (vk/refnames.json, written by
tools/gen_refnames.py) whenever their *definitional/usage signature* — the normalised text of every binding and
use of the variable with all other locals replaced by their own (depth-bounded) signatures — matches the recorded
signature of a reference name that no longer occurs in the function.  Names that still exist are never touched;
a variable whose definition or uses changed has a different signature and is left alone, so a semantic edit is
never hidden by this step.  The reference file is used for this renaming only, never to decide a property.
"""
import ast
import builtins
import hashlib
import json
import os

REF = os.path.join(os.path.dirname(os.path.abspath(__file__)), "refnames.json")
DEPTH = 3


def _h(s):
    return hashlib.sha1(s.encode()).hexdigest()[:12]


def function_locals(fn, modglobals):
    params = [a.arg for a in fn.args.posonlyargs + fn.args.args + fn.args.kwonlyargs]
    if fn.args.vararg:
        params.append(fn.args.vararg.arg)
    if fn.args.kwarg:
        params.append(fn.args.kwarg.arg)
    declared = set()
    for s in ast.walk(fn):
        if isinstance(s, (ast.Global, ast.Nonlocal)):
            declared.update(s.names)
    local = set()
    for s in ast.walk(fn):
        if isinstance(s, ast.Name) and isinstance(s.ctx, (ast.Store, ast.Del)):
            local.add(s.id)
        elif isinstance(s, ast.ExceptHandler) and s.name:
            local.add(s.name)
        elif isinstance(s, (ast.FunctionDef, ast.Lambda)) and s is not fn:
            a = s.args
            for x in a.posonlyargs + a.args + a.kwonlyargs:
                local.discard(x.arg)
    local -= set(params) | declared | set(modglobals) | set(dir(builtins)) | {"self", "_"}
    return params, local


class _Sub(ast.NodeTransformer):
    def __init__(self, table, me):
        self.table, self.me = table, me

    def visit_Name(self, n):
        if n.id == self.me:
            return ast.copy_location(ast.Name(id="__ME__", ctx=ast.Load()), n)
        if n.id in self.table:
            return ast.copy_location(ast.Name(id="L_" + self.table[n.id], ctx=ast.Load()), n)
        return ast.copy_location(ast.Name(id=n.id, ctx=ast.Load()), n)

    def visit_ExceptHandler(self, n):
        self.generic_visit(n)
        if n.name == self.me:
            n.name = "__ME__"
        elif n.name in self.table:
            n.name = "L_" + self.table[n.name]
        return n


def _stmts_mentioning(fn, name):
    """innermost simple statements (or compound-statement headers) that mention the name"""
    out = []

    def header(s):
        if isinstance(s, (ast.For, ast.AsyncFor)):
            return ast.Tuple(elts=[s.target, s.iter], ctx=ast.Load())
        if isinstance(s, (ast.If, ast.While)):
            return s.test
        if isinstance(s, (ast.With, ast.AsyncWith)):
            return ast.Tuple(elts=[x for i in s.items for x in ([i.context_expr] + ([i.optional_vars] if i.optional_vars else []))],
                             ctx=ast.Load())
        if isinstance(s, ast.Try):
            return ast.Tuple(elts=[h.type for h in s.handlers if h.type is not None], ctx=ast.Load())
        return None

    def mentions(node):
        for x in ast.walk(node):
            if isinstance(x, ast.Name) and x.id == name:
                return True
            if isinstance(x, ast.ExceptHandler) and x.name == name:
                return True
        return False

    def walk(stmts):
        for s in stmts:
            if isinstance(s, (ast.FunctionDef, ast.ClassDef)):
                if mentions(s):
                    out.append(s)
                continue
            hd = header(s)
            if hd is not None:
                if mentions(hd):
                    out.append((type(s).__name__, hd))
                for fld in ("body", "orelse", "finalbody"):
                    walk(getattr(s, fld, []) or [])
                for h in getattr(s, "handlers", []) or []:
                    if h.name == name:
                        out.append(("except", h.type or ast.Constant(None)))
                    walk(h.body)
            else:
                if mentions(s):
                    out.append(s)
    walk(fn.body)
    return out


def signatures(fn, modglobals):
    """{local: signature} — name-independent description of how each local is bound and used"""
    params, local = function_locals(fn, modglobals)
    names = sorted(local)
    mention = {n: _stmts_mentioning(fn, n) for n in names}
    table = {n: "0" for n in names}
    for _ in range(DEPTH):
        new = {}
        for n in names:
            parts = []
            for m in mention[n]:
                tag = ""
                node = m
                if isinstance(m, tuple):
                    tag, node = m
                t = _Sub(table, n).visit(_copy(node))
                ast.fix_missing_locations(t)
                try:
                    parts.append(tag + ":" + ast.unparse(t))
                except Exception:
                    parts.append(tag + ":" + ast.dump(t))
            new[n] = _h("|".join(sorted(parts)))
        table = new
    return params, table


def shapes(fn, modglobals):
    """{local: sorted list of depth-0 statement shapes}: every statement mentioning the local, the local itself
    written __ME__ and every other local written L.  Used for similarity matching when exact signatures differ
    because a neighbouring statement was edited."""
    params, local = function_locals(fn, modglobals)
    out = {}
    for n in sorted(local):
        parts = []
        table = {m: "" for m in local}
        for m in _stmts_mentioning(fn, n):
            tag, node = ("", m)
            if isinstance(m, tuple):
                tag, node = m
            t = _Sub(table, n).visit(_copy(node))
            ast.fix_missing_locations(t)
            try:
                parts.append(tag + ":" + ast.unparse(t))
            except Exception:
                parts.append(tag + ":" + ast.dump(t))
        out[n] = sorted(parts)
    return out


def _similarity(a, b):
    """multiset Jaccard of two shape lists"""
    from collections import Counter
    ca, cb = Counter(a), Counter(b)
    inter = sum((ca & cb).values())
    union = sum((ca | cb).values())
    return inter / union if union else 0.0


def _copy(node):
    import copy
    return copy.deepcopy(node)


def module_globals(tree):
    g = set()
    for n in tree.body:
        for s in ast.walk(n):
            if isinstance(s, (ast.Import, ast.ImportFrom)):
                for a in s.names:
                    g.add((a.asname or a.name).split(".")[0])
        if isinstance(n, (ast.FunctionDef, ast.ClassDef)):
            g.add(n.name)
        if isinstance(n, (ast.Assign, ast.AnnAssign)):
            for t in (n.targets if isinstance(n, ast.Assign) else [n.target]):
                for x in ast.walk(t):
                    if isinstance(x, ast.Name):
                        g.add(x.id)
    return g


def functions_of(tree):
    for n in tree.body:
        if isinstance(n, ast.FunctionDef):
            yield n.name, n
        elif isinstance(n, ast.ClassDef):
            for m in n.body:
                if isinstance(m, ast.FunctionDef):
                    yield f"{n.name}.{m.name}", m


def reference_for(tree):
    g = module_globals(tree)
    out = {}
    for q, fn in functions_of(tree):
        params, sig = signatures(fn, g)
        out[q] = {"params": params, "locals": sig, "order": first_occurrence_order(fn, sig),
                  "shapes": shapes(fn, g)}
    return out


def first_occurrence_order(fn, names):
    seen = []
    for n in sorted((x for x in ast.walk(fn) if isinstance(x, ast.Name) and x.id in names),
                    key=lambda x: (x.lineno, x.col_offset)):
        if n.id not in seen:
            seen.append(n.id)
    for n in names:
        if n not in seen:
            seen.append(n)
    return seen


class _Rename(ast.NodeTransformer):
    def __init__(self, mapping):
        self.m = mapping

    def visit_Name(self, n):
        if n.id in self.m:
            n.id = self.m[n.id]
        return n

    def visit_ExceptHandler(self, n):
        self.generic_visit(n)
        if n.name in self.m:
            n.name = self.m[n.name]
        return n

    def visit_arg(self, n):
        if n.arg in self.m:
            n.arg = self.m[n.arg]
        return n


_REFCACHE = None


def load_ref():
    global _REFCACHE
    if _REFCACHE is None:
        try:
            with open(REF) as fh:
                _REFCACHE = json.load(fh)
        except OSError:
            _REFCACHE = {}
    return _REFCACHE


def normalise(relpath, tree):
    """rename locals (and single worker parameters) of every function of `tree` back to the reference names;
    returns the list of applied renames [(qualname, current, reference)]"""
    ref = load_ref().get(relpath)
    applied = []
    if not ref:
        return applied
    g = module_globals(tree)
    for q, fn in functions_of(tree):
        r = ref.get(q)
        if r is None:
            continue
        params, sig = signatures(fn, g)
        mapping = {}
        # a single (worker) parameter is mapped positionally
        if len(params) == 1 and len(r["params"]) == 1 and params[0] != r["params"][0] and params[0] != "self" \
                and r["params"][0] not in sig:
            mapping[params[0]] = r["params"][0]
        cur_only = [n for n in sig if n not in r["locals"]]
        ref_only = {n: s for n, s in r["locals"].items() if n not in sig}
        by_sig = {}
        for n, s in ref_only.items():
            by_sig.setdefault(s, []).append(n)
        cur_by_sig = {}
        for n in cur_only:
            cur_by_sig.setdefault(sig[n], []).append(n)
        if mapping:
            # signatures were computed with the parameter under its current name; recompute after renaming it
            _Rename(dict(mapping)).visit(fn)
            params, sig = signatures(fn, g)
            cur_only = [n for n in sig if n not in r["locals"]]
            cur_by_sig = {}
            for n in cur_only:
                cur_by_sig.setdefault(sig[n], []).append(n)
            for a, b in mapping.items():
                applied.append((q, a, b))
            mapping = {}
        cur_order = first_occurrence_order(fn, sig)
        ref_order = r.get("order", sorted(r["locals"]))
        for s, cands in cur_by_sig.items():
            refs = by_sig.get(s, [])
            if len(cands) == len(refs) and cands:
                # structurally symmetric variables (mins/maxs): pair them in order of first occurrence
                cs = sorted(cands, key=cur_order.index)
                rs = sorted(refs, key=ref_order.index)
                for a, b in zip(cs, rs):
                    mapping[a] = b
        # similarity matching for what exact signatures left over (any consistent renaming of a local to a name
        # the function does not use is behaviour-preserving; the match quality only affects recognition)
        left_cur = [n for n in cur_only if n not in mapping]
        left_ref = [n for n in ref_only if n not in mapping.values()]
        if left_cur and left_ref and r.get("shapes"):
            cshape = shapes(fn, g)
            scored = []
            for a in left_cur:
                for b in left_ref:
                    sc = _similarity(cshape.get(a, []), r["shapes"].get(b, []))
                    if sc >= 0.3:
                        scored.append((sc, -abs(cur_order.index(a) - ref_order.index(b)) if b in ref_order else 0, a, b))
            scored.sort(reverse=True)
            used_a, used_b = set(), set()
            for sc, _, a, b in scored:
                if a in used_a or b in used_b:
                    continue
                used_a.add(a)
                used_b.add(b)
                mapping[a] = b
        if mapping:
            _Rename(mapping).visit(fn)
            for a, b in mapping.items():
                applied.append((q, a, b))
    return applied


# ---------------------------------------------------------------------------------------------------------------
# statement skeletons: the shape of a function with every leaf (names, constants, attribute names, operators, keyword
# names) erased.  A function whose skeleton multiset equals the reference's differs from it in leaves only.
def _skel(n):
    if isinstance(n, ast.Name):
        return "N"
    if isinstance(n, ast.Constant):
        return "K"
    if isinstance(n, ast.Attribute):
        return "A(" + _skel(n.value) + ")"
    if isinstance(n, (ast.operator, ast.cmpop, ast.unaryop, ast.boolop, ast.expr_context)):
        return ""
    if isinstance(n, ast.keyword):
        return "kw(" + _skel(n.value) + ")"
    parts = []
    for f, v in ast.iter_fields(n):
        if f in ("body", "orelse", "finalbody", "handlers", "cases") and isinstance(n, ast.stmt):
            parts.append(f + ("+" if v else "-"))
            continue
        if isinstance(v, ast.AST):
            s = _skel(v)
            if s:
                parts.append(s)
        elif isinstance(v, list):
            parts.append("[" + ",".join(_skel(x) for x in v if isinstance(x, ast.AST)) + "]")
    return type(n).__name__ + "(" + ",".join(parts) + ")"


def skeleton(fn):
    """sorted list with the *kind* of every statement of the function (Assign, For, If, With, Return ...; nested
    definitions excluded); docstrings and bare-string statements, `pass` and print(...) statements are not part of
    the shape.  Editing expressions keeps it; adding, removing, splitting or merging statements changes it."""
    import hashlib
    out = []

    def walk(stmts):
        for s in stmts:
            if isinstance(s, (ast.FunctionDef, ast.AsyncFunctionDef, ast.ClassDef)):
                continue
            if isinstance(s, ast.Pass):
                continue
            if isinstance(s, ast.Expr) and isinstance(s.value, ast.Constant):
                continue
            if isinstance(s, ast.Expr) and isinstance(s.value, ast.Call) and isinstance(s.value.func, ast.Name) \
                    and s.value.func.id == "print":
                continue
            out.append(type(s).__name__)
            for f in ("body", "orelse", "finalbody"):
                b = getattr(s, f, None)
                if isinstance(b, list):
                    walk(b)
            for h in getattr(s, "handlers", []) or []:
                walk(h.body)
    walk(fn.body)
    return sorted(out)


def drift(fn, ref_skeleton):
    """number of statements of fn without a same-shaped counterpart in the reference plus the reverse"""
    from collections import Counter
    a, b = Counter(skeleton(fn)), Counter(ref_skeleton)
    return sum(((a - b) + (b - a)).values())
