"""NEW-GUARD: the conditions under which each *effect* of an anchored function runs.

For every function the table `vk/refeffects.json` (written by tools/gen_refeffects.py from the confirmed tree, through
the same canonicalisation pipeline as every analysed tree) records, per effect statement (a store through a subscript
or an attribute, a call statement that is not a message, a `return <value>`), the *path condition* under which it
runs: the tests of the enclosing `if` / `while` statements plus the negated tests of every earlier statement of the
enclosing blocks that leaves the block silently (`continue`, `break`, `return`; `raise` is a refusal, not a silent
skip).  Loop headers are not conditions.

Rule: an effect that still exists (same normal text, unique in the function, in both trees) runs under *no more*
conjuncts than in the confirmed tree.  A new conjunct means: for some inputs this element is now skipped - the box is
not compared, the level is not written, the file is not walked, the fine data is not pasted - while everything the
other rules look at (the statement itself, its window, its formula) is untouched.  Only the *count* of unmatched
conjuncts is compared, so re-spelling an existing guard cannot fire; splitting `a and b` into nested ifs cannot either
(conjunctions are flattened).  Guards that only test the emptiness of something the skipped code iterates are neutral.
"""
import ast
import json
import os

from .model import norm, loc
from . import rules

REF = os.path.join(os.path.dirname(os.path.abspath(__file__)), "refeffects.json")
_CACHE = None


def load_ref():
    global _CACHE
    if _CACHE is None:
        try:
            with open(REF) as fh:
                _CACHE = json.load(fh)
        except OSError:
            _CACHE = {}
    return _CACHE


def _negate(test):
    from .canon import negate
    return negate(test)


def _conj_texts(test):
    out = []
    for c in rules.conjuncts(test):
        # not (a or b)  ==  not a and not b
        if isinstance(c, ast.UnaryOp) and isinstance(c.op, ast.Not):
            ds = rules.disjuncts(c.operand)
            if len(ds) > 1:
                out += [norm(_negate(d)) for d in ds]
                continue
            # double negation
            if isinstance(c.operand, ast.UnaryOp) and isinstance(c.operand.op, ast.Not):
                out += _conj_texts(c.operand.operand)
                continue
        out.append(norm(c))
    return out


def _silent_leave(stmts):
    """the block always leaves by continue / break / return (messages allowed before), never by raise only"""
    eff = rules.effective(stmts)
    if not eff:
        return False
    last = eff[-1]
    if isinstance(last, (ast.Continue, ast.Break)):
        return True
    if isinstance(last, ast.Return):
        return True
    if isinstance(last, ast.If) and last.orelse:
        return _silent_leave(last.body) and _silent_leave(last.orelse)
    return False


def _is_effect(s):
    if isinstance(s, ast.Assign):
        return any(isinstance(t, (ast.Subscript, ast.Attribute)) for t in s.targets)
    if isinstance(s, ast.AugAssign):
        return True
    if isinstance(s, ast.Expr):
        return isinstance(s.value, (ast.Call, ast.Yield, ast.YieldFrom, ast.Await)) and not rules.is_noise(s)
    if isinstance(s, ast.Return):
        return s.value is not None and not (isinstance(s.value, ast.Constant) and s.value.value is None)
    return False


def effects(fn):
    """[(statement text, [conjunct texts], node)] for every effect statement of fn (nested defs excluded)"""
    out = []

    def block(stmts, conds):
        """returns the conjuncts added by silent leaves of this block (they hold for what follows the block's owner
        when the owner is a `with` / `try`)"""
        added = []
        for s in stmts:
            here = conds + added
            if isinstance(s, (ast.FunctionDef, ast.AsyncFunctionDef, ast.ClassDef)):
                continue
            if isinstance(s, ast.If):
                tc = _conj_texts(s.test)
                nc = _conj_texts(_negate(s.test))
                block(s.body, here + tc)
                block(s.orelse, here + nc)
                if _silent_leave(s.body) and not _silent_leave(s.orelse):
                    added += nc
                elif s.orelse and _silent_leave(s.orelse) and not _silent_leave(s.body):
                    added += tc
                continue
            if isinstance(s, (ast.For, ast.AsyncFor)):
                block(s.body, here)
                # the else clause of a loop runs only when the loop was not left by `break`: an implicit condition
                block(s.orelse, here + ["<loop not left by break>"])
                continue
            if isinstance(s, ast.While):
                wc = [] if (isinstance(s.test, ast.Constant) and s.test.value) else _conj_texts(s.test)
                block(s.body, here + wc)
                block(s.orelse, here + ["<loop not left by break>"])
                continue
            if isinstance(s, (ast.With, ast.AsyncWith)):
                added += block(s.body, here)
                continue
            if isinstance(s, ast.Try):
                # what runs inside a guarded body runs "unless an earlier statement of it raised": an implicit
                # condition (a try/except KeyError rewritten as a membership test trades it for an explicit one)
                a = block(s.body, here + (["<no exception in the guarded body>"] if s.handlers else []))
                for h in s.handlers:
                    block(h.body, here + ["<except>"])
                block(s.orelse, here + a)
                block(s.finalbody, here)
                added += a
                continue
            if _is_effect(s):
                out.append((norm(s), list(here), s))
        return added

    block(fn.body, [])
    return out


def table(fn):
    """{(statement text, k): (sorted conjuncts, node)}: k-th occurrence of the text in the function, in source order"""
    seen = {}
    for text, conds, node in effects(fn):
        seen.setdefault(text, []).append((conds, node))
    out = {}
    for t, v in seen.items():
        for k, (conds, node) in enumerate(v):
            out[f"{t} #{k}/{len(v)}"] = (sorted(conds), node)
    return out


def _names(text):
    try:
        return {n.id for n in ast.walk(ast.parse(text, mode="eval")) if isinstance(n, ast.Name)} | \
               {norm(n) for n in ast.walk(ast.parse(text, mode="eval")) if isinstance(n, ast.Attribute)}
    except SyntaxError:
        return set()


def _emptiness_guard(cond, stmt_node, fn):
    """`len(X) > 0`, `X`, `len(X) != 0`, `X.size` ... where the guarded statement (or the loop it sits in) iterates X
    or is a call that receives X: skipping work on nothing is neutral"""
    try:
        t = ast.parse(cond, mode="eval").body
    except SyntaxError:
        return False
    subj = None
    if isinstance(t, ast.Compare) and len(t.ops) == 1 and isinstance(t.comparators[0], ast.Constant) \
            and t.comparators[0].value == 0 and isinstance(t.ops[0], (ast.Gt, ast.NotEq)):
        t = t.left
    if isinstance(t, ast.Call) and norm(t.func) == "len" and len(t.args) == 1:
        subj = norm(t.args[0])
    elif isinstance(t, ast.Attribute) and t.attr == "size":
        subj = norm(t.value)
    elif isinstance(t, (ast.Name, ast.Attribute)):
        subj = norm(t)
    if subj is None:
        return False
    # the subject must be something the statement consumes as a whole sequence: an argument of the call, the iterable
    # of a comprehension in the statement, or the iterable of an enclosing loop
    for n in ast.walk(stmt_node):
        if isinstance(n, ast.comprehension) and norm(n.iter) == subj:
            return True
    for n in ast.walk(stmt_node):
        if isinstance(n, ast.Call):
            if any(norm(a) == subj for a in n.args) or any(norm(k.value) == subj for k in n.keywords):
                return True
    from .model import parents
    pm = parents(fn)
    p = pm.get(stmt_node)
    while p is not None:
        if isinstance(p, ast.For) and subj in {norm(x) for x in ast.walk(p.iter) if isinstance(x, (ast.Name, ast.Attribute))}:
            return True
        p = pm.get(p)
    return False


def _implied(cond, others):
    """the conjunct follows from another conjunct of the same path condition (`len(X) == 1` gives `len(X) != 0`)"""
    try:
        t = ast.parse(cond, mode="eval").body
    except SyntaxError:
        return False
    subj = None
    if isinstance(t, ast.Compare) and len(t.ops) == 1 and isinstance(t.comparators[0], ast.Constant) \
            and t.comparators[0].value == 0 and isinstance(t.ops[0], (ast.Gt, ast.NotEq)) \
            and isinstance(t.left, ast.Call) and norm(t.left.func) == "len" and len(t.left.args) == 1:
        subj = norm(t.left.args[0])
    elif isinstance(t, (ast.Name, ast.Attribute)):
        subj = norm(t)
    if subj is None:
        return False
    for o in others:
        try:
            u = ast.parse(o, mode="eval").body
        except SyntaxError:
            continue
        if isinstance(u, ast.Compare) and len(u.ops) == 1 and isinstance(u.left, ast.Call) and norm(u.left.func) == "len" \
                and len(u.left.args) == 1 and norm(u.left.args[0]) == subj and isinstance(u.comparators[0], ast.Constant) \
                and isinstance(u.comparators[0].value, int):
            k = u.comparators[0].value
            if (isinstance(u.ops[0], ast.Eq) and k >= 1) or (isinstance(u.ops[0], ast.Gt) and k >= 0) or \
                    (isinstance(u.ops[0], ast.GtE) and k >= 1):
                return True
    return False


def _guard_nodes(cond, fn):
    """the `if` statements of fn one of whose branch conditions carries the conjunct `cond`"""
    out = []
    from .model import walk_no_nested
    for n in walk_no_nested(fn):
        if isinstance(n, ast.If):
            if cond in _conj_texts(n.test):
                out.append((n, "body"))
            if cond in _conj_texts(_negate(n.test)):
                out.append((n, "orelse"))
    return out


def _eof_idiom(cond, stmt_node, fn):
    """`if not h: break` right after `h = f.readline()` inside a scan whose `except` already ends the loop on any
    failure: an empty line is end of file, where parsing the header fails and the handler leaves the same way"""
    try:
        t = ast.parse(cond, mode="eval").body
    except SyntaxError:
        return False
    if isinstance(t, ast.Compare) and len(t.ops) == 1 and isinstance(t.ops[0], ast.NotEq) and \
            isinstance(t.comparators[0], ast.Constant) and t.comparators[0].value in ("", b""):
        t = t.left
    if not isinstance(t, ast.Name):
        return False
    from .model import parents, walk_no_nested
    reads = [a for a in walk_no_nested(fn) if isinstance(a, ast.Assign) and any(isinstance(x, ast.Name) and x.id == t.id for x in a.targets)
             and any(isinstance(c, ast.Call) and isinstance(c.func, ast.Attribute) and c.func.attr == "readline" for c in ast.walk(a.value))]
    if not reads:
        return False
    pm = parents(fn)
    for g, side in _guard_nodes(cond, fn):
        # the guard whose *other* side leaves by break
        leave = g.body if side == "orelse" else g.orelse
        eff = rules.effective(leave)
        if not (eff and isinstance(eff[-1], ast.Break)):
            continue
        p = pm.get(g)
        while p is not None and not isinstance(p, (ast.For, ast.While)):
            if isinstance(p, ast.Try) and any(x is g for b in p.body for x in ast.walk(b)):
                for h in p.handlers:
                    he = rules.effective(h.body)
                    if he and isinstance(he[-1], ast.Break) and (h.type is None or norm(h.type) in ("Exception", "BaseException")):
                        return True
            p = pm.get(p)
    return False


def _seek_zero(cond, stmt_node, fn):
    """`if off != 0: f.seek(off)` as the first thing done with a freshly opened handle: seeking to 0 there is a no-op"""
    if not (isinstance(stmt_node, ast.Expr) and isinstance(stmt_node.value, ast.Call) and isinstance(stmt_node.value.func, ast.Attribute)
            and stmt_node.value.func.attr == "seek" and len(stmt_node.value.args) == 1 and not stmt_node.value.keywords):
        return False
    arg = norm(stmt_node.value.args[0])
    if cond not in (f"{arg} != 0", f"{arg} > 0", arg):
        return False
    h = norm(stmt_node.value.func.value)
    from .model import parents
    pm = parents(fn)
    g = pm.get(stmt_node)
    if not isinstance(g, ast.If):
        return False
    w = pm.get(g)
    return isinstance(w, ast.With) and w.body and w.body[0] is g and any(
        isinstance(i.optional_vars, ast.Name) and i.optional_vars.id == h and isinstance(i.context_expr, ast.Call)
        and norm(i.context_expr.func) == "open" for i in w.items)


def _root(t):
    while isinstance(t, (ast.Subscript, ast.Attribute)) and not (isinstance(t, ast.Attribute) and isinstance(t.value, ast.Name)
                                                                   and t.value.id == "self"):
        t = t.value
    return norm(t)


def _handled_in_sibling(cond, stmt_node, fn):
    """the new condition selects between two branches that both store to the same object (a fast path next to the
    general code): the element is not skipped but handled elsewhere - which branch is right is for the formula /
    window rules of that code, not for this rule"""
    if isinstance(stmt_node, ast.Expr) and isinstance(stmt_node.value, ast.Call) and isinstance(stmt_node.value.func, ast.Attribute):
        # a call statement: the sibling branch calls the same method of the same receiver (bf.write(..) both ways)
        fn_text = norm(stmt_node.value.func)
        for g, side in _guard_nodes(cond, fn):
            other = g.orelse if side == "body" else g.body
            if any(isinstance(x, ast.Call) and norm(x.func) == fn_text for s in other for x in ast.walk(s)):
                return True
        return False
    if not isinstance(stmt_node, (ast.Assign, ast.AugAssign)):
        return False
    tg = stmt_node.targets[0] if isinstance(stmt_node, ast.Assign) else stmt_node.target
    root = _root(tg)
    for g, side in _guard_nodes(cond, fn):
        other = g.orelse if side == "body" else g.body
        if not other:
            continue
        for s in other:
            for x in ast.walk(s):
                if isinstance(x, (ast.Assign, ast.AugAssign)):
                    for t in (x.targets if isinstance(x, ast.Assign) else [x.target]):
                        if _root(t) == root:
                            return True
    # if / elif ladders: the sibling may sit in an enclosing if's other side
    return False


def rule_new_guard(ctx, prefix, fi):
    ref = load_ref().get(fi.module.relpath, {}).get(fi.qualname)
    if ref is None:
        return
    cur = table(fi.node)
    compared = 0
    bad = []
    for text, (conds, node) in cur.items():
        if text not in ref:
            continue
        compared += 1
        rc = list(ref[text])
        new = []
        for c in conds:
            if c in rc:
                rc.remove(c)
            else:
                new.append(c)
        if len(new) > len(rc):
            new = [c for c in new if not _emptiness_guard(c, node, fi.node) and not _implied(c, [x for x in conds if x != c])
                   and not _eof_idiom(c, node, fi.node) and not _handled_in_sibling(c, node, fi.node)
                   and not _seek_zero(c, node, fi.node)]
            if len(new) > len(rc):
                bad.append((node, text, new, rc))
    if not compared:
        return
    # one report per distinct set of new conjuncts (a new guard in front of a block shows on every effect of the block)
    groups = {}
    for node, text, new, rc in bad:
        groups.setdefault(tuple(new), []).append((node, text, rc))
    if not groups:
        ctx.ok(f"{prefix}.NEW-GUARD", fi.site,
               f"{compared} effect statements run under no more conditions than in the confirmed tree", "new-guard")
        return
    for new, items in sorted(groups.items()):
        node, text, rc = items[0]
        was = f" (the confirmed tree runs it under: {' and '.join(rc) or 'no condition'}; unmatched there)" if rc else ""
        text = text.rsplit(" #", 1)[0]
        ctx.finding(f"{prefix}.NEW-GUARD", fi.site,
                    f"`{text[:110]}`{' and %d more effect(s)' % (len(items) - 1) if len(items) > 1 else ''} now "
                    f"run(s) only when `{' and '.join(new)[:200]}`{was}: for the other inputs this element is silently "
                    f"skipped, which no rule on the statement itself can see", key="new-guard:" + "|".join(new)[:80],
                    where=loc(fi, node), semantic=True)
