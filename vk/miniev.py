"""A small evaluator for straight-line list / dict building code (names of output components, counts).

It runs the statements of one function over Python values in which everything unknown is symbolic:
  Sym(text)        an opaque value (a run-time number, a sequence of unknown length)
  Elem(seq_text)   "any element of that sequence" - the loop variable of a loop over a Sym sequence; a string built
                   from it (f'Y({sp})') becomes the pattern 'Y({self.species})', and an item appended inside such a
                   loop stands for one item per element, in the sequence's order
  Lin({sym: k})    an integer known as a linear combination of symbols (field counts)
Branch tests must evaluate to a bool under the given configuration (values for chosen attributes); anything the
evaluator does not model raises Unsupported and the rule that called it is *undecided* - never a verdict from a guess.
"""
import ast

from .model import norm


class Unsupported(Exception):
    pass


class Sym:
    def __init__(self, text):
        self.text = text

    def __repr__(self):
        return f"<{self.text}>"

    def __eq__(self, o):
        return isinstance(o, Sym) and o.text == self.text

    def __hash__(self):
        return hash(("Sym", self.text))


class Elem(Sym):
    pass


class Lin:
    """integer as a linear combination of symbols + constant ('' key)"""
    def __init__(self, terms=None):
        self.terms = {k: v for k, v in (terms or {}).items() if v != 0}

    @staticmethod
    def of(v):
        if isinstance(v, Lin):
            return v
        if isinstance(v, bool):
            raise Unsupported("bool in arithmetic")
        if isinstance(v, int):
            return Lin({"": v})
        if isinstance(v, Sym):
            return Lin({v.text: 1})
        raise Unsupported(f"not a number: {v!r}")

    def __add__(self, o):
        o = Lin.of(o)
        t = dict(self.terms)
        for k, v in o.terms.items():
            t[k] = t.get(k, 0) + v
        return Lin(t)

    __radd__ = __add__

    def __eq__(self, o):
        try:
            return self.terms == Lin.of(o).terms
        except Unsupported:
            return False

    def __hash__(self):
        return hash(tuple(sorted(self.terms.items())))

    def __repr__(self):
        return " + ".join(f"{v}*{k}" if k else str(v) for k, v in sorted(self.terms.items())) or "0"


class Machine:
    def __init__(self, config=None, attrs=None, max_steps=20000):
        self.env = {}
        self.config = dict(config or {})      # 'self.do_gradp' -> True
        self.attrs = dict(attrs or {})        # 'self.nfields' -> value
        self.steps = 0
        self.max_steps = max_steps

    # -- expressions --------------------------------------------------------------------------------------------
    def ev(self, e):
        self.steps += 1
        if self.steps > self.max_steps:
            raise Unsupported("step limit")
        if isinstance(e, ast.Constant):
            return e.value
        if isinstance(e, ast.Name):
            if e.id in self.env:
                return self.env[e.id]
            if e.id in ("True", "False", "None"):
                return {"True": True, "False": False, "None": None}[e.id]
            raise Unsupported(f"unbound name {e.id}")
        if isinstance(e, ast.Attribute):
            t = norm(e)
            if t in self.config:
                return self.config[t]
            if t in self.attrs:
                return self.attrs[t]
            if t in self.env:
                return self.env[t]
            return Sym(t)
        if isinstance(e, (ast.List, ast.Tuple)):
            out = []
            for x in e.elts:
                if isinstance(x, ast.Starred):
                    v = self.ev(x.value)
                    if not isinstance(v, list):
                        raise Unsupported("starred non-list")
                    out += v
                else:
                    out.append(self.ev(x))
            return out if isinstance(e, ast.List) else tuple(out)
        if isinstance(e, ast.Dict):
            d = {}
            for k, v in zip(e.keys, e.values):
                if k is None:
                    sub = self.ev(v)
                    if not isinstance(sub, dict):
                        raise Unsupported("** of non-dict")
                    d.update(sub)
                else:
                    d[self.ev(k)] = self.ev(v)
            return d
        if isinstance(e, ast.JoinedStr):
            parts = []
            for v in e.values:
                if isinstance(v, ast.Constant):
                    parts.append(str(v.value))
                else:
                    if v.format_spec is not None or v.conversion not in (-1, 115):
                        raise Unsupported("format spec in a name")
                    x = self.ev(v.value)
                    if isinstance(x, Elem):
                        parts.append("{" + x.text + "}")
                    elif isinstance(x, str):
                        parts.append(x)
                    elif isinstance(x, int) and not isinstance(x, bool):
                        parts.append(str(x))
                    else:
                        raise Unsupported(f"opaque value in a string: {x!r}")
            return "".join(parts)
        if isinstance(e, ast.BinOp):
            l, r = self.ev(e.left), self.ev(e.right)
            if isinstance(e.op, ast.Add):
                if isinstance(l, list) and isinstance(r, list):
                    return l + r
                if isinstance(l, str) and isinstance(r, str):
                    return l + r
                if isinstance(l, str) and isinstance(r, Elem):
                    return l + "{" + r.text + "}"
                if isinstance(l, Elem) and isinstance(r, str):
                    return "{" + l.text + "}" + r
                return Lin.of(l) + Lin.of(r)
            if isinstance(e.op, ast.Mult) and isinstance(l, list) and isinstance(r, int):
                return l * r
            raise Unsupported(f"operator {type(e.op).__name__}")
        if isinstance(e, ast.BoolOp):
            vals = [self.truth(self.ev(v)) for v in e.values]
            return all(vals) if isinstance(e.op, ast.And) else any(vals)
        if isinstance(e, ast.UnaryOp) and isinstance(e.op, ast.Not):
            return not self.truth(self.ev(e.operand))
        if isinstance(e, ast.IfExp):
            return self.ev(e.body) if self.truth(self.ev(e.test)) else self.ev(e.orelse)
        if isinstance(e, ast.Compare) and len(e.ops) == 1:
            l, r = self.ev(e.left), self.ev(e.comparators[0])
            op = e.ops[0]
            if isinstance(op, (ast.In, ast.NotIn)):
                if isinstance(r, (list, tuple, dict, str)) and not isinstance(l, Sym):
                    res = l in r
                    return res if isinstance(op, ast.In) else not res
                raise Unsupported("membership in an opaque container")
            if isinstance(op, (ast.Is, ast.IsNot)) and (l is None or r is None):
                res = l is r
                if isinstance(l, Sym) or isinstance(r, Sym):
                    raise Unsupported("identity of an opaque value")
                return res if isinstance(op, ast.Is) else not res
            if isinstance(op, (ast.Eq, ast.NotEq)) and not isinstance(l, Sym) and not isinstance(r, Sym):
                res = l == r
                return res if isinstance(op, ast.Eq) else not res
            raise Unsupported("comparison of opaque values")
        if isinstance(e, ast.Subscript):
            v = self.ev(e.value)
            if isinstance(e.slice, ast.Slice):
                if isinstance(v, list):
                    lo = self.ev(e.slice.lower) if e.slice.lower else None
                    hi = self.ev(e.slice.upper) if e.slice.upper else None
                    if all(x is None or isinstance(x, int) for x in (lo, hi)) and e.slice.step is None:
                        return v[lo:hi]
                raise Unsupported("slice")
            k = self.ev(e.slice)
            if isinstance(v, dict):
                if isinstance(k, Sym):
                    raise Unsupported("opaque key")
                if k not in v:
                    raise Unsupported(f"KeyError {k!r}")
                return v[k]
            if isinstance(v, (list, tuple)) and isinstance(k, int):
                return v[k]
            if isinstance(v, Sym):
                return Sym(f"{v.text}[{k!r}]")
            raise Unsupported("subscript")
        if isinstance(e, (ast.ListComp, ast.GeneratorExp)):
            return self.comp(e)
        if isinstance(e, ast.Call):
            return self.call(e)
        raise Unsupported(type(e).__name__)

    def truth(self, v):
        if isinstance(v, (bool, int, str, list, dict, tuple)) or v is None:
            return bool(v)
        raise Unsupported(f"truth of {v!r}")

    def iterate(self, it):
        """-> ('concrete', [values]) or ('symbolic', Elem)"""
        if isinstance(it, (list, tuple)):
            return "concrete", list(it)
        if isinstance(it, dict):
            return "concrete", list(it.keys())
        if isinstance(it, Sym) and not isinstance(it, Elem):
            return "symbolic", Elem(it.text)
        raise Unsupported(f"iteration over {it!r}")

    def comp(self, e):
        if len(e.generators) != 1:
            raise Unsupported("nested comprehension")
        g = e.generators[0]
        if not isinstance(g.target, ast.Name):
            raise Unsupported("tuple target in a comprehension")
        kind, vals = self.iterate(self.ev(g.iter))
        saved = self.env.get(g.target.id, self)
        out = []
        try:
            if kind == "concrete":
                for v in vals:
                    self.env[g.target.id] = v
                    if all(self.truth(self.ev(c)) for c in g.ifs):
                        out.append(self.ev(e.elt))
            else:
                if g.ifs:
                    raise Unsupported("filter over an opaque sequence")
                self.env[g.target.id] = vals
                out.append(Each(self.ev(e.elt), vals.text))
        finally:
            if saved is self:
                self.env.pop(g.target.id, None)
            else:
                self.env[g.target.id] = saved
        return out

    def call(self, e):
        f = e.func
        if isinstance(f, ast.Attribute):
            recv = self.ev(f.value)
            args = [self.ev(a) for a in e.args]
            if f.attr == "get" and isinstance(recv, dict) and 1 <= len(args) <= 2:
                if isinstance(args[0], Sym):
                    raise Unsupported("opaque key")
                return recv.get(args[0], args[1] if len(args) == 2 else None)
            if f.attr in ("keys", "values", "items") and isinstance(recv, dict) and not args:
                return [list(x) if f.attr == "items" else x for x in getattr(recv, f.attr)()]
            if f.attr == "copy" and isinstance(recv, (list, dict)):
                return recv.copy()
            if f.attr == "format" and isinstance(recv, str) and recv.count("{}") == len(args) and not e.keywords:
                out = recv
                for a in args:
                    out = out.replace("{}", "{" + a.text + "}" if isinstance(a, Elem) else str(a), 1)
                return out
            raise Unsupported(f"method {f.attr}")
        fn = norm(f)
        args = [self.ev(a) for a in e.args]
        if fn == "len" and len(args) == 1:
            if isinstance(args[0], (list, tuple, dict, str)):
                if any(isinstance(x, Each) for x in (args[0] if not isinstance(args[0], (dict, str)) else [])):
                    n = Lin()
                    for x in args[0]:
                        n = n + (Sym(f"len({x.seq})") if isinstance(x, Each) else 1)
                    return n
                return len(args[0])
            if isinstance(args[0], Sym):
                return Sym(f"len({args[0].text})")
        if fn == "sum" and len(args) == 1 and isinstance(args[0], list):
            n = Lin()
            for x in args[0]:
                n = n + x
            return n
        if fn in ("list", "tuple") and len(args) == 1:
            kind, vals = self.iterate(args[0])
            if kind == "concrete":
                return list(vals)
        if fn in ("dict",) and not args:
            return {str(k.arg): self.ev(k.value) for k in e.keywords}
        if fn == "str" and len(args) == 1 and isinstance(args[0], (str, int)):
            return str(args[0])
        if fn in ("sorted",) and len(args) == 1 and isinstance(args[0], (list, dict)) and not e.keywords:
            vals = list(args[0])
            if all(isinstance(v, str) for v in vals):
                return sorted(vals)
        if fn == "bool" and len(args) == 1:
            return self.truth(args[0])
        raise Unsupported(f"call {fn}")

    # -- statements ---------------------------------------------------------------------------------------------
    def store(self, target, value):
        if isinstance(target, ast.Name):
            self.env[target.id] = value
        elif isinstance(target, ast.Attribute):
            self.env[norm(target)] = value
            self.attrs[norm(target)] = value
        elif isinstance(target, ast.Subscript):
            c = self.ev(target.value)
            k = self.ev(target.slice)
            if isinstance(c, dict) and not isinstance(k, Sym):
                c[k] = value
            elif isinstance(c, list) and isinstance(k, int):
                c[k] = value
            else:
                raise Unsupported("store through an opaque container")
        elif isinstance(target, (ast.Tuple, ast.List)):
            if not isinstance(value, (list, tuple)) or len(value) != len(target.elts):
                raise Unsupported("tuple unpack")
            for t, v in zip(target.elts, value):
                self.store(t, v)
        else:
            raise Unsupported("store target")

    def run(self, stmts, wanted=None, each=None):
        """executes stmts; statements that do not mention a wanted name and cannot be evaluated are skipped when
        `wanted` is given (their targets become opaque)"""
        for s in stmts:
            try:
                self.stmt(s, each)
            except Unsupported:
                if wanted is None or self._mentions(s, wanted):
                    raise
                for t in ast.walk(s):
                    if isinstance(t, ast.Name) and isinstance(t.ctx, ast.Store):
                        self.env[t.id] = Sym(t.id)
                    elif isinstance(t, ast.Attribute) and isinstance(t.ctx, ast.Store):
                        self.env[norm(t)] = Sym(norm(t))
                        self.attrs[norm(t)] = Sym(norm(t))

    def _mentions(self, s, wanted):
        # transitively: names that flow into the wanted ones were added by the caller
        for n in ast.walk(s):
            if isinstance(n, ast.Name) and n.id in wanted:
                return True
            if isinstance(n, ast.Attribute) and norm(n) in wanted:
                return True
        return False

    def stmt(self, s, each=None):
        if isinstance(s, ast.Assign):
            v = self.ev(s.value)
            for t in s.targets:
                self.store(t, v)
        elif isinstance(s, ast.AugAssign) and isinstance(s.op, ast.Add):
            cur = self.ev(s.target)
            v = self.ev(s.value)
            if isinstance(cur, list):
                kind, vals = self.iterate(v)
                if kind != "concrete":
                    raise Unsupported("+= opaque sequence")
                cur.extend(self._wrap(x, each) for x in vals)     # in place, like Python
            else:
                self.store(s.target, Lin.of(cur) + Lin.of(v))
        elif isinstance(s, ast.Expr) and isinstance(s.value, ast.Call) and isinstance(s.value.func, ast.Attribute) \
                and s.value.func.attr in ("append", "extend", "insert"):
            c = s.value
            recv = self.ev(c.func.value)
            if not isinstance(recv, list):
                raise Unsupported("append to an opaque container")
            args = [self.ev(a) for a in c.args]
            if c.func.attr == "append":
                recv.append(self._wrap(args[0], each))
            elif c.func.attr == "extend":
                kind, vals = self.iterate(args[0])
                if kind != "concrete":
                    raise Unsupported("extend with an opaque sequence")
                recv.extend(self._wrap(x, each) for x in vals)
            else:
                if not isinstance(args[0], int):
                    raise Unsupported("insert position")
                recv.insert(args[0], self._wrap(args[1], each))
        elif isinstance(s, ast.Expr):
            if isinstance(s.value, ast.Constant):
                return
            if isinstance(s.value, ast.Call) and norm(s.value.func) in ("print",):
                return
            raise Unsupported("expression statement")
        elif isinstance(s, ast.If):
            if self.truth(self.ev(s.test)):
                self.run(s.body, each=each)
            else:
                self.run(s.orelse, each=each)
        elif isinstance(s, ast.For):
            if not isinstance(s.target, ast.Name) or s.orelse:
                raise Unsupported("loop form")
            kind, vals = self.iterate(self.ev(s.iter))
            if kind == "concrete":
                for v in vals:
                    self.env[s.target.id] = v
                    self.run(s.body, each=each)
            else:
                if each is not None:
                    raise Unsupported("nested opaque loops")
                self.env[s.target.id] = vals
                self.run(s.body, each=vals.text)
        elif isinstance(s, ast.Raise):
            raise Unsupported("raise reached")
        elif isinstance(s, (ast.Pass, ast.Import, ast.ImportFrom, ast.Global)):
            return
        else:
            raise Unsupported(type(s).__name__)

    @staticmethod
    def _wrap(x, each):
        return Each(x, each) if each is not None and not isinstance(x, Each) else x


class Each:
    """one item per element of the sequence `seq`, in its order"""
    def __init__(self, item, seq):
        self.item, self.seq = item, seq

    def __eq__(self, o):
        return isinstance(o, Each) and (o.item, o.seq) == (self.item, self.seq)

    def __hash__(self):
        return hash((str(self.item), self.seq))

    def __repr__(self):
        return f"{self.item!r} for each of {self.seq}"
