"""Block replication evaluator (rule EXPAND).

Decides, for a small array-expansion function `f(arr, factor)`, whether the returned array is `arr` with every axis
repeated `factor` times (each coarse cell becomes a factor^ndim block of equal values, block edges on multiples of
factor).  The function body is interpreted abstractly: a value is `arr` plus the multiset of (factor, axis) repeats
applied so far, with its symbolic shape; `np.repeat(x, f)` without axis is a flat intermediate that only a reshape to
"x's shape with the last axis times f" turns back into a repeat of the last axis.  Naming, nesting vs. statements,
loops over the axes and redundant reshapes do not matter; a transposed reshape, a missing axis, another factor, or a
resampling call do.

verdict: ("ok", text) | ("bad", why) | ("unknown", why)"""
import ast
from .model import norm
from .rules import expr_ratio, FormulaError
from .poly import Ratio

RESAMPLERS = {"zoom", "ndimage.zoom", "scipy.ndimage.zoom", "np.resize", "numpy.resize", "resize", "map_coordinates",
              "np.interp", "griddata", "interpn"}      # interpolation / cyclic refill: not block replication


class _Bad(Exception):
    pass


class _Unknown(Exception):
    pass


class Rep:
    def __init__(self, shape, reps):
        self.shape, self.reps = list(shape), list(reps)

    def text(self):
        return "arr" + "".join(f".repeat({f}, axis={k})" for f, k in self.reps)


class Flat:
    def __init__(self, rep, f):
        self.rep, self.f = rep, f


def _scalar(node, senv):
    try:
        return expr_ratio(node, dict(senv))
    except FormulaError as e:
        raise _Unknown(f"cannot evaluate `{norm(node)}`: {e}")
    except ZeroDivisionError:
        raise _Unknown(f"cannot evaluate `{norm(node)}`")


def evaluate(fn_node, arr, factor, ndim):
    """fn_node: FunctionDef; arr/factor: parameter names"""
    venv = {arr: Rep([Ratio.atom(f"{arr}.shape[{i}]") for i in range(ndim)], [])}
    senv = {}           # scalar locals: name -> ast node (forward substitution by expr_ratio)
    F = Ratio.atom(factor)

    def axis_of(node, consts):
        if isinstance(node, ast.Name) and node.id in consts:
            k = consts[node.id]
        else:
            try:
                c = _scalar(node, senv).const()
            except _Unknown:
                c = None
            if c is None or c.denominator != 1:
                raise _Unknown(f"axis `{norm(node)}` is not a constant")
            k = int(c)
        if k < 0:
            k += ndim
        if not 0 <= k < ndim:
            raise _Bad(f"axis {k} does not exist in a {ndim}-dimensional array")
        return k

    def ev(node, consts):
        if isinstance(node, ast.Name):
            if node.id in venv:
                return venv[node.id]
            raise _Unknown(f"`{node.id}` is not an array derived from `{arr}`")
        if isinstance(node, ast.Call):
            fn = norm(node.func)
            if fn in RESAMPLERS or fn.split(".")[-1] in ("zoom", "resize"):
                raise _Bad(f"`{fn}` resamples the array: block edges need not fall on multiples of the factor and "
                           f"values may be interpolated")
            kw = {k.arg: k.value for k in node.keywords}
            if fn in ("np.repeat", "numpy.repeat") or (isinstance(node.func, ast.Attribute) and node.func.attr == "repeat"):
                if fn in ("np.repeat", "numpy.repeat"):
                    src, rest = node.args[0], node.args[1:]
                else:
                    src, rest = node.func.value, node.args
                x = ev(src, consts)
                fnode = rest[0] if rest else kw.get("repeats")
                anode = rest[1] if len(rest) > 1 else kw.get("axis")
                if fnode is None:
                    raise _Unknown("repeat without a count")
                f = _scalar(fnode, senv)
                if not isinstance(x, Rep):
                    raise _Unknown("repeat of a flat intermediate")
                if anode is None or (isinstance(anode, ast.Constant) and anode.value is None):
                    return Flat(x, f)
                k = axis_of(anode, consts)
                sh = list(x.shape)
                sh[k] = sh[k] * f
                return Rep(sh, x.reps + [(f, k)])
            if fn in ("np.reshape", "numpy.reshape") or (isinstance(node.func, ast.Attribute) and node.func.attr == "reshape"):
                if fn in ("np.reshape", "numpy.reshape"):
                    src, dims = node.args[0], node.args[1:]
                else:
                    src, dims = node.func.value, node.args
                if kw.get("order") is not None and norm(kw["order"]) not in ("'C'", '"C"'):
                    raise _Bad(f"reshape with order={norm(kw['order'])} re-orders the repeated values")
                if len(dims) == 1 and isinstance(dims[0], (ast.Tuple, ast.List)):
                    dims = dims[0].elts
                elif len(dims) == 1 and isinstance(dims[0], ast.Name) and isinstance(senv.get(dims[0].id), (ast.Tuple, ast.List)):
                    dims = senv[dims[0].id].elts
                x = ev(src, consts)
                got = [_scalar(d, senv) for d in dims]
                if isinstance(x, Flat):
                    want = list(x.rep.shape)
                    want[-1] = want[-1] * x.f
                    if len(got) != len(want) or any(not (g == w) for g, w in zip(got, want)):
                        raise _Bad(f"the flat repeat is reshaped to ({', '.join(map(str, got))}), not to the source shape "
                                   f"with the last axis times the factor ({', '.join(map(str, want))}): the repeated "
                                   f"values land in other cells")
                    return Rep(want, x.rep.reps + [(x.f, ndim - 1)])
                if len(got) != len(x.shape) or any(not (g == w) for g, w in zip(got, x.shape)):
                    raise _Bad(f"reshape to ({', '.join(map(str, got))}) of an array of shape "
                               f"({', '.join(map(str, x.shape))}) moves values to other cells")
                return x
            if fn in ("np.array", "np.asarray", "np.ascontiguousarray", "numpy.array", "numpy.asarray") and len(node.args) == 1 \
                    and not node.keywords:
                return ev(node.args[0], consts)
            raise _Unknown(f"call `{fn}` is not a replication primitive")
        raise _Unknown(f"expression `{norm(node)[:60]}` is not a replication primitive")

    result = []

    def run(stmts, consts):
        for s in stmts:
            if isinstance(s, ast.Expr) and isinstance(s.value, ast.Constant):
                continue
            if isinstance(s, (ast.Pass, ast.Assert)) or (
                    isinstance(s, ast.Expr) and isinstance(s.value, ast.Call) and
                    norm(s.value.func).split(".")[0] in ("print", "logging", "logger", "log", "warnings")):
                continue        # diagnostics do not touch the array
            if isinstance(s, ast.Assign) and len(s.targets) == 1:
                t = s.targets[0]
                if isinstance(t, ast.Name):
                    try:
                        venv[t.id] = ev(s.value, consts)
                        senv.pop(t.id, None)
                    except _Unknown:
                        if any(isinstance(x, ast.Name) and x.id in venv for x in ast.walk(s.value)) and \
                                any(isinstance(c, ast.Call) and norm(c.func).split(".")[-1] not in ("len", "int", "prod")
                                    and not norm(c.func).endswith(".shape") for c in ast.walk(s.value)):
                            raise
                        venv.pop(t.id, None)
                        senv[t.id] = s.value
                    continue
                if isinstance(t, (ast.Tuple, ast.List)) and all(isinstance(e, ast.Name) for e in t.elts):
                    if isinstance(s.value, (ast.Tuple, ast.List)) and len(s.value.elts) == len(t.elts):
                        for e, v in zip(t.elts, s.value.elts):
                            senv[e.id] = v
                        continue
                    for k, e in enumerate(t.elts):
                        senv[e.id] = ast.Subscript(value=s.value, slice=ast.Constant(value=k), ctx=ast.Load())
                    continue
                raise _Unknown(f"assignment `{norm(s)[:60]}`")
            if isinstance(s, ast.For) and isinstance(s.target, ast.Name) and not s.orelse:
                it = s.iter
                seq = None
                if isinstance(it, (ast.Tuple, ast.List)) and all(isinstance(e, ast.Constant) for e in it.elts):
                    seq = [e.value for e in it.elts]
                elif isinstance(it, ast.Call) and norm(it.func) == "range" and len(it.args) == 1:
                    a = it.args[0]
                    if isinstance(a, ast.Constant) and isinstance(a.value, int):
                        seq = list(range(a.value))
                    elif norm(a) in (f"{arr}.ndim", f"len({arr}.shape)", f"np.ndim({arr})"):
                        seq = list(range(ndim))
                if seq is None or len(seq) > 8:
                    raise _Unknown(f"loop over `{norm(it)[:40]}`")
                for v in seq:
                    run(s.body, {**consts, s.target.id: v})
                continue
            if isinstance(s, ast.Return):
                result.append(ev(s.value, consts) if s.value is not None else None)
                return
            raise _Unknown(f"statement `{norm(s)[:60]}`")

    try:
        run(fn_node.body, {})
        if len(result) != 1 or not isinstance(result[0], Rep):
            raise _Unknown("no single returned array")
        r = result[0]
        got = sorted((str(f), k) for f, k in r.reps)
        want = sorted((str(F), k) for k in range(ndim))
        if got != want:
            raise _Bad(f"the returned array is {r.text()}: every one of the {ndim} axes must be repeated exactly once by "
                       f"`{factor}`")
        return "ok", r.text()
    except _Bad as e:
        return "bad", str(e)
    except _Unknown as e:
        return "unknown", str(e)


def rule(ctx, rule_id, fi, ndim, what):
    params = list(fi.params)
    if len(params) < 2:
        ctx.unknown(rule_id, fi.site, f"{fi.qualname} does not take (array, factor)")
        return
    verdict, text = evaluate(fi.node, params[0], params[1], ndim)
    ctx.decide(verdict == "ok", verdict == "bad", rule_id, fi.site, what, f"{fi.qualname}: {text}",
               why_unknown="expansion not expressed with np.repeat / reshape")
