"""E1 — FAB typestate + symbolic byte accounting (abstract interpreter over the ast).

An *accessor* is a function that opens a binary file and seeks / reads / writes
FABs.  The interpreter walks every path of the accessor once (loop bodies once,
against a loop-head invariant), evaluating expressions in a symbolic domain:

  Num      rational function over atoms (task fields, FAB extents D0 D1 D2, N …)
  ShapeV   result of the header parsers / level-header extents (dims [+ N])
  HdrV     a FAB header line (bytes or str), with the component count it carries
  ArrV     data read by np.fromfile: window, shape, order, component content
  Handle   typestate of an opened file: aligned | data(fab, offset) | top

and records events (seek/readline/fromfile/write/tell/append/store/return).  The
generic obligations G1..G7 are decided on the events; role obligations (which
window, which components, which order) are decided by the owning check against
the role table frozen in that check.  Unknown idioms evaluate to Top; only when a
Top reaches an obligation is AnalysisError raised (fail closed at obligations).
"""
import ast
import copy

from .poly import Poly, Ratio
from .model import AnalysisError, norm, call_name

MAX_PATHS = 96


# ---------------------------------------------------------------------------
# values
# ---------------------------------------------------------------------------
class V:
    def text(self):
        return "?"


class Top(V):
    def __init__(self, why=""):
        self.why = why

    def text(self):
        return f"TOP({self.why})"


def undecidable(*vals):
    """True when a value the rule needs did not evaluate to a symbolic quantity (the rule must abstain)"""
    return any(v is None or isinstance(v, Top) or "TOP(" in v.text() or "opaque:" in v.text() for v in vals)


class NoneV(V):
    def text(self):
        return "None"


class Num(V):
    def __init__(self, r):
        self.r = r if isinstance(r, Ratio) else Ratio(Poly.lift(r))

    @staticmethod
    def atom(name):
        return Num(Ratio.atom(name))

    def text(self):
        return str(self.r)

    def atom_name(self):
        return self.r.n.single_atom() if self.r.is_poly() else None


class StrV(V):
    """string template: list of parts, each str or V"""

    def __init__(self, parts, kind="str"):
        self.parts = parts
        self.kind = kind

    def const(self):
        if all(isinstance(p, str) for p in self.parts):
            return "".join(self.parts)
        return None

    def text(self):
        return "".join(p if isinstance(p, str) else "{" + p.text() + "}" for p in self.parts)


class Tup(V):
    def __init__(self, items):
        self.items = list(items)

    def text(self):
        return "(" + ", ".join(i.text() for i in self.items) + ")"


class VecV(V):
    """per-dimension integer vector with symbolic entries (3 slots; 2D uses two)"""

    def __init__(self, items, what="", fab=None, prov=None, src=None):
        self.items = items
        self.what = what      # start | stop | extent-1 | arith
        self.fab, self.prov, self.src = fab, prov, src

    def text(self):
        return "vec[" + ", ".join(i.text() for i in self.items) + "]"


class ShapeV(V):
    def __init__(self, fab, dims, n, prov):
        self.fab = fab          # fab label
        self.dims = dims        # list of Num
        self.n = n              # Num | None
        self.prov = prov        # 'fab' | 'level'

    def text(self):
        return f"shape<{self.prov}:{self.fab}>(" + ",".join(d.text() for d in self.dims) + \
               (f";{self.n.text()}" if self.n is not None else "") + ")"


class IdxPairV(V):
    def __init__(self, fab, prov, src=None):
        self.fab = fab
        self.prov = prov
        self.src = src

    def text(self):
        return f"idx<{self.prov}:{self.fab}>"


class HdrV(V):
    def __init__(self, fab, kind, ncomp, source, canonical=False):
        self.fab = fab
        self.kind = kind        # 'bytes' | 'str'
        self.ncomp = ncomp      # Num: component count written in the text
        self.source = source    # 'read' | 'built'
        self.canonical = canonical
        self.idx_fab = fab      # whose indices the text carries
        self.idx_prov = "fab"

    def text(self):
        return f"hdr<{self.fab},{self.kind},n={self.ncomp.text()}>"


class Handle(V):
    def __init__(self, hid, path, mode):
        self.hid = hid
        self.path = path
        self.mode = mode

    def text(self):
        return f"handle#{self.hid}({self.path.text()},{self.mode})"


class SliceV(V):
    def __init__(self, lo, hi, step):
        self.lo, self.hi, self.step = lo, hi, step

    def text(self):
        f = lambda x: "" if x is None else x.text()
        return f"slice({f(self.lo)}:{f(self.hi)}:{f(self.step)})"


class CompSel:
    """component content of an array, in absolute field space of FAB `fab`"""

    def __init__(self, fab, kind, a=None, b=None, c=None):
        self.fab, self.kind, self.a, self.b, self.c = fab, kind, a, b, c
        # kinds: single(a) | range(a=lo,b=hi,c=step) | list(a=index expr) | raw(a=selector in wrong space, b=base)
        #        | opaque(a=text)

    def text(self):
        f = lambda x: "" if x is None else (x.text() if isinstance(x, V) else str(x))
        return f"{self.kind}<{self.fab}>({f(self.a)},{f(self.b)},{f(self.c)})"

    def count(self):
        if self.kind == "single":
            return Num(1)
        if self.kind == "range" and (self.c is None or self.c.r == Ratio(1)):
            return Num(self.b.r - self.a.r)
        if self.kind in ("list", "raw"):
            return Num.atom(f"len({self.a.text()})")
        if self.kind == "opaque":
            return self.b if isinstance(self.b, Num) else Num.atom(f"ncomp({self.a})")
        return Num.atom(f"count({self.text()})")


class ArrV(V):
    _n = 0

    def __init__(self, fab=None):
        ArrV._n += 1
        self.aid = ArrV._n
        self.fab = fab
        self.count = None       # Num elements (flat)
        self.win_lo = None      # Num: offset (bytes) of window start past the header
        self.dims = None        # list[Num] spatial dims after reshape (None = flat)
        self.order = None
        self.comps = None       # list[CompSel] or None (no component axis) once reshaped
        self.has_comp_axis = False
        self.scalar_comp = None  # CompSel for arrays without component axis
        self.base = None        # ArrV this is a view of
        self.arith = []         # arithmetic applied since the read (text)
        self.spatial = []       # spatial sub-selections (text)
        self.flat = False
        self.origin = "fromfile"

    def ncomps(self):
        if not self.has_comp_axis:
            return Num(1)
        tot = Ratio(0)
        for c in self.comps:
            tot = tot + c.count().r
        return Num(tot)

    def text(self):
        d = "flat" if self.dims is None else "x".join(x.text() for x in self.dims)
        c = "" if not self.has_comp_axis else "[" + " ++ ".join(x.text() for x in (self.comps or [])) + "]"
        s = "" if self.scalar_comp is None else self.scalar_comp.text()
        return f"arr#{self.aid}<{self.fab}>({d}{c}{s},{self.order})"


class BytesV(V):
    def __init__(self, kind, nbytes=None, arr=None, hdr=None):
        self.kind, self.nbytes, self.arr, self.hdr = kind, nbytes, arr, hdr

    def text(self):
        if self.kind == "hdr":
            return "bytes:" + self.hdr.text()
        return f"bytes:data({self.nbytes.text() if self.nbytes else '?'} of {self.arr.text() if self.arr else '?'})"


class MinMaxV(V):
    def __init__(self, which, arr, axis):
        self.which, self.arr, self.axis = which, arr, axis

    def text(self):
        return f"{self.which}({self.arr.text()},axis={self.axis})"


class ListAcc(V):
    def __init__(self, name):
        self.name = name
        self.items = []

    def text(self):
        return f"list:{self.name}[{len(self.items)}]"


class Opaque(V):
    """result of an opaque call (recipe, expand_array ...) keeping provenance"""

    def __init__(self, what, args=()):
        self.what = what
        self.args = args

    def text(self):
        return f"opaque:{self.what}"


# ---------------------------------------------------------------------------
# path state
# ---------------------------------------------------------------------------
class State:
    def __init__(self):
        self.env = {}
        self.hpos = {}       # hid -> position
        self.handles = {}    # hid -> Handle
        self.events = []
        self.conds = []
        self.ret = None
        self.done = False
        self.broke = False
        self.loop_depth = 0

    def fork(self):
        s = State()
        s.env = dict(self.env)
        s.hpos = dict(self.hpos)
        s.handles = dict(self.handles)
        s.events = list(self.events)
        s.conds = list(self.conds)
        s.ret, s.done, s.broke = self.ret, self.done, self.broke
        s.loop_depth = self.loop_depth
        return s


class Event:
    def __init__(self, kind, node, **kw):
        self.kind = kind
        self.node = node
        self.loops = ()
        self.__dict__.update(kw)

    def __repr__(self):
        d = {k: (v.text() if isinstance(v, V) else v) for k, v in self.__dict__.items()
             if k not in ("kind", "node")}
        return f"Ev({self.kind} @{getattr(self.node, 'lineno', '?')} {d})"


# ---------------------------------------------------------------------------
# interpreter
# ---------------------------------------------------------------------------
PURE_ID = {"int", "float", "np.int64", "numpy.int64", "np.array", "numpy.array", "np.asarray",
           "numpy.asarray", "list", "tuple", "np.copy", "numpy.copy"}
PARSERS = {"shape_from_header": ("str", "shape"),
           "indices_from_header": ("str", "idx"),
           "indexes_and_shape_from_header": ("bytes", "idx+shape"),
           "shapes_from_header_vardims": ("bytes", "shape")}


class Roles:
    """role table of one accessor (frozen in the owning check)"""

    def __init__(self, fabs=None, level_index=None, equiv=None, ndims=3, level_fab="", opaque_ok=(),
                 task_param=None):
        self.fabs = fabs or {}              # open-path text -> fab label
        self.level_index = level_index or {}  # atom text of a level-header index pair -> fab label
        self.equiv = equiv or {}            # atom -> Poly substitutions (well-formedness assumptions)
        self.ndims = ndims
        self.level_fab = level_fab
        self.opaque_ok = set(opaque_ok)
        self.task_param = task_param


def D(fab, i):
    return Num.atom(f"D{i}" + (f"@{fab}" if fab else ""))


def N(fab):
    return Num.atom("N" + (f"@{fab}" if fab else ""))


def C(fab, nd=3):
    r = Ratio(1)
    for i in range(nd):
        r = r * D(fab, i).r
    return Num(r)


class Interp:
    def __init__(self, prog, fi, roles, rule="E1"):
        self.prog = prog
        self.fi = fi
        self.roles = roles
        self.rule = rule
        self.generic = []     # (rule, ok?, witness, node)
        self.nh = 0
        self.loop_stack = []
        self.mod = fi.module

    # -- helpers -------------------------------------------------------------
    def g(self, rule, ok, what, node=None):
        self.generic.append((rule, ok, what, node))

    def ext(self, node):
        return self.prog.external_name(self.mod, node) if isinstance(node, (ast.Attribute, ast.Name)) else None

    def atomtext(self, v):
        if isinstance(v, Num):
            return v.text()
        if isinstance(v, StrV):
            c = v.const()
            return repr(c) if c is not None else v.text()
        return v.text()

    def level_index_of(self, text):
        li = self.roles.level_index
        if text in li:
            return li[text]
        if text.endswith("]"):
            base = text[:text.rindex("[")]
            # only strip the *last* subscript
            depth, i = 0, len(text) - 1
            while i >= 0:
                if text[i] == "]":
                    depth += 1
                elif text[i] == "[":
                    depth -= 1
                    if depth == 0:
                        break
                i -= 1
            base = text[:i]
            if base + "[*]" in li:
                return li[base + "[*]"]
        return None

    def emit(self, st, kind, node, **kw):
        e = Event(kind, node, **kw)
        e.loops = tuple(self.loop_stack)
        st.events.append(e)
        return e

    # -- expression evaluation ---------------------------------------------------
    def ev(self, node, st):
        m = getattr(self, "ev_" + type(node).__name__, None)
        if m is None:
            return Top(type(node).__name__)
        return m(node, st)

    def ev_Constant(self, node, st):
        v = node.value
        if v is None:
            return NoneV()
        if isinstance(v, bool):
            return Num(int(v))
        if isinstance(v, (int, float)):
            return Num(Ratio(Poly.lift(v)))
        if isinstance(v, str):
            return StrV([v])
        if isinstance(v, bytes):
            return StrV([v.decode("latin1")], "bytes")
        if v is Ellipsis:
            return StrV(["..."], "ellipsis")
        return Top("const")

    def ev_Name(self, node, st):
        if node.id in st.env:
            return st.env[node.id]
        return Num.atom(node.id)

    def ev_Tuple(self, node, st):
        return Tup([self.ev(e, st) for e in node.elts])

    ev_List = ev_Tuple

    def ev_JoinedStr(self, node, st):
        parts = []
        for v in node.values:
            if isinstance(v, ast.Constant):
                parts.append(v.value)
            elif isinstance(v, ast.FormattedValue):
                parts.append(self.ev(v.value, st))
        return StrV(parts)

    def ev_UnaryOp(self, node, st):
        v = self.ev(node.operand, st)
        if isinstance(node.op, ast.USub) and isinstance(v, Num):
            return Num(-v.r)
        if isinstance(node.op, ast.UAdd):
            return v
        if isinstance(node.op, (ast.Not, ast.Invert)):
            return Opaque(f"not {v.text()}")
        return Top("unary")

    def ev_BoolOp(self, node, st):
        return Opaque(norm(node))

    def ev_Compare(self, node, st):
        return Opaque("cmp:" + " ".join(self.ev(x, st).text() for x in [node.left] + node.comparators))

    def ev_IfExp(self, node, st):
        a, b = self.ev(node.body, st), self.ev(node.orelse, st)
        if a.text() == b.text():
            return a
        return Top("ifexp")

    def ev_Lambda(self, node, st):
        return Top("lambda")

    def ev_Dict(self, node, st):
        return Opaque("dict")

    def ev_Slice(self, node, st):
        f = lambda x: None if x is None else self.ev(x, st)
        return SliceV(f(node.lower), f(node.upper), f(node.step))

    def ev_ListComp(self, node, st):
        if len(node.generators) == 1 and not node.generators[0].ifs:
            gen = node.generators[0]
            it = gen.iter
            if (isinstance(it, ast.Call) and isinstance(it.func, ast.Name) and it.func.id == "range"
                    and len(it.args) == 1 and isinstance(gen.target, ast.Name)):
                nv = self.ev(it.args[0], st)
                if isinstance(nv, Num) and nv.r.const() is not None and 0 <= nv.r.const() <= 8:
                    out = []
                    for i in range(int(nv.r.const())):
                        s2 = st.fork()
                        s2.env[gen.target.id] = Num(i)
                        out.append(self.ev(node.elt, s2))
                    return Tup(out)
            itv = self.ev(it, st)
            if isinstance(itv, Tup) and isinstance(gen.target, ast.Name):
                out = []
                for x in itv.items:
                    s2 = st.fork()
                    s2.env[gen.target.id] = x
                    out.append(self.ev(node.elt, s2))
                return Tup(out)
            # symbolic element-wise map over an unknown-length sequence
            if isinstance(gen.target, ast.Name):
                s2 = st.fork()
                base = itv.text()
                s2.env[gen.target.id] = Num.atom(f"{base}[*]") if isinstance(itv, Num) else Opaque(f"elem({base})", (itv,))
                el = self.ev(node.elt, s2)
                return Opaque(f"map({el.text()} over {base})", (el, itv))
        return Top("listcomp")

    ev_GeneratorExp = ev_ListComp      # consumed at once by tuple()/list()/np.prod(): the same element sequence

    def ev_BinOp(self, node, st):
        a, b = self.ev(node.left, st), self.ev(node.right, st)
        op = node.op
        if isinstance(a, Tup) and isinstance(op, ast.Mult) and isinstance(b, Num):
            return Opaque(f"repeat({a.text()},{b.text()})")
        # vector arithmetic (shape / index vectors)
        if isinstance(a, (VecV, ShapeV)) or isinstance(b, (VecV, ShapeV)):
            return self.vec_binop(a, b, op, node)
        if isinstance(a, ArrV) or isinstance(b, ArrV):
            arr = a if isinstance(a, ArrV) else b
            r = copy.copy(arr)
            ArrV._n += 1
            r.aid = ArrV._n
            r.arith = arr.arith + [norm(node)]
            r.base = None
            return r
        if isinstance(a, Num) and isinstance(b, Num):
            try:
                if isinstance(op, ast.Add):
                    return Num(a.r + b.r)
                if isinstance(op, ast.Sub):
                    return Num(a.r - b.r)
                if isinstance(op, ast.Mult):
                    return Num(a.r * b.r)
                if isinstance(op, ast.Div):
                    return Num(a.r / b.r)
                if isinstance(op, ast.Pow):
                    cb = b.r.const()
                    if cb is not None and cb.denominator == 1:
                        return Num(a.r ** int(cb))
                    return Num.atom(f"pow({a.text()},{b.text()})")
                if isinstance(op, ast.FloorDiv):
                    ca, cb = a.r.const(), b.r.const()
                    if ca is not None and cb is not None and cb != 0:
                        return Num(ca // cb)
                    return Num.atom(f"floordiv({a.text()},{b.text()})")
                if isinstance(op, ast.Mod):
                    return Num.atom(f"mod({a.text()},{b.text()})")
            except (ZeroDivisionError, ValueError):
                return Top("arith")
        if isinstance(a, StrV) and isinstance(b, StrV) and isinstance(op, ast.Add):
            return StrV(a.parts + b.parts, a.kind)
        if isinstance(a, Opaque) or isinstance(b, Opaque):
            return Opaque(f"({a.text()} {type(op).__name__} {b.text()})", (a, b))
        return Top("binop")

    def vec_binop(self, a, b, op, node):
        def items(x):
            if isinstance(x, VecV):
                return x.items
            if isinstance(x, ShapeV):
                return x.dims
            return None
        ia, ib = items(a), items(b)
        # stop - start of a level index pair
        if isinstance(a, VecV) and isinstance(b, VecV) and isinstance(op, ast.Sub) and \
                a.what == "stop" and b.what == "start" and (a.fab, a.prov, a.src) == (b.fab, b.prov, b.src):
            return VecV([Num(D(a.fab, i).r - 1) for i in range(3)], "extent-1", a.fab, a.prov, a.src)
        if isinstance(a, VecV) and a.what == "extent-1" and isinstance(b, Num) and \
                isinstance(op, ast.Add) and b.r == Ratio(1):
            sv = ShapeV(a.fab, [D(a.fab, i) for i in range(3)], None, a.prov)
            sv.src = a.src
            return sv
        n = len(ia or ib)

        def el(x, i):
            it = items(x)
            if it is not None:
                return it[i]
            return x
        out = []
        for i in range(n):
            x, y = el(a, i), el(b, i)
            if not (isinstance(x, Num) and isinstance(y, Num)):
                return Top("vec-arith")
            fake = ast.BinOp(left=ast.Constant(0), op=op, right=ast.Constant(0))
            st2 = State()
            st2.env = {"__x": x, "__y": y}
            fake.left, fake.right = ast.Name("__x", ast.Load()), ast.Name("__y", ast.Load())
            out.append(self.ev_BinOp(fake, st2))
        return VecV(out, what="arith")

    def ev_Attribute(self, node, st):
        v = self.ev(node.value, st)
        if isinstance(v, ArrV):
            if node.attr == "shape" and getattr(v, "origin", "") == "new" and getattr(v, "rank", 0) is None:
                sv = ShapeV(v.fab, list(v.dims or []), Num.atom("ncomp(new)"), "array-unknown-rank")
                return sv
            if node.attr == "shape":
                dims = list(v.dims or [])
                return ShapeV(v.fab, dims, v.ncomps() if v.has_comp_axis else None, "array")
            if node.attr == "T":
                r = copy.copy(v)
                r.spatial = v.spatial + ["T"]
                return r
        if isinstance(v, Opaque) and node.attr == "shape":
            return Opaque(f"shape({v.text()})", (v,))
        if isinstance(v, Num):
            a = v.atom_name()
            if a is not None:
                return Num.atom(f"{a}.{node.attr}")
        return Top(f"attr {node.attr}")

    def ev_Subscript(self, node, st):
        v = self.ev(node.value, st)
        sl = node.slice
        if isinstance(v, Tup):
            if isinstance(sl, ast.Slice):
                try:
                    lo = None if sl.lower is None else int(self.ev(sl.lower, st).r.const())
                    hi = None if sl.upper is None else int(self.ev(sl.upper, st).r.const())
                    return Tup(v.items[lo:hi])
                except Exception:
                    return Top("tuple slice")
            i = self.ev(sl, st)
            if isinstance(i, Num) and i.r.const() is not None:
                k = int(i.r.const())
                if -len(v.items) <= k < len(v.items):
                    return v.items[k]
            return Top("tuple index")
        if isinstance(v, ShapeV):
            if isinstance(sl, ast.Slice):
                if sl.lower is None and sl.step is None and sl.upper is not None:
                    u = self.ev(sl.upper, st)
                    if isinstance(u, Num) and u.r == Ratio(-1) and v.n is not None:
                        return ShapeV(v.fab, v.dims, None, v.prov)
                return Top("shape slice")
            i = self.ev(sl, st)
            if isinstance(i, Num) and i.r.const() is not None:
                k = int(i.r.const())
                full = v.dims + ([v.n] if v.n is not None else [])
                if v.n is not None and k == -1:
                    return v.n
                if 0 <= k < len(v.dims):
                    return v.dims[k]
                if k == len(v.dims) and v.n is not None:
                    return v.n
                if k < 0 and -len(full) <= k:
                    return full[k]
            return Top("shape index")
        if isinstance(v, VecV):
            i = self.ev(sl, st)
            if isinstance(i, Num) and i.r.const() is not None and 0 <= int(i.r.const()) < len(v.items):
                return v.items[int(i.r.const())]
            return Top("vec index")
        if isinstance(v, IdxPairV):
            i = self.ev(sl, st)
            if isinstance(i, Num) and i.r.const() in (0, 1):
                k = int(i.r.const())
                if k == 0:
                    return VecV([Num.atom(f"lo{d}@{v.fab}") for d in range(3)], "start", v.fab, v.prov, v.src)
                return VecV([Num(Num.atom(f"lo{d}@{v.fab}").r + D(v.fab, d).r - 1) for d in range(3)],
                            "stop", v.fab, v.prov, v.src)
            return Top("idx index")
        if isinstance(v, ArrV):
            return self.arr_index(v, sl, st, node)
        if isinstance(v, Num):
            a = v.atom_name()
            if a is not None:
                if isinstance(sl, ast.Slice):
                    return Num.atom(f"{a}[{norm(sl)}]")
                i = self.ev(sl, st)
                it = self.atomtext(i)
                full = f"{a}[{it}]"
                li = self.level_index_of(full)
                if li is not None:
                    return IdxPairV(li, "level", full)
                return Num.atom(full)
        if isinstance(v, Opaque):
            return Opaque(f"{v.text()}[{norm(sl)}]", (v,))
        return Top("subscript")

    # -- array indexing -----------------------------------------------------------
    def arr_index(self, arr, sl, st, node):
        elts = sl.elts if isinstance(sl, ast.Tuple) else [sl]
        r = copy.copy(arr)
        ArrV._n += 1
        r.aid = ArrV._n
        r.base = arr
        r.origin = "view"
        if arr.dims is None:
            r.spatial = arr.spatial + [norm(sl)]
            return r
        nd = len(arr.dims)
        # locate the component selector: last element when an Ellipsis leads or when len == nd+1
        comp_sel = None
        spatial = []
        if elts and isinstance(elts[0], ast.Constant) and elts[0].value is Ellipsis:
            if len(elts) == 2:
                comp_sel = elts[1]
            else:
                return Top("ellipsis form")
        elif len(elts) == nd + 1 and arr.has_comp_axis:
            comp_sel = elts[-1]
            spatial = elts[:-1]
        else:
            spatial = elts
        nontrivial = [e for e in spatial if not (isinstance(e, ast.Slice) and e.lower is None
                                                 and e.upper is None and e.step is None)]
        if nontrivial:
            # symmetric trims  a:-b  (ghost-cell strip) keep an exact extent: D - a - b
            newdims, exact = [], len(spatial) == nd
            for d, e in zip(arr.dims, spatial + [None] * (nd - len(spatial))):
                if e is None or (isinstance(e, ast.Slice) and e.lower is None and e.upper is None and e.step is None):
                    newdims.append(d)
                elif isinstance(e, ast.Slice) and e.step is None and e.lower is not None and \
                        isinstance(e.upper, ast.UnaryOp) and isinstance(e.upper.op, ast.USub):
                    lo, up = self.ev(e.lower, st), self.ev(e.upper.operand, st)
                    if isinstance(lo, Num) and isinstance(up, Num):
                        newdims.append(Num(d.r - lo.r - up.r))
                    else:
                        exact = False
                        newdims.append(Num.atom(f"sub({d.text()})"))
                else:
                    exact = False
                    newdims.append(Num.atom(f"sub({d.text()})"))
            if exact:
                r.dims = newdims
                r.trimmed = getattr(arr, "trimmed", []) + [norm(ast.Tuple(elts=spatial, ctx=ast.Load()))]
            else:
                r.spatial = arr.spatial + [norm(ast.Tuple(elts=spatial, ctx=ast.Load())) if len(spatial) > 1
                                           else norm(spatial[0])]
                r.spatial_nodes = getattr(arr, "spatial_nodes", []) + [spatial]
                r.dims = [Num.atom(f"sub({d.text()})") for d in arr.dims]
        if comp_sel is None:
            return r
        if not arr.has_comp_axis:
            if (isinstance(comp_sel, ast.Constant) and comp_sel.value is None) or \
                    norm(comp_sel) in ("np.newaxis", "numpy.newaxis"):
                r.has_comp_axis = True
                r.comps = [arr.scalar_comp or CompSel(arr.fab, "opaque", "scalar", Num(1))]
                r.scalar_comp = None
                if getattr(arr, "origin", "") == "new":
                    r.origin, r.rank = "new", 4
                return r
            self.g("G2", False, f"component selection on an array without component axis: {norm(node)}", node)
            return Top("no comp axis")
        if isinstance(comp_sel, ast.Slice) and comp_sel.lower is None and comp_sel.upper is None \
                and comp_sel.step is None:
            return r
        if (isinstance(comp_sel, ast.Constant) and comp_sel.value is None) or norm(comp_sel) in ("np.newaxis", "numpy.newaxis"):
            if arr.has_comp_axis:
                return Top("newaxis on an array that already has a component axis")
            r.has_comp_axis = True
            sc = arr.scalar_comp or CompSel(arr.fab, "opaque", "scalar", Num(1))
            r.comps = [sc]
            r.scalar_comp = None
            if getattr(r, "origin", "") == "view" and getattr(arr, "origin", "") == "new":
                r.origin = "new"
                r.rank = 4
            return r
        sel = self.ev(comp_sel, st)
        r.comps = self.select_comps(arr, sel, node)
        if isinstance(sel, Num) and self.sel_kind(sel) == "single":
            r.has_comp_axis = False
            r.scalar_comp = r.comps[0]
            r.comps = None
        if getattr(arr, "origin", "") == "new":
            r.origin, r.rank = "new", (3 if not r.has_comp_axis else 4)
        self.emit(st, "select", node, arr=r, src=arr)
        return r

    def sel_kind(self, sel):
        """how a selector Num is used: the check may override through roles.sel_kinds"""
        kinds = getattr(self.roles, "sel_kinds", {})
        t = sel.text()
        if t in kinds:
            return kinds[t]
        if sel.r.const() is not None:
            return "single"
        return kinds.get("*", "list")

    def select_comps(self, arr, sel, node):
        """compose a selector with the array's current component content"""
        comps = arr.comps
        if len(comps) != 1:
            return [CompSel(arr.fab, "opaque", f"sel {sel.text()} of concat")]
        c = comps[0]
        if c.kind == "range" and (c.c is None or c.c.r == Ratio(1)):
            base = c.a
            if isinstance(sel, SliceV):
                lo = base if sel.lo is None else Num(base.r + sel.lo.r)
                hi = c.b if sel.hi is None else Num(base.r + sel.hi.r)
                return [CompSel(c.fab, "range", lo, hi, sel.step)]
            if isinstance(sel, Num):
                k = self.sel_kind(sel)
                if k == "single":
                    return [CompSel(c.fab, "single", Num(base.r + sel.r))]
                if k == "list":
                    return [CompSel(c.fab, "list", Num(base.r + sel.r))]
                if k == "slice":
                    # a raw slice object applied to a window: right only when the window base is 0
                    if base.r == Ratio(0):
                        return [CompSel(c.fab, "range", Num.atom(f"{sel.text()}.start"),
                                        Num.atom(f"{sel.text()}.stop"), Num.atom(f"{sel.text()}.step"))]
                    return [CompSel(c.fab, "raw", sel, base)]
            if isinstance(sel, Opaque):
                return [CompSel(c.fab, "opaque", f"{sel.text()} @base {base.text()}")]
        if c.kind == "opaque" and c.fab == "new" and isinstance(sel, Num) and self.sel_kind(sel) == "list":
            return [CompSel("new", "list", sel)]
        return [CompSel(c.fab, "opaque", f"sel {sel.text()} of {c.text()}")]

    # -- calls ---------------------------------------------------------------------
    def ev_Call(self, node, st):
        f = node.func
        name = call_name(node)
        ext = self.ext(f) or ""
        kw = {k.arg: k.value for k in node.keywords if k.arg}
        # method calls on values
        if isinstance(f, ast.Attribute):
            recv = self.ev(f.value, st)
            if isinstance(recv, Handle):
                return self.handle_call(recv, f.attr, node, st)
            if isinstance(recv, HdrV):
                return self.hdr_call(recv, f.attr, node, st)
            if isinstance(recv, StrV):
                if f.attr == "encode":
                    return StrV(recv.parts, "bytes")
                if f.attr == "decode":
                    return StrV(recv.parts, "str")
                return Top("str method")
            if isinstance(recv, ArrV):
                return self.arr_call(recv, f.attr, node, st, kw)
            if isinstance(recv, (ListAcc,)) and f.attr == "append":
                v = self.ev(node.args[0], st)
                recv.items.append(v)
                self.emit(st, "append", node, list=recv.name, value=v)
                return NoneV()
            if isinstance(recv, Tup) and f.attr == "append":
                v = self.ev(node.args[0], st)
                if isinstance(f.value, ast.Name):
                    la = ListAcc(f.value.id)
                    la.items = list(recv.items) + [v]
                    st.env[f.value.id] = la
                    self.emit(st, "append", node, list=f.value.id, value=v)
                return NoneV()
            if isinstance(recv, Num) and f.attr == "indices" and len(node.args) == 1:
                a = recv.text()
                nv = self.ev(node.args[0], st)
                self.emit(st, "slice-indices", node, sel=recv, n=nv)
                return Tup([Num.atom(f"{a}.start"), Num.atom(f"{a}.stop"), Num.atom(f"{a}.step")])
            if isinstance(recv, Opaque) or isinstance(recv, Num):
                if f.attr in ("copy",):
                    return recv
                args = [self.ev(a, st) for a in node.args]
                if f.attr == "__getattribute__":
                    nd = self.new_data_rank("__getattribute__")
                    if nd is not False:
                        return self.make_new(nd, f"getattr({recv.text()})", node, st, args)
                    return Opaque(f"recipe-attr({recv.text()})", tuple(args))
                if f.attr in ("replace", "split", "decode", "encode", "format"):
                    return Opaque(f"{recv.text()}.{f.attr}", tuple(args))
        # plain / dotted functions
        if name == "open" and isinstance(f, ast.Name):
            return self.do_open(node, st)
        if name in PARSERS and self.is_utils(f, name):
            return self.parse_header(name, node, st)
        if name == "header_from_indices" and self.is_utils(f, name):
            return self.build_header(node, st)
        if ext in ("numpy.prod",) or (name == "prod" and ext.endswith(".prod")):
            return self.np_prod(self.ev(node.args[0], st))
        if ext == "numpy.fromfile":
            return self.np_fromfile(node, st, kw)
        if ext == "numpy.append" and len(node.args) == 2:
            a, b = self.ev(node.args[0], st), self.ev(node.args[1], st)
            if isinstance(a, ShapeV) and a.n is None and isinstance(b, Num):
                return ShapeV(a.fab, a.dims, b, a.prov)
            return Top("np.append")
        if ext in ("numpy.concatenate", "numpy.hstack", "numpy.stack"):
            return self.np_concat(node, st, kw, ext)
        if ext in ("numpy.min", "numpy.max", "numpy.nanmin", "numpy.nanmax", "numpy.amin", "numpy.amax"):
            a = self.ev(node.args[0], st)
            ax = norm(kw["axis"]) if "axis" in kw else (norm(node.args[1]) if len(node.args) > 1 else None)
            if isinstance(a, ArrV):
                return MinMaxV("min" if "min" in ext else "max", a, ax)
            return Opaque(f"{ext}({a.text()})", (a,))
        if ext in ("numpy.sum", "numpy.nansum"):
            a = self.ev(node.args[0], st)
            return Opaque(f"sum({a.text()})", (a,))
        if name == "len" and isinstance(f, ast.Name) and len(node.args) == 1:
            a = self.ev(node.args[0], st)
            if isinstance(a, Tup):
                return Num(len(a.items))
            if isinstance(a, ShapeV):
                if a.prov == "array":
                    return Num(len(a.dims) + (1 if a.n is not None else 0))
                if a.prov == "array-unknown-rank":
                    return Num.atom("rank(new)")
                return Top("len(shape)")
            if isinstance(a, Opaque):
                return Opaque(f"len({a.text()})", (a,))
            return Num.atom(f"len({self.atomtext(a)})")
        if (ext in PURE_ID or name in ("int", "float", "tuple", "list")) and len(node.args) == 1:
            return self.ev(node.args[0], st)
        if name == "slice" and isinstance(f, ast.Name):
            args = [self.ev(a, st) for a in node.args]
            if len(args) == 1:
                return SliceV(None, args[0], None)
            if len(args) >= 2:
                return SliceV(args[0], args[1], args[2] if len(args) > 2 else None)
        if name in ("print",):
            return NoneV()
        if name in ("zip", "enumerate", "range", "reversed", "sorted"):
            return Opaque(name, tuple(self.ev(a, st) for a in node.args))
        args = [self.ev(a, st) for a in node.args]
        # a handle escaping into an unknown call loses its position
        for a in args:
            if isinstance(a, Handle):
                st.hpos[a.hid] = ("top", f"passed to {norm(f)}")
        nd = self.new_data_rank(norm(f))
        if nd is not False:
            return self.make_new(nd, norm(f), node, st, args)
        return Opaque(f"call:{norm(f)}", tuple(args))

    def new_data_rank(self, fname):
        nd = getattr(self.roles, "new_data", {})
        if fname in nd:
            return nd[fname]
        return False

    def make_new(self, rank, what, node, st, args):
        """result of a recipe evaluated on the current box: lives on the box grid, `rank` 3 (scalar), 4 (components)
        or None (unknown until the code tests it)"""
        fab = getattr(self.roles, "new_data_fab", "")
        r = ArrV("new")
        r.dims = [D(fab, i) for i in range(3)]
        r.order = "n/a"
        r.origin = "new"
        r.count = Num.atom("size(new)")
        r.what = what
        r.inputs = [a for a in args if isinstance(a, ArrV)]
        self.set_rank(r, rank)
        self.emit(st, "new-data", node, arr=r, args=args)
        return r

    def set_rank(self, r, rank):
        r.rank = rank
        if rank == 3:
            r.has_comp_axis = False
            r.scalar_comp = CompSel("new", "opaque", "recipe", Num(1))
            r.comps = None
        elif rank == 4:
            r.has_comp_axis = True
            r.comps = [CompSel("new", "opaque", "recipe", Num.atom("ncomp(new)"))]
            r.scalar_comp = None
        else:
            r.has_comp_axis = False
            r.scalar_comp = CompSel("new", "opaque", "recipe(rank?)", Num.atom("ncomp?(new)"))

    def is_utils(self, f, name):
        if isinstance(f, ast.Name):
            r = self.prog.resolve_name(self.mod, f.id)
            return getattr(r, "qualname", None) == name and r.module.relpath == "amr_kitchen/utils.py"
        return False

    # -- handles ---------------------------------------------------------------------
    def do_open(self, node, st):
        pv = self.ev(node.args[0], st)
        mode = "r"
        if len(node.args) > 1:
            mv = self.ev(node.args[1], st)
            mode = mv.const() if isinstance(mv, StrV) and mv.const() else "?"
        for k in node.keywords:
            if k.arg == "mode":
                mv = self.ev(k.value, st)
                mode = mv.const() if isinstance(mv, StrV) and mv.const() else "?"
        self.nh += 1
        h = Handle(self.nh, pv, mode)
        h.fab = self.roles.fabs.get(pv.text(), pv.text() if len(self.roles.fabs) != 0 else "")
        if not self.roles.fabs:
            h.fab = ""
        st.handles[h.hid] = h
        st.hpos[h.hid] = ("aligned", "start")
        self.emit(st, "open", node, h=h, path=pv, mode=mode)
        return h

    def fab_n_bytes(self, fab):
        return Num(Ratio(8) * C(fab, self.roles.ndims).r * N(fab).r)

    def norm_r(self, r):
        """apply the role table's well-formedness equivalences"""
        if not self.roles.equiv:
            return r
        try:
            return r.subs(self.roles.equiv)
        except ValueError:
            return r

    def eq(self, a, b):
        return self.norm_r(a.r if isinstance(a, Num) else a) == self.norm_r(b.r if isinstance(b, Num) else b)

    def handle_call(self, h, meth, node, st):
        pos = st.hpos.get(h.hid, ("top", "unknown"))
        if meth == "seek":
            amt = self.ev(node.args[0], st)
            whence = 0
            if len(node.args) > 1:
                w = self.ev(node.args[1], st)
                whence = int(w.r.const()) if isinstance(w, Num) and w.r.const() is not None else None
            if whence == 0:
                key = amt.text()
                st.hpos[h.hid] = ("aligned", "abs:" + key)
                self.emit(st, "seek_abs", node, h=h, key=key, amount=amt)
                return Num.atom(f"pos({key})")
            if whence == 1:
                if not isinstance(amt, Num):
                    st.hpos[h.hid] = ("top", f"relative seek by {amt.text()}")
                    self.emit(st, "seek_rel", node, h=h, amount=amt, before=pos)
                    return Top("seek")
                self.emit(st, "seek_rel", node, h=h, amount=amt, before=pos)
                if pos[0] == "data":
                    st.hpos[h.hid] = ("data", pos[1], Num(pos[2].r + amt.r))
                else:
                    self.g("G3", None if pos[0] == "top" else False,
                           f"relative seek by {amt.text()} while the handle is not inside FAB data "
                           f"(state {pos[0]}{': ' + str(pos[1]) if pos[0] == 'top' and len(pos) > 1 else ''})", node)
                    st.hpos[h.hid] = ("top", "relative seek outside data")
                return Top("seek result")
            if whence == 2:
                st.hpos[h.hid] = ("eof",)
                self.emit(st, "seek_end", node, h=h, before=pos)
                return Num.atom("EOF")
            st.hpos[h.hid] = ("top", "seek whence")
            return Top("seek")
        if meth == "readline":
            if "b" not in h.mode:
                return Opaque("textline")
            if pos[0] == "aligned":
                fabkey = pos[1]
            elif pos[0] == "data":
                full = self.fab_n_bytes(pos[1])
                if self.eq(pos[2], full):
                    fabkey = "scan"
                else:
                    self.g("G3", False, f"readline while {pos[2].text()} bytes past the header of a FAB of "
                                        f"{full.text()} data bytes: the line read is not a FAB header", node)
                    fabkey = "misaligned"
            else:
                self.g("G3", None if pos[0] == "top" else False, f"readline with the handle in state {pos}", node)
                fabkey = "unknown"
            st.hpos[h.hid] = ("data", h.fab, Num(0))
            self.emit(st, "readline", node, h=h, fabkey=fabkey, before=pos)
            return HdrV(h.fab, "bytes", N(h.fab), "read")
        if meth == "tell":
            self.emit(st, "tell", node, h=h, pos=pos)
            if pos[0] == "data":
                return Num.atom(f"tell(data+{pos[2].text()})")
            return Num.atom(f"tell#{h.hid}")
        if meth == "write":
            v = self.ev(node.args[0], st)
            if isinstance(v, ArrV) and v.flat and v.dims is not None:
                # a flattened array handed to write() goes out through the buffer protocol: the same bytes as
                # .tobytes() of that flat array
                tot = Ratio(8)
                for d in v.dims:
                    tot = tot * d.r
                v = BytesV("data", Num(tot * v.ncomps().r), v)
            self.emit(st, "write", node, h=h, value=v)
            return NoneV()
        if meth == "read":
            st.hpos[h.hid] = ("top", "read()")
            return Opaque("read")
        if meth in ("close", "flush"):
            return NoneV()
        return Top(f"handle.{meth}")

    def hdr_call(self, hdr, meth, node, st):
        if meth == "decode":
            r = copy.copy(hdr)
            r.kind = "str"
            return r
        if meth == "encode":
            r = copy.copy(hdr)
            r.kind = "bytes"
            return r
        if meth == "replace" and len(node.args) == 2:
            a, b = self.ev(node.args[0], st), self.ev(node.args[1], st)
            r = copy.copy(hdr)

            def count_of(s):
                # template  "{X}\n"
                if isinstance(s, StrV) and len(s.parts) == 2 and isinstance(s.parts[0], Num) and s.parts[1] == "\n":
                    return s.parts[0]
                return None
            old, new = count_of(a), count_of(b)

            def bare(s_):
                return s_.parts[0] if isinstance(s_, StrV) and len(s_.parts) == 1 and isinstance(s_.parts[0], Num) else None
            if (old is None or new is None) and bare(a) is not None and bare(b) is not None:
                # the count replaced as bare digits: str.replace rewrites EVERY occurrence, and the digits of the count
                # also occur inside the index ranges of the header line ("(0,0,0) (7,7,7) ... 8\n" with 7 fields)
                self.g("G6", False, f"FAB header count replaced without the line-end anchor: replace({a.text()}, {b.text()}) "
                                    f"rewrites every occurrence of those digits in the header line, the index ranges included "
                                    f"(the header then names another box)", node)
                r.ncomp = bare(b)
                self.emit(st, "hdr-replace", node, old=bare(a), new=bare(b), hdr=hdr)
                return r
            if old is None or new is None:
                self.g("G6", None, f"header rewritten by an unrecognised replace({a.text()}, {b.text()})", node)
                return Top("replace")
            ok = self.eq(old, hdr.ncomp)
            self.g("G6", ok, f"header count replacement replaces {old.text()} (the header carries "
                              f"{hdr.ncomp.text()})", node)
            r.ncomp = new
            self.emit(st, "hdr-replace", node, old=old, new=new, hdr=hdr)
            return r
        if meth == "split":
            return Opaque("hdr.split")
        return Top(f"hdr.{meth}")

    def parse_header(self, name, node, st):
        want, out = PARSERS[name]
        h = self.ev(node.args[0], st)
        if not isinstance(h, HdrV):
            self.g("TEXT-KIND", True, f"{name} applied to a non-header value {h.text()} (not decided)", node)
            return Top("parse of non-header")
        ok = (h.kind == want)
        self.g("TEXT-KIND", ok, f"{name} needs a {want} header line and is given {h.kind}", node)
        self.emit(st, "parse", node, parser=name, hdr=h, kind_ok=ok)
        fab = h.fab
        shape = ShapeV(fab, [D(fab, i) for i in range(3)], h.ncomp, "fab")
        if out == "shape":
            return shape
        if out == "idx":
            return IdxPairV(fab, "fab")
        return Tup([IdxPairV(fab, "fab"), shape])

    def build_header(self, node, st):
        a = [self.ev(x, st) for x in node.args]
        if len(a) != 3:
            return Top("header_from_indices arity")
        lo, hi, n = a

        def src(v, which):
            if isinstance(v, VecV) and v.what == which:
                return (v.fab, v.prov, v.src)
            return None
        s_lo, s_hi = src(lo, "start"), src(hi, "stop")
        h = HdrV("?", "bytes", n if isinstance(n, Num) else Num.atom(n.text()), "built", canonical=True)
        h.idx_src = None
        if s_lo is not None and s_lo == s_hi:
            h.idx_fab, h.idx_prov, h.idx_src = s_lo
            h.fab = h.idx_fab
            self.g("G6-IDX", True, f"built header takes start and stop from the same index pair <{s_lo}>", node)
        else:
            undec = any(isinstance(x, (Top, Opaque)) or "opaque:" in x.text() or "TOP(" in x.text() for x in (lo, hi))
            self.g("G6-IDX", None if undec else False,
                   f"header_from_indices(start={lo.text()}, stop={hi.text()}): start/stop are "
                   f"not element 0 / element 1 of one index pair", node)
        self.emit(st, "build-header", node, hdr=h)
        return h

    def np_prod(self, v):
        if isinstance(v, ShapeV):
            r = Ratio(1)
            dims = v.dims[:self.roles.ndims] if v.prov != "array" else v.dims
            for d in dims:
                r = r * d.r
            if v.n is not None:
                r = r * v.n.r
            return Num(r)
        if isinstance(v, (Tup, VecV)):
            r = Ratio(1)
            for d in v.items:
                if not isinstance(d, Num):
                    return Top("prod of non-numeric")
                r = r * d.r
            return Num(r)
        return Top("prod")

    def np_fromfile(self, node, st, kw):
        h = self.ev(node.args[0], st)
        dt = self.ev(node.args[1], st) if len(node.args) > 1 else (self.ev(kw["dtype"], st) if "dtype" in kw else None)
        cnt = self.ev(node.args[2], st) if len(node.args) > 2 else (self.ev(kw["count"], st) if "count" in kw else None)
        dts = dt.const() if isinstance(dt, StrV) else (dt.text() if dt is not None else None)
        ok = dts in ("float64", "<f8", "f8", "d") or (dts or "").endswith("float64")
        self.g("G1", ok, f"fromfile dtype is {dts!r} (FAB data is float64)", node)
        if not isinstance(h, Handle):
            self.g("G3", None if isinstance(h, (Top, Opaque)) else False, f"fromfile on a non-handle {h.text()}", node)
            return Top("fromfile")
        pos = st.hpos.get(h.hid, ("top", ""))
        arr = ArrV(h.fab)
        if cnt is None or not isinstance(cnt, Num):
            self.g("G5", False if cnt is None else None,
                   f"fromfile without a symbolic element count ({cnt.text() if cnt else 'absent'}) "
                   f"reads to end of file", node)
            st.hpos[h.hid] = ("top", "unbounded read")
            arr.count = Num.atom("unbounded")
            arr.win_lo = Num(0)
            self.emit(st, "fromfile", node, h=h, arr=arr, pos=pos, count=None)
            return arr
        arr.count = cnt
        if pos[0] == "data":
            arr.win_lo = pos[2]
            st.hpos[h.hid] = ("data", pos[1], Num(pos[2].r + Ratio(8) * cnt.r))
            self.g("G3", True, "fromfile inside FAB data after its header was consumed", node)
        else:
            self.g("G3", None if pos[0] == "top" else False,
                   f"fromfile while the handle is in state {pos[0]} (no FAB header consumed at a "
                   f"recorded offset / scan position)", node)
            arr.win_lo = Num.atom("unknown")
            st.hpos[h.hid] = ("top", "read outside data")
        self.emit(st, "fromfile", node, h=h, arr=arr, pos=pos, count=cnt)
        return arr

    def np_concat(self, node, st, kw, ext):
        lst = self.ev(node.args[0], st)
        axis = norm(kw["axis"]) if "axis" in kw else None
        if isinstance(lst, ListAcc):
            lst = Tup(lst.items)
        if not isinstance(lst, Tup):
            return Opaque(f"concat({lst.text()})", (lst,))
        items = lst.items
        if all(isinstance(x, ArrV) for x in items):
            if all(x.flat for x in items):
                r = ArrV(items[0].fab)
                r.flat = True
                r.order = items[0].order if all(x.order == items[0].order for x in items) else "mixed"
                r.dims = items[0].dims
                r.has_comp_axis = True
                r.comps = []
                for x in items:
                    r.comps += (x.comps if x.has_comp_axis else [x.scalar_comp])
                r.parts = items
                r.origin = "concat-flat"
                r.arith = sum((x.arith for x in items), [])
                self.emit(st, "concat", node, arrs=items, axis=axis, result=r, flat=True)
                return r
            if axis in ("-1", "3", "2") or ext.endswith("hstack"):
                r = ArrV(items[0].fab)
                r.dims = items[0].dims
                r.order = "n/a"
                r.has_comp_axis = True
                r.comps = []
                for x in items:
                    if x.has_comp_axis:
                        r.comps += x.comps
                    elif x.dims is None:
                        r.comps.append(CompSel(x.fab, "opaque", f"unreshaped flat data of {x.text()}", x.count))
                        self.g("G2", False, f"flat (never reshaped) fromfile data {x.text()} concatenated along "
                                            f"the component axis", node)
                    else:
                        r.comps.append(x.scalar_comp)
                        if any(y.has_comp_axis for y in items):
                            self.g("G2", False, f"np.concatenate(axis={axis}) mixes arrays with a component axis and "
                                                f"{x.text()[:50]} without one (rank {len(x.dims)}): numpy raises "
                                                f"ValueError (all arrays must have the same number of dimensions)", node)
                r.parts = items
                r.origin = "concat"
                r.arith = sum((x.arith for x in items), [])
                r.spatial = items[0].spatial
                self.emit(st, "concat", node, arrs=items, axis=axis, result=r, flat=False)
                return r
        if all(isinstance(x, ArrV) for x in items) and axis in ("3", "-1"):
            ranks = [len(x.dims or []) + (1 if x.has_comp_axis else 0) for x in items]
            if len(set(ranks)) > 1:
                self.g("G2", False, f"np.concatenate(axis={axis}) of arrays of different rank {ranks} "
                                    f"({[x.text()[:40] for x in items]}): numpy raises ValueError", node)
        # mixture with opaque (recipe output)
        r = ArrV(next((x.fab for x in items if isinstance(x, ArrV)), ""))
        r.dims = next((x.dims for x in items if isinstance(x, ArrV)), None)
        r.has_comp_axis = True
        r.comps = []
        for x in items:
            if isinstance(x, ArrV) and x.has_comp_axis:
                r.comps += x.comps
            elif isinstance(x, ArrV):
                r.comps.append(x.scalar_comp or CompSel(x.fab, "opaque", x.text()))
            else:
                r.comps.append(CompSel("new", "opaque", x.text(), getattr(x, "ncomp", None)))
        r.parts = items
        r.origin = "concat"
        r.order = "n/a"
        self.emit(st, "concat", node, arrs=items, axis=axis, result=r, flat=False)
        return r

    def arr_call(self, arr, meth, node, st, kw):
        if meth == "reshape":
            shp = self.ev(node.args[0], st) if node.args else None
            order = None
            if "order" in kw:
                o = self.ev(kw["order"], st)
                order = o.const() if isinstance(o, StrV) else "?"
            elif len(node.args) > 1:
                o = self.ev(node.args[1], st)
                order = o.const() if isinstance(o, StrV) else "?"
            else:
                order = "C(default)"
            r = copy.copy(arr)
            ArrV._n += 1
            r.aid = ArrV._n
            r.order = order
            dims, n = None, None
            if isinstance(shp, ShapeV):
                dims, n = shp.dims[:self.roles.ndims] if shp.prov != "array" else shp.dims, shp.n
                r.shape_prov = shp.prov
            elif isinstance(shp, Tup) and all(isinstance(x, Num) for x in shp.items):
                items = shp.items
                r.shape_prov = "tuple"
                # component axis present iff the tuple is longer than the spatial rank
                nd = self.roles.ndims
                if len(items) == nd + 1:
                    dims, n = items[:nd], items[nd]
                else:
                    dims, n = items, None
            else:
                self.g("G2", None, f"reshape to an unrecognised shape {shp.text() if shp else None}", node)
                return Top("reshape")
            tot = Ratio(1)
            for d in dims:
                tot = tot * d.r
            if n is not None:
                tot = tot * n.r
            self.g("G2", self.eq(Num(tot), arr.count),
                   f"reshape target has {Num(tot).text()} elements, the read has {arr.count.text()}", node)
            self.g("G2-ORDER", order == "F", f"reshape of FAB data uses order={order!r} (x fastest needs 'F')", node)
            r.dims = dims
            lo_comp = self.win_comp(arr)
            if n is not None:
                r.has_comp_axis = True
                r.comps = [CompSel(arr.fab, "range", lo_comp, Num(lo_comp.r + n.r), None)]
            else:
                r.has_comp_axis = False
                r.scalar_comp = CompSel(arr.fab, "single", lo_comp)
            self.emit(st, "reshape", node, arr=r, src=arr, order=order)
            return r
        if meth in ("flatten", "ravel"):
            order = "C(default)"
            if "order" in kw:
                o = self.ev(kw["order"], st)
                order = o.const() if isinstance(o, StrV) else "?"
            elif node.args:
                o = self.ev(node.args[0], st)
                order = o.const() if isinstance(o, StrV) else "?"
            r = copy.copy(arr)
            ArrV._n += 1
            r.aid = ArrV._n
            r.flat = True
            r.order = order
            r.src = arr
            self.g("G2-ORDER", order == "F", f"flatten of FAB data uses order={order!r} (x fastest needs 'F')", node)
            self.emit(st, "flatten", node, arr=r, src=arr, order=order)
            return r
        if meth == "tobytes":
            nb = None
            if arr.dims is not None:
                tot = Ratio(8)
                for d in arr.dims:
                    tot = tot * d.r
                tot = tot * arr.ncomps().r
                nb = Num(tot)
            if not arr.flat and arr.dims is not None:
                self.g("G2-ORDER", False, "tobytes() of a multi-dimensional array without an order='F' flatten "
                                          "serialises in C order", node)
            return BytesV("data", nb, arr)
        if meth == "copy":
            r = copy.copy(arr)
            r.base = None
            return r
        if meth in ("astype",):
            r = copy.copy(arr)
            r.arith = arr.arith + [norm(node)]
            return r
        return Opaque(f"{arr.text()}.{meth}", (arr,))

    def win_comp(self, arr):
        """first component index of a window that starts win_lo bytes past the header"""
        fab = arr.fab
        c8 = Ratio(8) * C(fab, self.roles.ndims).r
        w = self.norm_r(arr.win_lo.r)
        if w.is_poly() and c8.is_poly():
            q = w.n.div_monomial(c8.n)
            if q is not None:
                return Num(Ratio(q))
        # not a whole number of components
        return Num.atom(f"frac({arr.win_lo.text()}/8C)")

    # -- statements --------------------------------------------------------------------
    def run(self):
        st = State()
        for p in self.fi.params:
            st.env[p] = Num.atom(p)
        outs = self.block(self.fi.node.body, [st])
        return outs

    def block(self, stmts, states):
        for s in stmts:
            nxt = []
            for st in states:
                if st.done or st.broke:
                    nxt.append(st)
                    continue
                nxt.extend(self.stmt(s, st))
            states = nxt
            if len(states) > MAX_PATHS:
                raise AnalysisError(self.rule, self.fi.site, f"more than {MAX_PATHS} paths")
        return states

    def stmt(self, s, st):
        m = getattr(self, "st_" + type(s).__name__, None)
        if m is None:
            return [st]
        return m(s, st)

    def bind(self, target, val, st, node=None):
        if isinstance(target, ast.Name):
            st.env[target.id] = val
        elif isinstance(target, (ast.Tuple, ast.List)):
            n = len(target.elts)
            if isinstance(val, Tup) and len(val.items) == n:
                for t, v in zip(target.elts, val.items):
                    self.bind(t, v, st, node)
            elif isinstance(val, Num) and val.atom_name() is not None:
                for i, t in enumerate(target.elts):
                    self.bind(t, Num.atom(f"{val.atom_name()}[{i}]"), st, node)
            elif isinstance(val, Opaque):
                for i, t in enumerate(target.elts):
                    self.bind(t, Opaque(f"{val.text()}[{i}]", (val,)), st, node)
            else:
                for t in target.elts:
                    self.bind(t, Top("unpack"), st, node)
        elif isinstance(target, ast.Subscript):
            base = self.ev(target.value, st)
            self.emit(st, "store", node or target, base=base, index=norm(target.slice), value=val,
                      target=norm(target))
        elif isinstance(target, ast.Attribute):
            base = self.ev(target.value, st)
            self.emit(st, "attr-store", node or target, base=base, attr=target.attr, value=val)

    def st_Assign(self, s, st):
        v = self.ev(s.value, st)
        if isinstance(v, Tup) and not v.items and isinstance(s.value, ast.List):
            if len(s.targets) == 1 and isinstance(s.targets[0], ast.Name):
                v = ListAcc(s.targets[0].id)
        for t in s.targets:
            self.bind(t, v, st, s)
        return [st]

    def st_AnnAssign(self, s, st):
        if s.value is not None:
            self.bind(s.target, self.ev(s.value, st), st, s)
        return [st]

    def st_AugAssign(self, s, st):
        if isinstance(s.target, ast.Name):
            cur = self.ev(s.target, st)
            rhs = self.ev(s.value, st)
            fake = ast.BinOp(left=s.target, op=s.op, right=s.value)
            ast.copy_location(fake, s)
            st.env[s.target.id] = self.ev_BinOp(fake, st)
        else:
            base = self.ev(s.target.value, st) if isinstance(s.target, ast.Subscript) else None
            self.emit(st, "store", s, base=base, index=norm(s.target.slice) if isinstance(s.target, ast.Subscript) else "",
                      value=self.ev(s.value, st), target=norm(s.target), aug=type(s.op).__name__)
        return [st]

    def st_Expr(self, s, st):
        self.ev(s.value, st)
        return [st]

    def st_Pass(self, s, st):
        return [st]

    def st_Return(self, s, st):
        st.ret = self.ev(s.value, st) if s.value is not None else NoneV()
        self.emit(st, "return", s, value=st.ret)
        st.done = True
        return [st]

    def st_Break(self, s, st):
        st.broke = True
        return [st]

    def st_Continue(self, s, st):
        st.broke = True
        st.continued = True
        return [st]

    def st_Raise(self, s, st):
        st.done = True
        st.raised = True
        return [st]

    def st_Assert(self, s, st):
        return [st]

    def st_With(self, s, st):
        for item in s.items:
            v = self.ev(item.context_expr, st)
            if item.optional_vars is not None:
                self.bind(item.optional_vars, v, st, s)
        outs = self.block(s.body, [st])
        return outs

    def cmp_events(self, test, st):
        out = []
        for n in ast.walk(test):
            if isinstance(n, ast.Compare) and len(n.ops) == 1:
                out.append((type(n.ops[0]).__name__, self.ev(n.left, st), self.ev(n.comparators[0], st), n))
            elif isinstance(n, ast.Call) and len(n.args) >= 2 and (self.ext(n.func) or "") in (
                    "numpy.array_equal", "numpy.isclose", "numpy.allclose", "numpy.array_equiv"):
                out.append((self.ext(n.func).split(".")[-1], self.ev(n.args[0], st), self.ev(n.args[1], st), n))
        return out

    def st_If(self, s, st):
        # the condition with single-assignment locals substituted: `n = len(xs) ... if n > 0` reads `len(xs) > 0`
        from . import rules as _rules
        if getattr(self, "_lenv", None) is None:
            self._lenv = _rules.local_env(self.fi.node)
        try:
            cond = _rules.deep(s.test, self._lenv, tuple(self.fi.params))
        except Exception:
            cond = norm(s.test)
        cmps = self.cmp_events(s.test, st)
        self.ev(s.test, st)
        self.emit(st, "test", s, cond=cond, cmps=cmps)
        a = st.fork()
        a.conds.append((cond, True, cmps))
        b = st.fork()
        b.conds.append((cond, False, cmps))
        for (op, l, r, _n) in cmps:
            if op == "Lt" and isinstance(l, Num) and l.text() == "rank(new)" and isinstance(r, Num) and r.r == Ratio(4):
                self.refine_rank(a, 3)
                self.refine_rank(b, 4)
        outs = self.block(s.body, [a])
        outs += self.block(s.orelse, [b]) if s.orelse else [b]
        return outs

    def refine_rank(self, st, rank):
        for k, v in list(st.env.items()):
            if isinstance(v, ArrV) and getattr(v, "origin", "") == "new" and getattr(v, "rank", 0) is None:
                r = copy.copy(v)
                self.set_rank(r, rank)
                st.env[k] = r

    def st_Try(self, s, st):
        outs = self.block(s.body, [st.fork()])
        # handlers: analysed from the state at try entry (the failing statement is unknown)
        for h in s.handlers:
            hs = st.fork()
            hs.conds.append((f"except {norm(h.type) if h.type else ''}", True, []))
            hs.in_handler = True
            res = self.block(h.body, [hs])
            for r in res:
                # a handler that breaks/returns ends the scan; one that falls through continues
                if r.broke or r.done:
                    r.from_handler = True
                    outs.append(r)
                else:
                    self.emit(r, "handler-fallthrough", h)
                    outs.append(r)
        if s.orelse:
            keep = [o for o in outs if not getattr(o, "from_handler", False)]
            rest = [o for o in outs if getattr(o, "from_handler", False)]
            outs = self.block(s.orelse, keep) + rest
        if s.finalbody:
            outs = self.block(s.finalbody, outs)
        return outs

    # loops ------------------------------------------------------------------
    def loop_body(self, s, st, label):
        """walk the body once; check the loop-head position invariant for scanned handles"""
        head = dict(st.hpos)
        n0 = len(st.events)
        # loop counters (k = 0 before the loop, k += 1 in the body) are symbolic inside the body
        for n in ast.walk(ast.Module(body=s.body, type_ignores=[])):
            if isinstance(n, ast.AugAssign) and isinstance(n.op, ast.Add) and isinstance(n.target, ast.Name) \
                    and isinstance(n.value, ast.Constant) and n.value.value == 1:
                cur = st.env.get(n.target.id)
                if isinstance(cur, Num) and cur.r.const() is not None:
                    st.env[n.target.id] = Num.atom(f"#{n.target.id}")
        self.loop_stack.append(label)
        st.loop_depth += 1
        outs = self.block(s.body, [st])
        self.loop_stack.pop()
        res = []
        normal = []
        for o in outs:
            o.loop_depth -= 1
            if o.done:
                res.append(o)
                continue
            exited_by_break = o.broke and not getattr(o, "continued", False)
            o.broke = False
            o.continued = False
            if exited_by_break:
                o.exited_loop = label
                res.append(o)
                continue
            # back edge: positions of handles whose first use in the body is position-dependent
            body_events = o.events[n0:]
            for hid, p0 in head.items():
                first = next((e for e in body_events if getattr(e, "h", None) is not None and e.h.hid == hid
                              and e.kind in ("seek_abs", "seek_rel", "readline", "fromfile", "seek_end")), None)
                if first is None or first.kind == "seek_abs":
                    continue
                p1 = o.hpos.get(hid)
                self.check_back_edge(hid, p0, p1, first, o)
            normal.append(o)
        return normal, res

    def check_back_edge(self, hid, p0, p1, first, st):
        h = st.handles[hid]

        def aligned(p):
            if p is None:
                return False
            if p[0] == "aligned":
                return True
            if p[0] == "data":
                return self.eq(p[2], self.fab_n_bytes(p[1]))
            return False
        if p0[0] == "aligned" or aligned(p0):
            ok = None if (p1 is not None and p1[0] == "top") else aligned(p1)
            adv = p1[2].text() if p1 and p1[0] == "data" else str(p1)
            self.g("G4", ok, f"scan of {h.path.text()}: bytes consumed after each FAB header = {adv}; a whole FAB "
                             f"is {self.fab_n_bytes(h.fab).text()}", first.node)
        elif p0[0] == "data":
            ok = None if (p1 is not None and p1[0] == "top") else (p1 is not None and p1[0] == "data" and self.eq(p0[2], p1[2]))
            self.g("G4", ok, f"loop over {h.path.text()} enters with the handle {p0[2].text()} bytes past a header "
                             f"and comes back {p1[2].text() if p1 and p1[0] == 'data' else p1} bytes past one",
                   first.node)
        else:
            self.g("G4", None if p0[0] == "top" else False,
                   f"loop uses {h.path.text()} position-dependently from state {p0}", first.node)

    def st_While(self, s, st):
        label = f"while@{s.lineno}"
        normal, exits = self.loop_body(s, st, label)
        for e in exits + normal:
            e.scan_loop = label
        # continue after the loop with the most informative states
        cont = normal if normal else exits
        done = [x for x in exits if x.done]
        cont = [c for c in cont if not c.done]
        if s.orelse:
            cont = self.block(s.orelse, cont)
        return cont + done if cont else exits

    def st_For(self, s, st):
        label = f"for@{s.lineno}"
        it = s.iter
        self.bind_loop(s.target, it, st)
        normal, exits = self.loop_body(s, st, label)
        cont = [c for c in (normal or exits) if not c.done]
        done = [x for x in exits if x.done]
        if s.orelse:
            cont = self.block(s.orelse, cont)
        return cont + done if cont else (exits or [st])

    def elem_of(self, seq, st):
        """abstract element of a sequence value (one per iteration)"""
        if isinstance(seq, Num) and seq.atom_name() is not None:
            full = f"{seq.atom_name()}[i]"
            li = self.level_index_of(full)
            if li is not None:
                return IdxPairV(li, "level", full)
            return Num.atom(full)
        if isinstance(seq, Tup):
            if seq.items and all(x.text() == seq.items[0].text() for x in seq.items):
                return seq.items[0]
            return Opaque(f"elem({seq.text()})", (seq,))
        if isinstance(seq, ListAcc):
            return Opaque(f"elem({seq.name})", tuple(seq.items))
        return Opaque(f"elem({seq.text()})", (seq,))

    def bind_loop(self, target, it, st):
        if isinstance(it, ast.Call) and isinstance(it.func, ast.Name):
            fn = it.func.id
            if fn == "zip":
                elems = [self.elem_of(self.ev(a, st), st) for a in it.args]
                self.bind(target, Tup(elems), st)
                self.emit(st, "zip", it, seqs=[self.ev(a, st) for a in it.args])
                return
            if fn == "enumerate" and it.args:
                inner = it.args[0]
                seqv = self.ev(inner, st)
                # enumerate(x[:-1]) etc.
                self.bind(target, Tup([Num.atom(f"#i{len(self.loop_stack)}"), self.elem_of(seqv, st)]), st)
                return
            if fn == "range":
                self.bind(target, Num.atom(f"{norm(target)}@range"), st)
                return
        seqv = self.ev(it, st)
        self.bind(target, self.elem_of(seqv, st), st)


# ---------------------------------------------------------------------------
# running an accessor and deciding the generic obligations
# ---------------------------------------------------------------------------
class AccessorResult:
    def __init__(self, fi, interp, paths):
        self.fi = fi
        self.interp = interp
        self.paths = paths

    def events(self, kind=None):
        seen = set()
        out = []
        for p in self.paths:
            for e in p.events:
                if (kind is None or e.kind == kind) and id(e) not in seen:
                    seen.add(id(e))
                    out.append(e)
        return out


def analyse(prog, fi, roles, rule="E1"):
    ip = Interp(prog, fi, roles, rule)
    paths = ip.run()
    return AccessorResult(fi, ip, paths)


def report_generic(ctx, res, prop_rule_prefix, skip=()):
    """turn the interpreter's generic obligations (G1..G7, TEXT-KIND) into results"""
    fi = res.fi
    seen = set()
    for rule, ok, what, node in res.interp.generic:
        if rule in skip:
            continue
        line = getattr(node, "lineno", 0)
        stmt_key = norm(node)[:80] if node is not None else ""
        k = (rule, ok, what, stmt_key)
        if k in seen:
            continue
        seen.add(k)
        full_rule = f"{prop_rule_prefix}.{rule}"
        if ok is None:
            ctx.unknown(full_rule, fi.site, what, key=_key_of(node), where=f"{fi.module.relpath}:{line}")
        elif ok:
            ctx.ok(full_rule, fi.site, what, key=_key_of(node))
        else:
            ctx.finding(full_rule, fi.site, what, key=_key_of(node),
                        where=f"{fi.module.relpath}:{line}", semantic=True)


def _key_of(node):
    """construct key of a node that is independent of line numbers: normalised text, shortened"""
    if node is None:
        return ""
    t = norm(node)
    return t if len(t) <= 60 else t[:57] + "..."


def is_accessor(fi):
    """a function that opens a file in binary mode and reads/seeks/writes it"""
    for n in ast.walk(fi.node):
        if isinstance(n, ast.Call) and isinstance(n.func, ast.Name) and n.func.id == "open":
            mode = None
            if len(n.args) > 1 and isinstance(n.args[1], ast.Constant):
                mode = n.args[1].value
            for k in n.keywords:
                if k.arg == "mode" and isinstance(k.value, ast.Constant):
                    mode = k.value.value
            if isinstance(mode, str) and "b" in mode:
                return True
    return False
