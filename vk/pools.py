"""E2 — pool protocol analysis: sites, primitives, workers, task producers, result consumers.

P1 ordering · P2 task keys · P3 worker purity · P7 no worker-count dependence ·
X2 results fetched.  Site-specific structure (scatter maps, access kind ↔ map order)
is decided with the helpers at the bottom by the owning checks.
"""
import ast

from .model import (norm, parents, enclosing, stmt_of, call_name, walk_no_nested, FunctionInfo,
                    AnalysisError, loc, symtable_free_globals)
from .rules import local_env, leaf_text

ORDERED = {"map", "imap", "starmap", "amap", "map_async", "starmap_async"}
UNORDERED = {"imap_unordered", "uimap"}
OTHER = {"apply_async", "apply"}
TRANSPARENT = {"tqdm", "list", "tuple", "iter"}
NONDET = {"time.time", "time.time_ns", "time.perf_counter", "random.random", "random.randint", "random.shuffle",
          "random.choice", "os.getpid", "uuid.uuid4", "uuid.uuid1", "os.listdir", "os.scandir", "glob.glob",
          "numpy.random.rand", "numpy.random.random", "numpy.random.randint", "numpy.random.shuffle",
          "os.urandom", "datetime.datetime.now"}
WORKER_COUNT = {"multiprocessing.cpu_count", "os.cpu_count", "os.sched_getaffinity"}


class PoolSite:
    def __init__(self, fi, call, prim, pool_kind, pool_expr):
        self.fi = fi
        self.call = call
        self.prim = prim
        self.pool_kind = pool_kind     # 'multiprocessing' | 'pathos' | 'builtin-map' | 'serial-loop'
        self.pool_expr = pool_expr
        self.workers = []
        self.task = None
        self.consumer = None           # (kind, detail, node)

    @property
    def ordered(self):
        return self.prim in ORDERED or self.pool_kind in ("builtin-map", "serial-loop")

    @property
    def key(self):
        w = ",".join(sorted(x.qualname for x in self.workers)) or norm(self.call.args[0] if self.call.args else self.call)
        return f"{self.prim}({w})"

    def __repr__(self):
        return f"<pool {self.fi.site} {self.key} {self.pool_kind}>"


def _pool_ctor_kind(prog, fi, node):
    """is `node` a call constructing a process pool? -> kind or None"""
    if not isinstance(node, ast.Call):
        return None
    ext = prog.external_name(fi.module, node.func) or ""
    if ext in ("multiprocessing.Pool", "multiprocessing.pool.Pool", "multiprocessing.get_context.Pool"):
        return "multiprocessing"
    if ext.startswith("pathos.") and ext.endswith(("ProcessingPool", "ProcessPool", "Pool")):
        return "pathos"
    if ext.startswith("multiprocess.") and ext.endswith("Pool"):
        return "multiprocessing"
    if ext.startswith("concurrent.futures") and ext.endswith("ProcessPoolExecutor"):
        return "executor"
    return None


def pool_bindings(prog, fi):
    """names / self-attributes bound to pools inside fi (and self.pool across the class)"""
    names = {}
    for n in walk_no_nested(fi.node):
        if isinstance(n, ast.Assign):
            k = _pool_ctor_kind(prog, fi, n.value)
            if k:
                for t in n.targets:
                    names[norm(t)] = (k, n)
        elif isinstance(n, ast.withitem):
            k = _pool_ctor_kind(prog, fi, n.context_expr)
            if k and n.optional_vars is not None:
                names[norm(n.optional_vars)] = (k, n)
    if fi.cls is not None:
        for c in prog.mro(fi.cls):
            for m in c.methods.values():
                for n in walk_no_nested(m.node):
                    if isinstance(n, ast.Assign):
                        k = _pool_ctor_kind(prog, m, n.value)
                        if k:
                            for t in n.targets:
                                if isinstance(t, ast.Attribute) and norm(t).startswith("self."):
                                    names.setdefault(norm(t), (k, n))
    return names


def find_sites(prog, fi):
    sites = []
    binds = pool_bindings(prog, fi)
    pmap = parents(fi.node)
    for n in walk_no_nested(fi.node):
        if not isinstance(n, ast.Call):
            continue
        f = n.func
        if isinstance(f, ast.Attribute) and f.attr in (ORDERED | UNORDERED | OTHER):
            recv = f.value
            kind = None
            if norm(recv) in binds:
                kind = binds[norm(recv)][0]
            else:
                kind = _pool_ctor_kind(prog, fi, recv)
            if kind is None:
                # an attribute call named like a primitive on something that is not a known pool:
                # `pool` used but never bound is reported by the owning check through U1
                if isinstance(recv, ast.Name) and recv.id == "pool":
                    kind = "unbound"
                else:
                    continue
            s = PoolSite(fi, n, f.attr, kind, norm(recv))
            if n.args:
                s.workers = prog.resolve_callable(fi, n.args[0])
                s.worker_expr = n.args[0]
                s.task = n.args[1] if len(n.args) > 1 else None
            s.consumer = classify_consumer(fi, n, pmap)
            sites.append(s)
        elif isinstance(f, ast.Name) and f.id == "map" and len(n.args) == 2:
            w = prog.resolve_callable(fi, n.args[0])
            if w:
                s = PoolSite(fi, n, "map", "builtin-map", "builtins")
                s.workers, s.worker_expr, s.task = w, n.args[0], n.args[1]
                s.consumer = classify_consumer(fi, n, pmap)
                sites.append(s)
    # serial loops: for a in tasks: out.append(worker(a))
    for n in walk_no_nested(fi.node):
        if isinstance(n, ast.For) and isinstance(n.target, ast.Name):
            for b in n.body:
                for c in ast.walk(b):
                    if isinstance(c, ast.Call) and len(c.args) == 1 and isinstance(c.args[0], ast.Name) \
                            and c.args[0].id == n.target.id:
                        w = prog.resolve_callable(fi, c.func)
                        w = [x for x in w if isinstance(x, FunctionInfo) and x.cls is None]
                        if w and _looks_like_worker(w):
                            s = PoolSite(fi, c, "for", "serial-loop", "serial")
                            s.workers, s.worker_expr = w, c.func
                            it = n.iter
                            while isinstance(it, ast.Call) and call_name(it) in TRANSPARENT and it.args:
                                it = it.args[0]
                            s.task = it
                            s.loop = n
                            s.consumer = ("positional", "serial loop appends in task order", n)
                            sites.append(s)
    # serial comprehensions: [worker(a) for a in tasks]  (the same computation as the loop above, in task order)
    for n in walk_no_nested(fi.node):
        if isinstance(n, ast.ListComp) and len(n.generators) == 1 and not n.generators[0].ifs \
                and isinstance(n.generators[0].target, ast.Name) and isinstance(n.elt, ast.Call) \
                and len(n.elt.args) == 1 and isinstance(n.elt.args[0], ast.Name) \
                and n.elt.args[0].id == n.generators[0].target.id:
            w = prog.resolve_callable(fi, n.elt.func)
            w = [x for x in w if isinstance(x, FunctionInfo) and x.cls is None]
            if w and _looks_like_worker(w):
                s = PoolSite(fi, n.elt, "for", "serial-loop", "serial")
                s.workers, s.worker_expr = w, n.elt.func
                it = n.generators[0].iter
                while isinstance(it, ast.Call) and call_name(it) in TRANSPARENT and it.args:
                    it = it.args[0]
                s.task = it
                s.loop = n
                s.consumer = ("positional", "serial comprehension builds the list in task order", n)
                sites.append(s)
    return sites


def _looks_like_worker(ws):
    return all(len(w.params) == 1 for w in ws)


def unwrap(node, pmap):
    """climb through transparent wrappers tqdm(...), list(...)"""
    cur = node
    while True:
        p = pmap.get(cur)
        if isinstance(p, ast.Call) and call_name(p) in TRANSPARENT and p.args and p.args[0] is cur:
            cur = p
            continue
        if isinstance(p, ast.keyword):
            return cur, p
        return cur, p


def classify_consumer(fi, call, pmap):
    """how are the results of the pool call consumed?
    -> (kind, detail, node); kind in positional | accumulate | any-nonnone | self-describing |
       returned | discarded | unknown"""
    cur, p = unwrap(call, pmap)
    # for r in pool.imap(...):
    if isinstance(p, ast.For) and p.iter is cur:
        return classify_loop(fi, p, p.target)
    if isinstance(p, ast.Return):
        return ("returned", "returned to the caller (positional contract)", p)
    if isinstance(p, ast.Call):
        cn = call_name(p)
        if cn == "zip":
            return ("positional", f"zipped positionally: {norm(p)[:80]}", p)
        if cn == "append":
            return ("positional", f"appended as the ordered result list: {norm(p)[:80]}", p)
        if cn == "enumerate":
            return ("positional", "enumerated", p)
    if isinstance(p, ast.Assign) and any(isinstance(t, ast.Attribute) for t in p.targets):
        return ("returned", f"stored into {norm(p.targets[0])} and consumed through the object", p)
    if isinstance(p, ast.Assign):
        names = [norm(t) for t in p.targets]
        uses = []
        fn = fi.node
        for n in walk_no_nested(fn):
            if isinstance(n, ast.Name) and isinstance(n.ctx, ast.Load) and n.id in names and n is not cur:
                uses.append(n)
        kinds = []
        for u in uses:
            if u.lineno < p.lineno:
                continue
            c2, p2 = unwrap(u, pmap)
            if isinstance(p2, ast.For) and p2.iter is c2:
                kinds.append(classify_loop(fi, p2, p2.target))
            elif isinstance(p2, ast.Call) and call_name(p2) == "zip":
                kinds.append(("positional", f"zipped positionally: {norm(p2)[:80]}", p2))
            elif isinstance(p2, ast.Return):
                kinds.append(("returned", "returned", p2))
            elif isinstance(p2, ast.Subscript):
                kinds.append(("positional", "indexed", p2))
            else:
                kinds.append(("positional", f"used as a sequence in {norm(stmt_of(u, pmap))[:60]}", p2))
        if not kinds:
            return ("discarded", "result bound but never used", p)
        for pref in ("positional", "accumulate", "returned", "any-nonnone", "self-describing"):
            for k in kinds:
                if k[0] == pref:
                    return k
        return kinds[0]
    if isinstance(p, ast.Expr):
        return ("discarded", "result discarded", p)
    if isinstance(p, ast.Attribute):
        return ("unknown", f"method {p.attr} on the result", p)
    return ("unknown", f"consumed by {type(p).__name__}", p)


def classify_loop(fi, loop, target):
    """consumer loop `for target in results:`"""
    tnames = {n.id for n in ast.walk(target) if isinstance(n, ast.Name)}
    accum, stores, appends, anynn, other = [], [], [], [], []
    for n in ast.walk(ast.Module(body=loop.body, type_ignores=[])):
        if isinstance(n, ast.AugAssign):
            accum.append(n)
        elif isinstance(n, ast.Call) and call_name(n) == "append":
            appends.append(n)
        elif isinstance(n, (ast.Assign,)):
            for t in n.targets:
                if isinstance(t, ast.Subscript):
                    stores.append((t, n))
    # `if r is not None: raise/raise_error`
    body = loop.body
    if len(body) >= 1 and all(isinstance(b, ast.If) or isinstance(b, ast.Expr) for b in body):
        ifs = [b for b in body if isinstance(b, ast.If)]
        if ifs and all(_is_none_test(i.test, tnames) for i in ifs) and not accum and not appends and not stores:
            return ("any-nonnone", "any non-None result is reported (order-insensitive)", loop)
    if accum:
        return ("accumulate", f"order-sensitive accumulation {norm(accum[0])[:60]}", loop)
    if appends:
        return ("positional", f"appended in completion order: {norm(appends[0])[:60]}", loop)
    if stores:
        # self-describing: every store index is built only from the result and loop invariants
        assigned_in_loop = set()
        for n in ast.walk(ast.Module(body=loop.body, type_ignores=[])):
            if isinstance(n, ast.Name) and isinstance(n.ctx, ast.Store):
                assigned_in_loop.add(n.id)
        derived = set(tnames)
        changed = True
        # names derived from the result inside the loop (for idx, arr in zip(res[0], res[1]))
        while changed:
            changed = False
            for n in ast.walk(ast.Module(body=loop.body, type_ignores=[])):
                src, tgt = None, None
                if isinstance(n, ast.For):
                    src, tgt = n.iter, n.target
                elif isinstance(n, ast.Assign) and len(n.targets) == 1:
                    src, tgt = n.value, n.targets[0]
                if src is None:
                    continue
                src_names = {x.id for x in ast.walk(src) if isinstance(x, ast.Name)}
                if src_names & derived:
                    for x in ast.walk(tgt):
                        if isinstance(x, ast.Name) and x.id not in derived:
                            derived.add(x.id)
                            changed = True
        bad = []
        for t, st in stores:
            idx_names = {x.id for x in ast.walk(t.slice) if isinstance(x, ast.Name)}
            loop_local_foreign = (idx_names & assigned_in_loop) - derived
            if loop_local_foreign:
                bad.append((t, loop_local_foreign))
        if not bad:
            return ("self-describing", "every store is addressed by values carried in the result", loop)
        return ("positional", f"store addressed by loop-local state {sorted(bad[0][1])}", loop)
    return ("unknown", "loop body not classified", loop)


def _is_none_test(t, names):
    if isinstance(t, ast.Compare) and len(t.ops) == 1 and isinstance(t.ops[0], (ast.IsNot, ast.NotEq)) \
            and isinstance(t.comparators[0], ast.Constant) and t.comparators[0].value is None:
        return bool({n.id for n in ast.walk(t.left) if isinstance(n, ast.Name)} & names)
    return False


# ---------------------------------------------------------------------------
# rules
# ---------------------------------------------------------------------------
def rule_P1(ctx, prefix, site):
    kind, detail, node = site.consumer
    s = site.fi.site
    where = loc(site.fi, site.call)
    if site.pool_kind == "unbound":
        ctx.finding(f"{prefix}.P1", s, f"{site.prim} is called on `{site.pool_expr}`, which is bound to no pool "
                                      f"in this function or class", key=site.key, where=where)
        return
    if site.prim in OTHER:
        ctx.finding(f"{prefix}.P1", s, f"results gathered through {site.prim} (completion order) and consumed: "
                                      f"{detail}", key=site.key, where=where)
        return
    if site.ordered:
        ctx.ok(f"{prefix}.P1", s, f"{site.prim} preserves task order; consumer: {kind} ({detail})", key=site.key)
        return
    if kind in ("self-describing", "any-nonnone"):
        ctx.ok(f"{prefix}.P1", s, f"{site.prim} is unordered and the consumer is order-insensitive: {detail}",
               key=site.key)
    else:
        ctx.finding(f"{prefix}.P1", s, f"{site.prim} yields results in completion order but the consumer is "
                                      f"{kind}: {detail}", key=site.key, where=where)


def rule_X2(ctx, prefix, site):
    kind, detail, node = site.consumer
    if site.prim in ("imap", "imap_unordered", "uimap", "amap", "map_async", "apply_async"):
        ctx.check(kind not in ("discarded",), f"{prefix}.X2", site.fi.site,
                  f"lazy results of {site.prim} are consumed ({kind}) so worker exceptions surface",
                  f"lazy results of {site.prim} are never fetched: worker exceptions (I/O errors) are lost",
                  key=site.key, where=loc(site.fi, site.call))


def worker_task_keys(worker):
    """string keys subscripted on the worker's task parameter (with simple aliases)"""
    if not worker.params:
        return set(), None
    p = worker.params[0]
    keys, ints = set(), set()
    for n in ast.walk(worker.node):
        if isinstance(n, ast.Subscript) and isinstance(n.value, ast.Name) and n.value.id == p:
            if isinstance(n.slice, ast.Constant):
                if isinstance(n.slice.value, str):
                    keys.add(n.slice.value)
                elif isinstance(n.slice.value, int):
                    ints.add(n.slice.value)
    arity = None
    for n in ast.walk(worker.node):
        if isinstance(n, ast.Assign) and isinstance(n.value, ast.Name) and n.value.id == p \
                and isinstance(n.targets[0], (ast.Tuple, ast.List)):
            arity = len(n.targets[0].elts)
    return keys, (ints, arity)


def dict_literal_keys(d):
    return {k.value for k in d.keys if isinstance(k, ast.Constant) and isinstance(k.value, str)}


def producer_keys(prog, fi, task, depth=0):
    """keys of the task dicts produced by `task` expression inside fi -> (set|None, description)"""
    if task is None or depth > 4:
        return None, "no task expression"
    if isinstance(task, ast.Call) and call_name(task) in (TRANSPARENT | {"reversed", "sorted"}) and task.args:
        return producer_keys(prog, fi, task.args[0], depth + 1)
    if isinstance(task, ast.Subscript):
        return producer_keys(prog, fi, task.value, depth + 1)
    if isinstance(task, ast.Name):
        keys, found = set(), False
        for n in walk_no_nested(fi.node):
            # name.append(X)
            if isinstance(n, ast.Call) and call_name(n) == "append" and isinstance(n.func, ast.Attribute) \
                    and isinstance(n.func.value, ast.Name) and n.func.value.id == task.id and n.args:
                k, _ = producer_keys(prog, fi, n.args[0], depth + 1)
                if k is not None:
                    keys |= k
                    found = True
            if isinstance(n, ast.Assign) and any(isinstance(t, ast.Name) and t.id == task.id for t in n.targets):
                v = n.value
                if isinstance(v, ast.Dict):
                    keys |= dict_literal_keys(v)
                    found = True
                    # later subscript stores name['k'] = ...
                    for m in walk_no_nested(fi.node):
                        if isinstance(m, ast.Assign):
                            for t in m.targets:
                                if isinstance(t, ast.Subscript) and isinstance(t.value, ast.Name) \
                                        and t.value.id == task.id and isinstance(t.slice, ast.Constant):
                                    keys.add(t.slice.value)
                elif isinstance(v, (ast.ListComp, ast.List, ast.Call)):
                    k, _ = producer_keys(prog, fi, v, depth + 1)
                    if k is not None:
                        keys |= k
                        found = True
        return (keys if found else None), f"list `{task.id}`"
    if isinstance(task, ast.Dict):
        return dict_literal_keys(task), "dict literal"
    if isinstance(task, ast.ListComp):
        return producer_keys(prog, fi, task.elt, depth + 1)
    if isinstance(task, ast.List):
        keys, found = set(), False
        for e in task.elts:
            k, _ = producer_keys(prog, fi, e, depth + 1)
            if k is not None:
                keys |= k
                found = True
        return (keys if found else None), "list literal"
    if isinstance(task, ast.Call):
        gens = prog.resolve_callable(fi, task.func)
        keys, found = set(), False
        for g in gens:
            ys = [n for n in ast.walk(g.node) if isinstance(n, ast.Yield) and n.value is not None]
            for y in ys:
                if isinstance(y.value, ast.Name):
                    k, _ = producer_keys(prog, g, y.value, depth + 1)
                elif isinstance(y.value, ast.Dict):
                    k = dict_literal_keys(y.value)
                else:
                    k = None
                if k is not None:
                    keys |= k
                    found = True
            for r in walk_no_nested(g.node):
                if isinstance(r, ast.Return) and r.value is not None and not ys:
                    k, _ = producer_keys(prog, g, r.value, depth + 1)
                    if k is not None:
                        keys |= k
                        found = True
            # **kwargs copied into the dict:  for ky in kwargs: d[ky] = kwargs[ky]
            if g.node.args.kwarg is not None:
                kwn = g.node.args.kwarg.arg
                copies = any(isinstance(n, ast.For) and isinstance(n.iter, ast.Name) and n.iter.id == kwn
                             for n in ast.walk(g.node)) or \
                    any(isinstance(n, ast.Call) and isinstance(n.func, ast.Attribute) and n.func.attr == "update"
                        and len(n.args) == 1 and isinstance(n.args[0], ast.Name) and n.args[0].id == kwn
                        for n in ast.walk(g.node)) or \
                    any(isinstance(n, ast.Dict) and any(k is None and isinstance(v, ast.Name) and v.id == kwn
                                                        for k, v in zip(n.keys, n.values)) for n in ast.walk(g.node))
                if copies:
                    keys |= {k.arg for k in task.keywords if k.arg}
        return (keys if found else None), f"generator {norm(task.func)}"
    return None, f"unrecognised producer {type(task).__name__}"


def rule_P2(ctx, prefix, prog, site):
    pk, desc = producer_keys(prog, site.fi, site.task)
    for w in site.workers:
        wk, pos = worker_task_keys(w)
        if not wk:
            continue
        if pk is None:
            raise AnalysisError(f"{prefix}.P2", site.fi.site, f"cannot enumerate the task keys produced by {desc} "
                                                              f"for worker {w.qualname}")
        missing = sorted(wk - pk)
        ctx.check(not missing, f"{prefix}.P2", site.fi.site,
                  f"every key {w.qualname} reads ({len(wk)}) is produced by {desc}",
                  f"worker {w.qualname} reads task key(s) {missing} that {desc} never produces (keys produced: "
                  f"{sorted(pk)})", key=f"{site.key}:{w.qualname}", where=loc(site.fi, site.call),
                  objects={"worker_keys": sorted(wk), "producer_keys": sorted(pk)})


def rule_P3(ctx, prefix, prog, site, allow_globals=()):
    """worker purity (including callees inside the package)"""
    for w in site.workers:
        fns = [f for f in prog.reachable([w]) if f.module.relpath.startswith("amr_kitchen/")]
        for f in fns:
            bad = []
            for d in f.node.decorator_list:
                dn = norm(d.func) if isinstance(d, ast.Call) else norm(d)
                if dn.split(".")[-1] in ("lru_cache", "cache", "cached", "memoize", "memoise"):
                    bad.append(f"`@{dn}` keeps results across tasks in the worker process (and in every process "
                               f"forked from it): a caller that changes a returned object in place changes what "
                               f"later tasks get, depending on which process ran which task")
            for n in walk_no_nested(f.node):
                if isinstance(n, ast.Global):
                    bad.append(f"`global {', '.join(n.names)}`")
                if isinstance(n, ast.Call):
                    ext = prog.external_name(f.module, n.func)
                    if ext in NONDET:
                        bad.append(f"nondeterministic call {ext}")
                    if ext in WORKER_COUNT:
                        bad.append(f"worker-count read {ext}")
                    if call_name(n) in ("append", "extend", "update", "add", "pop", "clear") and \
                            isinstance(n.func, ast.Attribute) and isinstance(n.func.value, ast.Name) and \
                            n.func.value.id in f.module.globals_assigned and not _is_local(f, n.func.value.id):
                        bad.append(f"mutates module-level `{n.func.value.id}`")
            if f is w:
                rule_arg_mutation(ctx, prefix, f, site.fi.qualname)
            ctx.check(not bad, f"{prefix}.P3", f.site,
                      "worker code has no global statement, no module-state mutation, no nondeterministic call",
                      f"worker (reached from {site.fi.qualname}) is impure: {'; '.join(bad)}",
                      key=f"pure:{w.qualname}")
            # reads of module globals that are assigned through `global` elsewhere
            gl = set()
            for n in walk_no_nested(f.node):
                if isinstance(n, ast.Name) and isinstance(n.ctx, ast.Load) and n.id in f.module.globals_assigned \
                        and not _is_local(f, n.id):
                    gl.add(n.id)
            reassigned = set()
            for g in f.module.functions.values():
                declared = set()
                for n in ast.walk(g.node):
                    if isinstance(n, ast.Global):
                        declared.update(n.names)
                for n in ast.walk(g.node):
                    if isinstance(n, ast.Name) and isinstance(n.ctx, ast.Store) and n.id in declared:
                        reassigned.add(n.id)
            stale = sorted((gl & reassigned) - set(allow_globals))
            if stale:
                persistent = site.pool_kind == "pathos" and not _pool_refreshed(prog, site, stale)
                if site.pool_kind in ("builtin-map", "serial-loop"):
                    ctx.ok(f"{prefix}.P3-GLOBALS", f.site, f"serial twin reads parent-assigned globals {stale} "
                                                          f"in-process", key=f"{site.pool_kind}:{','.join(stale)}")
                else:
                    ctx.check(not persistent, f"{prefix}.P3-GLOBALS", f.site,
                              f"worker reads parent-assigned globals {stale}; they are assigned before the pool is "
                              f"created and the pool does not outlive the call (not process-persistent)",
                              f"worker reads module globals {stale} that the parent re-assigns per instance "
                              f"(`global` in {f.module.relpath}); the pathos ProcessingPool is cached and its "
                              f"worker processes persist, so a second instance computes with the first instance's "
                              f"values", key=f"pathos:{','.join(stale)}", where=loc(site.fi, site.call))


IN_PLACE_METHODS = {"sort", "reverse", "append", "extend", "insert", "pop", "remove", "clear", "update", "fill",
                    "resize", "put", "setdefault", "popitem", "itemset", "partition", "byteswap", "setflags"}
# calls that return (or may return) their argument itself rather than a copy
IDENTITY_CALLS = {"np.asarray", "np.asanyarray", "np.ascontiguousarray", "np.ravel", "np.squeeze", "np.atleast_1d"}


def task_aliases(fi):
    """{local name: text of the task part it aliases}: names bound by a plain assignment (or tuple unpacking of the
    parameter) to the parameter itself or to a call-free attribute/subscript path rooted at it, or through a call
    that may return its argument unchanged (np.asarray of an array).  Flow-insensitive, but a name that is also
    bound to anything else is dropped (no alias claimed for it)."""
    params = [a.arg for a in fi.node.args.args if a.arg not in ("self", "cls")]
    alias, other = {}, set()

    def root_path(e):
        while isinstance(e, ast.Call) and norm(e.func) in IDENTITY_CALLS and len(e.args) >= 1:
            e = e.args[0]
        path = e
        while isinstance(path, (ast.Subscript, ast.Attribute)):
            if isinstance(path, ast.Subscript) and isinstance(path.slice, ast.Slice):
                return None         # a slice of a list is a copy; of an array a view: not claimed
            path = path.value
        if isinstance(path, ast.Name) and (path.id in params or path.id in alias):
            if any(isinstance(x, ast.Call) for x in ast.walk(e)):
                return None
            base = alias.get(path.id, path.id)
            return norm(e).replace(path.id, base, 1) if path.id in alias else norm(e)
        return None

    for _ in range(3):
        for n in walk_no_nested(fi.node):
            if isinstance(n, ast.Assign) and len(n.targets) == 1:
                t = n.targets[0]
                if isinstance(t, ast.Name):
                    rp = root_path(n.value)
                    if rp is not None and t.id not in params:
                        alias[t.id] = rp
                    elif t.id in alias and rp is None:
                        other.add(t.id)
                elif isinstance(t, (ast.Tuple, ast.List)) and isinstance(n.value, ast.Name) and n.value.id in params:
                    for i, e in enumerate(t.elts):
                        if isinstance(e, ast.Name):
                            alias[e.id] = f"{n.value.id}[{i}]"
            elif isinstance(n, (ast.For, ast.comprehension)):
                for x in ast.walk(n.target):
                    if isinstance(x, ast.Name) and x.id in alias:
                        other.add(x.id)
    for p_ in params:
        alias[p_] = p_
    return {k: v for k, v in alias.items() if k not in other}


def rule_arg_mutation(ctx, prefix, fi, reached_from=""):
    """a worker / reader function must not change, in place, an object it received through its task: the serial
    twins and the in-process single-box reads run it on the caller's own objects (the selector kept by a stream, the
    task table), so an in-place update makes later results depend on the history of earlier calls; under a pool the
    task is a pickled copy and the same code looks harmless."""
    alias = task_aliases(fi)
    container = set()     # aliases with evidence of being containers (subscripted, iterated, len())
    for n in walk_no_nested(fi.node):
        if isinstance(n, ast.Subscript) and isinstance(n.value, ast.Name) and n.value.id in alias:
            container.add(n.value.id)
        if isinstance(n, ast.Call) and norm(n.func) in ("len", "np.array", "np.asarray", "list", "tuple", "sorted") \
                and n.args and isinstance(n.args[0], ast.Name) and n.args[0].id in alias:
            container.add(n.args[0].id)
        if isinstance(n, (ast.For, ast.comprehension)) and isinstance(n.iter, ast.Name) and n.iter.id in alias:
            container.add(n.iter.id)
    params = {a.arg for a in fi.node.args.args}
    bad = []
    for n in walk_no_nested(fi.node):
        if isinstance(n, ast.AugAssign):
            t = n.target
            if isinstance(t, ast.Name) and t.id in alias and t.id not in params and t.id in container:
                bad.append((n, f"`{norm(n)}` updates in place the object `{alias[t.id]}` of the task"))
            elif isinstance(t, (ast.Subscript, ast.Attribute)):
                b = t
                while isinstance(b, (ast.Subscript, ast.Attribute)):
                    b = b.value
                if isinstance(b, ast.Name) and b.id in alias:
                    bad.append((n, f"`{norm(n)}` updates in place part of `{alias[b.id]}` of the task"))
        elif isinstance(n, (ast.Assign, ast.Delete)):
            for t in (n.targets if isinstance(n, (ast.Assign, ast.Delete)) else []):
                for x in ([t] if not isinstance(t, (ast.Tuple, ast.List)) else t.elts):
                    if isinstance(x, (ast.Subscript, ast.Attribute)):
                        b = x
                        while isinstance(b, (ast.Subscript, ast.Attribute)):
                            b = b.value
                        if isinstance(b, ast.Name) and b.id in alias and b.id != "self":
                            bad.append((n, f"`{norm(n)[:60]}` stores into `{alias[b.id]}` of the task"))
        elif isinstance(n, ast.Call) and isinstance(n.func, ast.Attribute) and n.func.attr in IN_PLACE_METHODS:
            b = n.func.value
            direct = isinstance(b, ast.Name)
            while isinstance(b, (ast.Subscript, ast.Attribute)):
                b = b.value
            if isinstance(b, ast.Name) and b.id in alias and b.id != "self" and \
                    not (n.func.attr in ("pop", "update", "setdefault", "append", "extend") and not direct and False):
                bad.append((n, f"`{norm(n)[:60]}` changes `{alias[b.id]}` of the task in place"))
    ctx.check(not bad, f"{prefix}.P3-ARG-MUTATION", fi.site,
              "the function never updates in place an object received through its task argument",
              (f"worker{(' (reached from ' + reached_from + ')') if reached_from else ''}: " +
               "; ".join(w for _, w in bad[:3]) + " — run in-process (serial mode, single-box read) this rewrites the "
               "caller's own selector/table, so later reads return other data"),
              key="arg-mutation", where=loc(fi, bad[0][0]) if bad else None)


def rule_P3_full_state(ctx, prefix, prog, rel="amr_kitchen/chef/chef.py", setter="Chef.set_global_sarrays"):
    """the Cantera placeholder arrays are module state that every task of a process re-uses; a task is a function of
    its own box only if it sets the *complete* thermodynamic state (T, P, Y) before reading properties.  A `None`
    component in a state setter means "keep what is there" — i.e. what the previous task of that process left."""
    m = prog.module(rel)
    bad = []
    fi = m.functions.get(setter)
    if fi is not None:
        for n in walk_no_nested(fi.node):
            if isinstance(n, ast.Assign) and isinstance(n.targets[0], ast.Subscript) and \
                    norm(n.targets[0].value) == "PRESSURES" and isinstance(n.value, ast.Constant) and n.value.value is None:
                bad.append((fi, n, f"`{norm(n)}`: the knives then set `sarray.TPY = T, None, Y`, and Cantera keeps the "
                                   f"pressure of whatever state the previous box left in that process's placeholder array"))
    for f in m.functions.values():
        for n in walk_no_nested(f.node):
            if isinstance(n, ast.Assign) and isinstance(n.targets[0], ast.Attribute) and \
                    n.targets[0].attr in ("TPY", "TPX", "TP", "TD", "TDY", "HP", "HPY", "SP", "UV") and \
                    isinstance(n.value, ast.Tuple) and any(isinstance(e, ast.Constant) and e.value is None for e in n.value.elts) \
                    and norm(n.targets[0].value) not in ("self.gas",):
                bad.append((f, n, f"`{norm(n)[:60]}` leaves a state component as it was in the shared placeholder array"))
    ctx.check(not bad, f"{prefix}.P3-GLOBALS", (bad[0][0].site if bad else (fi.site if fi else rel)),
              "every task sets the complete thermodynamic state (T, P, Y) of the shared Cantera placeholder array",
              (bad[0][2] if bad else "") + ": the output bits of a box then depend on which boxes the same process "
              "cooked before it (serial vs parallel, worker count, task placement)", key="full-state",
              where=loc(bad[0][0], bad[0][1]) if bad else None, semantic=True)


def rule_P3_module_ref(ctx, prefix, prog, modules):
    """code shipped to a *persistent* pool by reference: a dynamically loaded module registered in sys.modules under a
    fixed name makes its functions pickle by reference, so cached pathos workers keep resolving the first module"""
    for rel in modules:
        m = prog.module(rel)
        uses_pathos = any(v.startswith("pathos.") for v in m.imports.values())
        for fi in m.functions.values():
            dyn = any(isinstance(c, ast.Call) and norm(c.func) in ("module_from_spec", "importlib.util.module_from_spec")
                      for c in ast.walk(fi.node))
            if not dyn:
                continue
            regs = [n for n in walk_no_nested(fi.node) if isinstance(n, ast.Assign) and
                    isinstance(n.targets[0], ast.Subscript) and norm(n.targets[0].value) == "sys.modules"]
            ctx.check(not (regs and uses_pathos), f"{prefix}.P3-MODULE-REF", fi.site,
                      "the dynamically loaded recipe module is not registered in sys.modules: its function is pickled "
                      "by value for every pool task",
                      f"`{norm(regs[0])[:70] if regs else ''}` registers the dynamically loaded module under a fixed name: "
                      f"its functions are then pickled *by reference*, and the cached pathos worker processes resolve "
                      f"that name to the module they already hold — a second recipe file in the same process runs the "
                      f"first recipe", where=loc(fi, regs[0]) if regs else None)


def _pool_refreshed(prog, site, stale):
    """a pathos pool is not persistent state if, in the function that uses it, (a) the globals its workers read are
    (re)assigned before the pool is created and (b) the pool is closed, joined and cleared after its results were
    consumed (pathos then builds a fresh pool, forked with the current globals, on the next call)"""
    fi = site.fi
    assigners = set()
    for g in fi.module.functions.values():
        declared = set()
        for n in ast.walk(g.node):
            if isinstance(n, ast.Global):
                declared.update(n.names)
        if set(stale) <= declared and all(any(isinstance(n, ast.Name) and isinstance(n.ctx, ast.Store) and n.id == nm
                                               for n in ast.walk(g.node)) for nm in stale):
            assigners.add(g.qualname)
    binds = pool_bindings(prog, fi)
    pool_line = binds.get(site.pool_expr, (None, None))[1]
    if pool_line is None:
        return False
    pool_line = pool_line.lineno
    set_before = False
    for n in walk_no_nested(fi.node):
        if isinstance(n, ast.Call) and n.lineno < pool_line:
            for t in prog.resolve_callable(fi, n.func):
                if t.qualname in assigners:
                    # must not sit in a loop that the pool creation is outside of, nor under an unrelated condition
                    set_before = True
    consumer = site.consumer[2]
    end = getattr(consumer, "end_lineno", None) or site.call.lineno
    done = {m: False for m in ("close", "join", "clear")}
    for n in walk_no_nested(fi.node):
        if isinstance(n, ast.Call) and isinstance(n.func, ast.Attribute) and norm(n.func.value) == site.pool_expr \
                and n.func.attr in done and n.lineno > end:
            done[n.func.attr] = True
    return set_before and all(done.values())


def _is_local(f, name):
    if name in f.params:
        return True
    declared_global = any(isinstance(n, ast.Global) and name in n.names for n in ast.walk(f.node))
    if declared_global:
        return False
    for n in ast.walk(f.node):
        if isinstance(n, ast.Name) and isinstance(n.ctx, ast.Store) and n.id == name:
            return True
    return False


def rule_P7(ctx, prefix, prog, fi):
    bad = []
    for n in walk_no_nested(fi.node):
        if isinstance(n, ast.Call):
            ext = prog.external_name(fi.module, n.func)
            if ext in WORKER_COUNT:
                bad.append((ext, n))
        if isinstance(n, ast.Attribute) and n.attr in ("_processes", "ncpus", "nodes"):
            bad.append((n.attr, n))
    for n in walk_no_nested(fi.node):
        # Pool(processes=k)/Pool(k) is allowed: it changes scheduling only; chunking by a count is not
        pass
    ctx.check(not bad, f"{prefix}.P7", fi.site, "no partitioning decision reads a worker count",
              f"worker count read: {[b[0] for b in bad]} — task partition may depend on the number of workers",
              where=loc(fi, bad[0][1]) if bad else None)


# ---------------------------------------------------------------------------
# the per-binary-file loop idiom:  for bf in np.unique(table): sel = idx[table == bf] ...
# ---------------------------------------------------------------------------
class PerFileLoop:
    def __init__(self, fi, loop, var, table_text, uniq_call):
        self.fi, self.loop, self.var, self.table = fi, loop, var, table_text
        self.uniq_call = uniq_call


def table_text(node, env):
    """canonical text of a per-level table expression with locals substituted and array wrappers dropped"""
    n = node
    while True:
        if isinstance(n, ast.Call) and norm(n.func) in ("np.array", "np.asarray", "numpy.array", "list") and n.args:
            n = n.args[0]
            continue
        if isinstance(n, ast.Name) and n.id in env and env[n.id] is not None:
            n = env[n.id]
            continue
        break
    return leaf_text(n, env, None)


def perfile_loops(fi):
    env = local_env(fi.node)
    out = []
    for n in walk_no_nested(fi.node):
        if not isinstance(n, ast.For):
            continue
        it = n.iter
        tgt = n.target
        while isinstance(it, ast.Call) and call_name(it) in TRANSPARENT and it.args:
            it = it.args[0]
        uq = None
        var = None
        if isinstance(it, ast.Name) and it.id in env and env[it.id] is not None:
            it = env[it.id]
        if isinstance(it, ast.Call) and norm(it.func) in ("np.unique", "numpy.unique") and it.args:
            uq, var = it, tgt
        elif isinstance(it, ast.Call) and call_name(it) == "zip" and it.args:
            a0 = it.args[0]
            if isinstance(a0, ast.Name) and a0.id in env and env[a0.id] is not None:
                a0 = env[a0.id]
            if isinstance(a0, ast.Call) and norm(a0.func) in ("np.unique", "numpy.unique") and a0.args \
                    and isinstance(tgt, ast.Tuple):
                uq, var = a0, tgt.elts[0]
        if uq is None or not isinstance(var, ast.Name):
            continue
        out.append(PerFileLoop(fi, n, var.id, table_text(uq.args[0], env), uq))
    return out


def loops_over_files_not_unique(fi, table_suffix="['files']"):
    """per-file style loops that iterate a files table WITHOUT np.unique (P5b violations)"""
    env = local_env(fi.node)
    out = []
    for n in walk_no_nested(fi.node):
        if isinstance(n, ast.For):
            t = table_text(n.iter, env)
            if t.endswith(table_suffix) and "unique" not in norm(n.iter):
                out.append((n, t))
    return out
