"""E4 — line grammars of header readers / writers / rewriters.

A reader grammar is the nested sequence of line-consuming events on a text handle
(readline(), iteration), each with the target it is stored into and its parse form;
a writer grammar is the nested sequence of lines written, each as a token template
whose placeholders carry the canonical text of their source expressions.  Loops are
Repeat(count) nodes with the count as a rational function of attributes.
"""
import ast

from .model import norm, walk_no_nested, AnalysisError, call_name
from .rules import expr_ratio, leaf_text, local_env, FormulaError, Appended, resolve, Thunk


# ---------------------------------------------------------------------------
# grammar nodes
# ---------------------------------------------------------------------------
class Line:
    def __init__(self, node, target=None, parse=None, tokens=None, copy_of=None, nl=1):
        self.node = node
        self.target = target      # reader: text of the store target ('' = skipped)
        self.parse = parse        # reader: parse form with LINE placeholder
        self.tokens = tokens      # writer: list of Tok
        self.copy_of = copy_of    # writer: handle text the line is copied from (H-COPY)
        self.nl = nl

    def show(self):
        if self.tokens is not None:
            return "W[" + " ".join(t.show() for t in self.tokens) + "]"
        if self.copy_of:
            return f"COPY({self.copy_of})"
        return f"R[{self.target}<-{self.parse}]"


class Repeat:
    def __init__(self, node, count, body, var=None, over=None):
        self.node, self.count, self.body, self.var, self.over = node, count, body, var, over

    def show(self):
        return f"Rep({self.count}){{" + "; ".join(b.show() for b in self.body) + "}"


class Cond:
    def __init__(self, node, test, body, orelse):
        self.node, self.test, self.body, self.orelse = node, test, body, orelse

    def show(self):
        return f"If({self.test}){{" + "; ".join(b.show() for b in self.body) + "}else{" + \
               "; ".join(b.show() for b in self.orelse) + "}"


class Until:
    """while True: read lines until a marker (used by the rewriters)"""

    def __init__(self, node, body, marker):
        self.node, self.body, self.marker = node, body, marker

    def show(self):
        return f"Until({self.marker}){{" + "; ".join(b.show() for b in self.body) + "}"


class Rest:
    def __init__(self, node, target):
        self.node, self.target = node, target

    def show(self):
        return f"Rest({self.target})"


class Tok:
    """one whitespace-free token of a written line: list of parts (str literal | ('ph', src, fmt) |
    ('join', sep, elem_src, over))"""

    def __init__(self, parts):
        self.parts = parts

    def show(self):
        out = ""
        for p in self.parts:
            if isinstance(p, str):
                out += p
            elif p[0] == "ph":
                out += "{" + p[1] + (":" + p[2] if p[2] else "") + "}"
            elif p[0] == "copy":
                out += f"<copy {p[1]}>"
            else:
                out += f"<join {p[1]!r} {p[2]} over {p[3]}>"
        return out

    def sources(self):
        return [p for p in self.parts if not isinstance(p, str)]


def show(items):
    return "; ".join(i.show() for i in items)


# ---------------------------------------------------------------------------
# template evaluation of a written expression
# ---------------------------------------------------------------------------
class TemplateError(Exception):
    pass


def template(node, env, nl_attrs=(), depth=0):
    """expression written to a text handle -> list of parts: str | ('ph', src, fmt) | ('join', sep, elem, over)
    | ('copy', handle)"""
    if depth > 40:
        raise TemplateError("too deep")
    if isinstance(node, ast.Constant) and isinstance(node.value, str):
        return [node.value]
    if isinstance(node, ast.JoinedStr):
        out = []
        for v in node.values:
            if isinstance(v, ast.Constant):
                out.append(v.value)
            else:
                fmt = ""
                if v.format_spec is not None:
                    fmt = "".join(x.value for x in v.format_spec.values if isinstance(x, ast.Constant))
                inner = v.value
                # f'{S}' with S a string-valued expression (join, nested f-string, str(), concatenation) is S itself
                if not fmt and v.conversion == -1 and (
                        isinstance(inner, ast.JoinedStr) or
                        (isinstance(inner, ast.Constant) and isinstance(inner.value, str)) or
                        (isinstance(inner, ast.Call) and isinstance(inner.func, ast.Attribute) and inner.func.attr == "join"
                         and isinstance(inner.func.value, ast.Constant)) or
                        (isinstance(inner, ast.Call) and isinstance(inner.func, ast.Name) and inner.func.id == "str"
                         and len(inner.args) == 1)):
                    try:
                        out += template(inner, env, nl_attrs, depth + 1)
                        continue
                    except TemplateError:
                        pass
                if not fmt and isinstance(inner, ast.Name):
                    n2, e2 = resolve(inner, env)
                    if n2 is not inner and (isinstance(n2, ast.JoinedStr) or (
                            isinstance(n2, ast.Call) and isinstance(n2.func, ast.Attribute) and n2.func.attr == "join")):
                        out += template(n2, e2, nl_attrs, depth + 1)
                        continue
                out += _ph(inner, env, fmt, nl_attrs, depth)
        return out
    if isinstance(node, ast.BinOp) and isinstance(node.op, ast.Add):
        return template(node.left, env, nl_attrs, depth + 1) + template(node.right, env, nl_attrs, depth + 1)
    if isinstance(node, ast.Call):
        fn = node.func
        if isinstance(fn, ast.Name) and fn.id == "str" and len(node.args) == 1:
            return _ph(node.args[0], env, "", nl_attrs, depth)
        if isinstance(fn, ast.Attribute) and fn.attr == "join" and isinstance(fn.value, ast.Constant) \
                and len(node.args) == 1:
            sep = fn.value.value
            arg = node.args[0]
            a2, e2 = resolve(arg, env, lists=True) if isinstance(arg, (ast.Name, ast.Subscript)) else (arg, env)
            if isinstance(a2, ast.Name) and isinstance(e2.get(a2.id), Appended):
                ap = e2[a2.id]
                elem = template(ap.value, e2, nl_attrs, depth + 1)
                cnt = _count_text(ap.loop.iter, e2)
                return [("join", sep, _parts_text(elem), f"range:{cnt}", elem, ap.loopvar)]
            if isinstance(a2, (ast.ListComp, ast.GeneratorExp)) and len(a2.generators) == 1:
                g = a2.generators[0]
                env3 = dict(e2)
                for nm in ast.walk(g.target):
                    if isinstance(nm, ast.Name):
                        env3[nm.id] = None
                elem = template(a2.elt, env3, nl_attrs, depth + 1)
                over = leaf_text(g.iter, e2, None)
                if isinstance(g.iter, ast.Call) and norm(g.iter.func) == "range":
                    over = f"range:{_count_text(g.iter, e2)}"     # same normal form as a list built by a range loop
                return [("join", sep, _parts_text(elem), over, elem, norm(g.target))]
            if isinstance(a2, (ast.List, ast.Tuple)):
                out = []
                for i, e in enumerate(a2.elts):
                    if i:
                        out.append(sep)
                    out += template(e, e2, nl_attrs, depth + 1)
                return out
            return [("join", sep, "{elem}", leaf_text(a2, e2, None), [("ph", "elem", "")], "elem")]
        if isinstance(fn, ast.Attribute) and fn.attr == "readline" and not node.args:
            return [("copy", norm(fn.value))]
        if isinstance(fn, ast.Attribute) and fn.attr == "format" and isinstance(fn.value, ast.Constant):
            raise TemplateError("str.format")
    if isinstance(node, ast.Name):
        v = env.get(node.id)
        if v is not None and not isinstance(v, (Appended,)):
            n2, e2 = resolve(node, env)
            if n2 is not node:
                try:
                    return template(n2, e2, nl_attrs, depth + 1)
                except TemplateError:
                    pass
    return _ph(node, env, "", nl_attrs, depth)


def _ph(node, env, fmt, nl_attrs, depth):
    if isinstance(node, ast.Call) and isinstance(node.func, ast.Name) and node.func.id == "str" and len(node.args) == 1:
        node = node.args[0]
    try:
        src = str(expr_ratio(node, env))
    except FormulaError:
        src = leaf_text(node, env, None)
    return [("ph", src, fmt)]


def _parts_text(parts):
    out = ""
    for p in parts:
        if isinstance(p, str):
            out += p
        elif p[0] == "ph":
            out += "{" + p[1] + (":" + p[2] if p[2] else "") + "}"
        else:
            out += f"<{p[0]}>"
    return out


def _count_text(it, env):
    """iteration count of a for-loop iterable, as canonical text"""
    if isinstance(it, ast.Call) and norm(it.func) == "range":
        try:
            if len(it.args) == 1:
                return str(expr_ratio(it.args[0], env))
            if len(it.args) == 2:
                return str(expr_ratio(it.args[1], env) - expr_ratio(it.args[0], env))
        except FormulaError:
            pass
        return "range(" + ", ".join(norm(a) for a in it.args) + ")"
    if isinstance(it, ast.Call) and call_name(it) in ("zip",):
        return "zip(" + ", ".join(f"len({leaf_text(a, env, None)})" for a in it.args) + ")"
    if isinstance(it, ast.Call) and call_name(it) == "enumerate" and it.args:
        return f"len({leaf_text(it.args[0], env, None)})"
    return f"len({leaf_text(it, env, None)})"


def split_lines(parts, nl_attrs):
    """template parts -> list of lines, each a list of Tok; returns (lines, trailing_open)"""
    lines, cur_line, cur_tok = [], [], []

    def end_tok():
        nonlocal cur_tok
        if cur_tok:
            cur_line.append(Tok(cur_tok))
            cur_tok = []

    def end_line():
        nonlocal cur_line
        end_tok()
        lines.append(cur_line)
        cur_line = []
    for p in parts:
        if isinstance(p, str):
            buf = ""
            for ch in p:
                if ch == "\n":
                    if buf:
                        cur_tok.append(buf)
                        buf = ""
                    end_line()
                elif ch in " \t":
                    if buf:
                        cur_tok.append(buf)
                        buf = ""
                    end_tok()
                else:
                    buf += ch
            if buf:
                cur_tok.append(buf)
        elif p[0] == "ph":
            cur_tok.append(p)
            if p[1] in nl_attrs:
                end_line()
        elif p[0] == "join":
            if p[1].strip() == "" and p[1] != "":
                # whitespace separator: the join is a run of tokens
                end_tok()
                cur_line.append(Tok([p]))
            else:
                cur_tok.append(p)
        elif p[0] == "copy":
            end_tok()
            cur_line.append(Tok([p]))
            end_line()
    open_ = bool(cur_line or cur_tok)
    if open_:
        end_tok()
        lines.append(cur_line)
    return lines, open_


# ---------------------------------------------------------------------------
# extraction
# ---------------------------------------------------------------------------
class Extractor:
    def __init__(self, prog, fi, rhandles=(), whandles=(), nl_attrs=(), inline=True):
        self.prog, self.fi = prog, fi
        self.rh, self.wh = set(rhandles), set(whandles)
        self.nl_attrs = set(nl_attrs)
        self.inline = inline
        self.env = local_env(fi.node)
        # names parsed from a line keep their own name in counts (n_cells, ncells ...)
        for k, v in list(self.env.items()):
            if isinstance(v, ast.AST) and any(isinstance(c, ast.Call) and isinstance(c.func, ast.Attribute)
                                              and c.func.attr == "readline" for c in ast.walk(v)):
                self.env[k] = None
        self.lines_seen = 0

    # -- reader side ------------------------------------------------------------
    def readline_calls(self, node):
        out = []
        for n in ast.walk(node):
            if isinstance(n, ast.Call) and isinstance(n.func, ast.Attribute) and n.func.attr == "readline" \
                    and norm(n.func.value) in self.rh:
                out.append(n)
        out.sort(key=lambda c: (c.lineno, c.col_offset))
        return out

    def parse_form(self, expr, call):
        t = norm(expr)
        return t.replace(norm(call), "LINE")

    def stmt_items(self, s):
        """grammar items contributed by one simple statement"""
        items = []
        # writes
        for n in ast.walk(s) if not isinstance(s, (ast.For, ast.While, ast.If, ast.With, ast.Try)) else []:
            pass
        if isinstance(s, ast.Expr) and isinstance(s.value, ast.Call):
            c = s.value
            if isinstance(c.func, ast.Attribute) and c.func.attr == "write" and norm(c.func.value) in self.wh:
                return self.write_items(c)
            # inlined helper that receives the handle
            if self.inline:
                inl = self.inline_call(c)
                if inl is not None:
                    return inl
        rcs = self.readline_calls(s)
        if rcs:
            tgt = ""
            val = None
            if isinstance(s, ast.Assign):
                tgt = ", ".join(norm(t) for t in s.targets)
                val = s.value
            elif isinstance(s, ast.Expr):
                val = s.value
            elif isinstance(s, ast.Assert):
                tgt, val = "assert", s.test
            elif isinstance(s, ast.Return):
                tgt, val = "return", s.value
            elif isinstance(s, ast.AugAssign):
                tgt, val = norm(s.target), s.value
            for c in rcs:
                items.append(Line(c, target=tgt, parse=self.parse_form(val, c) if val is not None else "LINE"))
            # a statement that both reads and writes (ch_w.write(ch_r.readline())) is handled by write_items
        if isinstance(s, ast.Assign) and self.inline and isinstance(s.value, ast.Call):
            inl = self.inline_call(s.value)
            if inl is not None:
                return inl
        return items

    def inline_call(self, c):
        handles = [norm(a) for a in c.args if norm(a) in (self.rh | self.wh)]
        if not handles:
            return None
        tg = self.prog.resolve_callable(self.fi, c.func)
        if len(tg) < 1:
            return None
        callee = tg[0]
        params = [p for p in callee.params if p != "self"]
        rh, wh = set(), set()
        for i, a in enumerate(c.args):
            if i < len(params):
                if norm(a) in self.rh:
                    rh.add(params[i])
                if norm(a) in self.wh:
                    wh.add(params[i])
        sub = Extractor(self.prog, callee, rh, wh, self.nl_attrs, self.inline)
        return sub.block(callee.node.body)

    def write_items(self, c):
        arg = c.args[0]
        try:
            parts = template(arg, self.env, self.nl_attrs)
        except TemplateError as e:
            raise AnalysisError("E4", self.fi.site, f"cannot evaluate written expression {norm(arg)[:60]}: {e}")
        lines, open_ = split_lines(parts, self.nl_attrs)
        if open_:
            # partial line: a bare name whose value carries its own newline (copied line variable)
            if len(parts) == 1 and not isinstance(parts[0], str) and parts[0][0] == "ph":
                return [Line(c, tokens=[Tok(parts)], copy_of=self.copied_from(parts[0][1]))]
            raise AnalysisError("E4", self.fi.site, f"write of a partial line: {norm(arg)[:60]}")
        out = []
        for ln in lines:
            cp = None
            if len(ln) == 1 and len(ln[0].parts) == 1 and not isinstance(ln[0].parts[0], str) \
                    and ln[0].parts[0][0] == "copy":
                cp = ln[0].parts[0][1]
            out.append(Line(c, tokens=ln, copy_of=cp))
        return out

    def copied_from(self, name):
        """a variable last assigned from <rhandle>.readline() -> handle text"""
        for n in walk_no_nested(self.fi.node):
            if isinstance(n, ast.Assign) and any(norm(t) == name for t in n.targets):
                for c in self.readline_calls(n):
                    if norm(n.value) == norm(c):
                        return norm(c.func.value)
        return None

    def block(self, stmts):
        items = []
        for si, s in enumerate(stmts):
            if isinstance(s, ast.For):
                # iteration over the handle itself
                if norm(s.iter) in self.rh:
                    items.append(Rest(s, norm(s.target)))
                    continue
                # for block in hfile.readline().split()[...]: the line is consumed once by the iterable
                rcs = self.readline_calls(s.iter)
                if rcs:
                    items.append(Line(rcs[0], target=f"for {norm(s.target)}", parse=self.parse_form(s.iter, rcs[0])))
                    body_inner = self.block(s.body)
                    if body_inner:
                        items.append(Repeat(s, "tokens", body_inner))
                    continue
                body = self.block(s.body)
                if body:
                    items.append(Repeat(s, _count_text(s.iter, self.env), body, var=norm(s.target),
                                        over=leaf_text(s.iter, self.env, None)))
            elif isinstance(s, ast.While):
                body = self.block(s.body)
                if body:
                    marker = None
                    for n in ast.walk(s):
                        if isinstance(n, ast.If) and isinstance(n.test, ast.Compare) and \
                                isinstance(n.test.ops[0], ast.In) and isinstance(n.test.left, ast.Constant):
                            marker = n.test.left.value
                    items.append(Until(s, body, marker))
            elif isinstance(s, ast.If):
                b, o = self.block(s.body), self.block(s.orelse)
                pre = [Line(c, target="if", parse=self.parse_form(s.test, c)) for c in self.readline_calls(s.test)]
                items += pre
                if b and not s.orelse and _always_jumps(s.body) and stmts[si + 1:]:
                    # `if c: <I/O>; break|return|continue|raise` followed by the rest of the block is the same
                    # control flow as `if c: ... else: <rest>`
                    items.append(Cond(s, norm(s.test), b, self.block(stmts[si + 1:])))
                    return items
                if b or o:
                    items.append(Cond(s, norm(s.test), b, o))
            elif isinstance(s, ast.With):
                new_r, new_w = set(), set()
                for it in s.items:
                    c = it.context_expr
                    if isinstance(c, ast.Call) and isinstance(c.func, ast.Name) and c.func.id == "open" and \
                            it.optional_vars is not None:
                        mode = "r"
                        if len(c.args) > 1 and isinstance(c.args[1], ast.Constant):
                            mode = c.args[1].value
                        for k in c.keywords:
                            if k.arg == "mode" and isinstance(k.value, ast.Constant):
                                mode = k.value.value
                        if "b" in mode:
                            continue
                        (new_w if ("w" in mode or "a" in mode) else new_r).add(norm(it.optional_vars))
                self.rh |= new_r
                self.wh |= new_w
                items += self.block(s.body)
            elif isinstance(s, ast.Try):
                items += self.block(s.body)
                for h in s.handlers:
                    hb = self.block(h.body)
                    if hb:
                        items.append(Cond(h, "except", hb, []))
                items += self.block(s.orelse) + self.block(s.finalbody)
            elif isinstance(s, (ast.FunctionDef, ast.ClassDef)):
                continue
            else:
                items += self.stmt_items(s)
        return items


def _always_jumps(stmts):
    for s in stmts:
        if isinstance(s, (ast.Break, ast.Continue, ast.Return, ast.Raise)):
            return True
        if isinstance(s, ast.If) and s.orelse and _always_jumps(s.body) and _always_jumps(s.orelse):
            return True
    return False


def reader_grammar(prog, fi, handles=(), inline=True):
    ex = Extractor(prog, fi, rhandles=handles, inline=inline)
    return ex.block(fi.node.body), ex


def writer_grammar(prog, fi, whandles=(), rhandles=(), nl_attrs=(), inline=True):
    ex = Extractor(prog, fi, rhandles=rhandles, whandles=whandles, nl_attrs=nl_attrs, inline=inline)
    return ex.block(fi.node.body), ex


def flatten_lines(items):
    """all Line nodes in order (descending into Repeat/Cond)"""
    out = []
    for i in items:
        if isinstance(i, Line):
            out.append(i)
        elif isinstance(i, (Repeat, Until)):
            out += flatten_lines(i.body)
        elif isinstance(i, Cond):
            out += flatten_lines(i.body) + flatten_lines(i.orelse)
    return out
