"""E3 — path classes, write sinks, exception flow.

Abstract path values (sets of classes) are propagated through locals, attributes, call
arguments and task keys; every write sink is classified.  Classes:

  IN_RAW      an input path as given (may carry a trailing separator)
  IN_NORM     normpath/abspath/realpath/rstrip(sep) of an input path
  IN_CHILD    something inside an input directory (join(IN_*, ..), level file tables)
  IN_NAME     last component of a normalised input      IN_NAME_RAW  … of a raw input ('' with trailing sep)
  IN_PARENT   parent dir of a normalised input          IN_PARENT_RAW … of a raw input (the input itself w/ trailing sep)
  IN_SIB      beside the input, provably a different name (IN_NORM + suffix, join(IN_PARENT, new name))
  IN_SIB_RAW  derived beside a *raw* input: lands inside the input when it ends with a separator
  IN_SIB_SAME beside the input but the new name is not provably different (x.replace(a, b))
  NEWNAME     a fresh relative name with a non-input prefix      OUT  the requested output      CWD  os.getcwd()
  CONST, NONE, UNK
"""
import ast

from .model import norm, walk_no_nested, call_name, AnalysisError, parents, loc, FunctionInfo
from . import pools
from .rules import always_raises

INSIDE = {"IN_RAW", "IN_NORM", "IN_CHILD"}
BAD_DEFAULT = {"IN_SIB_RAW", "IN_SIB_SAME", "NAMECAT_RAW"}

INPUT_PARAMS = {"plotfile", "plt_file", "plotfile_path", "chkdir", "target_plotfile", "pfile"}
OUTPUT_PARAMS = {"outfile", "output", "outdir", "pltout", "pltdir", "plt_path", "outpath", "pfdir"}
INPUT_ATTRS = {"pfile", "chkdir", "plt_file"}
ARGS_IN = {"plotfile", "checkpoint", "plotfile1", "plotfile2", "plotfile_ref"}
ARGS_OUT = {"output", "outfile", "outdir"}
NORMALISERS = {"os.path.normpath", "os.path.abspath", "os.path.realpath"}
SEP_TEXTS = {"os.sep", "os.path.sep", "'/'", '"/"'}


class PathEnv:
    def __init__(self, prog):
        self.prog = prog
        self.attr_cache = {}
        self.ret_cache = {}
        self.caller_cache = {}
        self._callsites = None
        self._depth = 0

    def return_classes(self, fi, param_classes=None):
        """union of the classes of the callee's return expressions"""
        key = (fi.site, tuple(sorted((k, tuple(sorted(v))) for k, v in (param_classes or {}).items())))
        if key in self.ret_cache:
            return self.ret_cache[key]
        self.ret_cache[key] = {"UNK"}
        if self._depth > 3:
            return {"UNK"}
        self._depth += 1
        try:
            fe = FunEval(self, fi, param_classes=param_classes).run()
            out = set()
            for n in walk_no_nested(fi.node):
                if isinstance(n, ast.Return) and n.value is not None:
                    out |= fe.ev(n.value)
        finally:
            self._depth -= 1
        self.ret_cache[key] = out or {"NONE"}
        return self.ret_cache[key]

    def callsites(self):
        if self._callsites is None:
            self._callsites = {}
            for f in self.prog.all_functions():
                for node, tgs, kind in self.prog.callees(f):
                    if kind != "direct":
                        continue
                    for t in tgs:
                        self._callsites.setdefault(t.site, []).append((f, node))
        return self._callsites

    def caller_param_classes(self, fi):
        """classes of fi's parameters joined over all resolved call sites (one level)"""
        if fi.site in self.caller_cache:
            return self.caller_cache[fi.site]
        self.caller_cache[fi.site] = {}
        out = {}
        if self._depth > 2:
            return out
        self._depth += 1
        try:
            params = [p for p in fi.params if p != "self"]
            for caller, call in self.callsites().get(fi.site, []):
                fe = FunEval(self, caller).run()
                for i, a in enumerate(call.args):
                    if i < len(params):
                        c = fe.ev(a)
                        if c - {"UNK", "OTHER"}:
                            out.setdefault(params[i], set()).update(c)
                for k in call.keywords:
                    if k.arg in params:
                        c = fe.ev(k.value)
                        if c - {"UNK", "OTHER"}:
                            out.setdefault(k.arg, set()).update(c)
        finally:
            self._depth -= 1
        self.caller_cache[fi.site] = out
        return out

    # -- class attribute classes -------------------------------------------------
    def class_attrs(self, ci):
        key = id(ci)
        if key in self.attr_cache:
            return self.attr_cache[key]
        out = {}
        self.attr_cache[key] = out
        for c in reversed(self.prog.mro(ci)):
            for a in INPUT_ATTRS:
                pass
            init = c.methods.get("__init__")
            meths = ([init] if init else []) + [m for n, m in c.methods.items() if n != "__init__"]
            for m in meths:
                fe = FunEval(self, m, attrs=out)
                fe.run()
                for k, v in fe.attr_stores.items():
                    out.setdefault(k, set()).update(v)
        return out


class FunEval:
    """order-aware, flow-insensitive evaluation of path classes inside one function"""

    def __init__(self, penv, fi, attrs=None, param_classes=None):
        self.penv, self.prog, self.fi = penv, penv.prog, fi
        self.env = {}
        self.attrs = attrs if attrs is not None else (penv.class_attrs(fi.cls) if fi.cls is not None else {})
        self.attr_stores = {}
        self.param_classes = param_classes or {}
        from_callers = None
        if fi.node.args.kwarg is not None:
            kwn = fi.node.args.kwarg.arg
            for k, v in self.param_classes.items():
                self.env[f"{kwn}[{k!r}]"] = set(v)
            for k in OUTPUT_PARAMS:
                self.env.setdefault(f"{kwn}[{k!r}]", {"OUT", "NONE"})
        if fi.node.args.vararg is not None:
            pass
        for p in fi.params:
            if p in self.param_classes:
                self.env[p] = set(self.param_classes[p])
            elif p in INPUT_PARAMS:
                self.env[p] = {"IN_RAW"}
            elif p in OUTPUT_PARAMS:
                self.env[p] = {"OUT"}
            elif p != "self":
                if from_callers is None:
                    from_callers = penv.caller_param_classes(fi)
                if p in from_callers:
                    self.env[p] = set(from_callers[p])
        self.ran = False

    def run(self):
        if self.ran:
            return self
        self.ran = True
        stmts = sorted((n for n in walk_no_nested(self.fi.node) if isinstance(n, (ast.Assign, ast.AugAssign, ast.For,
                                                                                  ast.withitem))),
                       key=lambda n: (getattr(n, "lineno", 0), getattr(n, "col_offset", 0)))
        for _ in range(2):   # two passes: loop-carried / later-defined names
            for n in stmts:
                if isinstance(n, ast.Assign):
                    v = self.ev(n.value)
                    for t in n.targets:
                        self.bind(t, v, n.value)
                elif isinstance(n, ast.AugAssign) and isinstance(n.op, ast.Add):
                    cur = self.ev(n.target)
                    v = self.concat(cur, self.ev(n.value), n.value)
                    self.bind(n.target, v, n.value, replace=True)
                elif isinstance(n, ast.For):
                    self.bind_iter(n.target, n.iter)
        return self

    def bind(self, t, v, valnode, replace=False):
        if isinstance(t, ast.Name) and isinstance(valnode, ast.Call):
            self.callsrc = getattr(self, "callsrc", {})
            self.callsrc[t.id] = valnode
        if isinstance(t, ast.Name):
            if replace:
                self.env[t.id] = set(v)
            else:
                self.env.setdefault(t.id, set()).update(v)
        elif isinstance(t, ast.Attribute) and norm(t.value) == "self":
            self.attr_stores.setdefault(t.attr, set()).update(v)
            self.attrs.setdefault(t.attr, set()).update(v)
        elif isinstance(t, ast.Subscript) and isinstance(t.value, ast.Name) and isinstance(t.slice, ast.Constant) \
                and isinstance(t.slice.value, str):
            self.env.setdefault(f"{t.value.id}[{t.slice.value!r}]", set()).update(v)
        elif isinstance(t, (ast.Tuple, ast.List)):
            # root, base = os.path.split(X)
            if isinstance(valnode, ast.Call) and self.ext(valnode.func) == "os.path.split" and len(t.elts) == 2:
                x = self.ev(valnode.args[0])
                self.bind(t.elts[0], self.parent_of(x), valnode)
                self.bind(t.elts[1], self.name_of(x), valnode)
            else:
                for e in t.elts:
                    self.bind(e, {"UNK"}, valnode)

    def bind_iter(self, target, it):
        v = self.ev(it)
        # element of a table of paths has the table's class
        if isinstance(target, ast.Name):
            self.env.setdefault(target.id, set()).update(v if v - {"UNK"} else {"UNK"})
        elif isinstance(target, (ast.Tuple, ast.List)):
            if isinstance(it, ast.Call) and call_name(it) == "zip":
                for e, a in zip(target.elts, it.args):
                    if isinstance(e, ast.Name):
                        self.env.setdefault(e.id, set()).update(self.ev(a))
            elif isinstance(it, ast.Call) and call_name(it) == "enumerate" and len(target.elts) == 2 and it.args:
                if isinstance(target.elts[1], ast.Name):
                    self.env.setdefault(target.elts[1].id, set()).update(self.ev(it.args[0]))

    def ext(self, f):
        return self.prog.external_name(self.fi.module, f) if isinstance(f, (ast.Attribute, ast.Name)) else None

    def replace_guarded(self, call):
        """x.replace('a', 'b') with constants a != b, dominated by `if 'a' not in x: raise` -> provably a new name"""
        if len(call.args) != 2 or not all(isinstance(a, ast.Constant) and isinstance(a.value, str) for a in call.args):
            return False
        a, b = call.args[0].value, call.args[1].value
        if a == b or not a:
            return False
        x = norm(call.func.value)
        for n in walk_no_nested(self.fi.node):
            if isinstance(n, ast.If) and isinstance(n.test, ast.Compare) and len(n.test.ops) == 1 and \
                    isinstance(n.test.ops[0], ast.NotIn) and isinstance(n.test.left, ast.Constant) and \
                    n.test.left.value == a and norm(n.test.comparators[0]) == x and always_raises(n.body) and \
                    n.lineno < call.lineno:
                return True
        return False

    # -- class algebra ---------------------------------------------------------------
    @staticmethod
    def parent_of(x):
        out = set()
        for c in x:
            out.add({"IN_RAW": "IN_PARENT_RAW", "IN_NORM": "IN_PARENT", "IN_CHILD": "IN_CHILD", "OUT": "OUT",
                     "NEWNAME": "CWD"}.get(c, "UNK"))
        return out

    @staticmethod
    def name_of(x):
        out = set()
        for c in x:
            out.add({"IN_RAW": "IN_NAME_RAW", "IN_NORM": "IN_NAME", "IN_CHILD": "CHILD_NAME", "OUT": "OUT_NAME",
                     "NEWNAME": "NEWNAME"}.get(c, "UNK"))
        return out

    def concat(self, a, b, node=None):
        out = set()
        for x in a:
            for y in b:
                if x == "IN_RAW":
                    out.add("IN_CHILD" if y == "SEP" else "IN_SIB_RAW")
                elif x == "IN_NORM":
                    out.add("IN_CHILD" if y == "SEP" else "IN_SIB")
                elif x in ("IN_SIB", "IN_SIB_RAW", "OUT", "IN_CHILD", "NEWNAME", "MANGLED"):
                    out.add(x)
                elif x in ("IN_NAME_RAW",) and y in ("IN_NAME_RAW", "IN_NAME"):
                    out.add("NAMECAT_RAW")
                elif x == "IN_NAME" and y == "IN_NAME_RAW":
                    out.add("NAMECAT_RAW")
                elif x == "IN_NAME" and y == "IN_NAME":
                    out.add("NEWNAME")
                elif x in ("CONST", "NEWNAME", "OTHER"):
                    out.add("NEWNAME")
                elif x in ("IN_NAME", "IN_NAME_RAW") and y in ("CONST",):
                    out.add("NAME_SUFFIXED")
                elif x == "SEP":
                    out.add("UNK")
                else:
                    out.add("UNK")
        return out

    def join(self, parts):
        """os.path.join of class sets"""
        outs = {None}
        # root = first non-CWD component
        res = set()

        def rec(i, root, rest_kinds):
            if i == len(parts):
                res.add(self.join_result(root, rest_kinds))
                return
            for c in parts[i]:
                if root is None:
                    if c == "CWD":
                        rec(i + 1, None, rest_kinds)
                    else:
                        rec(i + 1, c, rest_kinds)
                else:
                    rec(i + 1, root, rest_kinds + [c])
        rec(0, None, [])
        return res

    @staticmethod
    def join_result(root, rest):
        if root is None:
            return "CWD"
        # os.path.join discards everything before an absolute component: a later component that is itself an input
        # path (or a path derived from one, not a bare name) may be absolute and then *is* the result
        if any(r in INSIDE or r in ("IN_PARENT", "IN_PARENT_RAW", "IN_SIB_RAW") for r in rest):
            return "IN_CHILD"
        if root in INSIDE:
            return "IN_CHILD"
        if root == "OUT":
            return "OUT"
        if root == "IN_PARENT":
            if len(rest) == 1 and rest[0] in ("NEWNAME", "NAME_SUFFIXED"):
                return "IN_SIB"
            if len(rest) == 1 and rest[0] in ("IN_NAME_SAME",):
                return "IN_SIB_SAME"
            if len(rest) == 1 and rest[0] == "IN_NAME":
                return "IN_NORM"
            return "UNK"
        if root == "IN_PARENT_RAW":
            return "IN_SIB_RAW"
        if root in ("IN_SIB", "IN_SIB_RAW", "IN_SIB_SAME", "NAMECAT_RAW"):
            return root
        if root in ("NEWNAME", "CONST", "NAME_SUFFIXED"):
            return "NEWNAME"
        if root in ("IN_NAME", "IN_NAME_RAW", "CHILD_NAME"):
            # a bare component of the input used as a relative root: relative to cwd
            return "NAME_REL"
        return "UNK"

    # -- expression evaluation ---------------------------------------------------------
    def ev(self, n, depth=0):
        if depth > 30:
            return {"UNK"}
        if isinstance(n, ast.Constant):
            if n.value is None:
                return {"NONE"}
            if isinstance(n.value, str):
                if n.value in ("/", "\\"):
                    return {"SEP"}
                return {"SEP"} if n.value.startswith(("/", "\\")) else {"CONST"}
            return {"OTHER"}
        if isinstance(n, ast.Name):
            if n.id in self.env:
                return set(self.env[n.id])
            return {"UNK"}
        if isinstance(n, ast.Attribute):
            t = norm(n)
            if t in SEP_TEXTS:
                return {"SEP"}
            if isinstance(n.value, ast.Name):
                base = n.value.id
                if base == "self":
                    if n.attr in self.attrs and self.attrs[n.attr]:
                        return set(self.attrs[n.attr])
                    if n.attr in INPUT_ATTRS:
                        return {"IN_RAW"}
                    return {"UNK"}
                if base == "args":
                    if n.attr in ARGS_IN:
                        return {"IN_RAW"}
                    if n.attr in ARGS_OUT:
                        return {"OUT", "NONE"}
                    return {"OTHER"}
                if n.attr in INPUT_ATTRS:
                    return {"IN_RAW"}       # pck.pfile, pck1.pfile, other.pfile
            if n.attr in INPUT_ATTRS:
                return {"IN_RAW"}
            return {"UNK"}
        if isinstance(n, ast.Subscript) and isinstance(n.value, ast.Name) and isinstance(n.slice, ast.Constant) \
                and isinstance(n.slice.value, str):
            k = f"{n.value.id}[{n.slice.value!r}]"
            if k in self.env:
                return set(self.env[k])
            call = getattr(self, "callsrc", {}).get(n.value.id)
            if call is not None:
                out = set()
                for t in self.prog.resolve_callable(self.fi, call.func):
                    params = [p for p in t.params if p != "self"]
                    pc = {}
                    for kw in call.keywords:
                        if kw.arg:
                            c = self.ev(kw.value, depth + 1)
                            if c - {"UNK", "OTHER"}:
                                pc[kw.arg] = c
                    if self.penv._depth > 3:
                        continue
                    self.penv._depth += 1
                    try:
                        ce = FunEval(self.penv, t, param_classes=pc).run()
                        # **kwargs: keyword arguments are visible as kwargs['name']
                        for r in walk_no_nested(t.node):
                            if isinstance(r, ast.Return) and isinstance(r.value, ast.Name):
                                out |= ce.env.get(f"{r.value.id}[{n.slice.value!r}]", set())
                    finally:
                        self.penv._depth -= 1
                if out:
                    return out
        if isinstance(n, ast.Subscript):
            t = norm(n)
            if t.startswith("sys.argv["):
                return {"IN_RAW"}
            if "['files']" in t or "_paths']" in t:
                return {"IN_CHILD"} if "['files']" in t else {"CHILD_NAME"}
            # os.path.split(X)[k]
            if isinstance(n.value, ast.Call) and self.ext(n.value.func) == "os.path.split":
                x = self.ev(n.value.args[0], depth + 1)
                k = norm(n.slice)
                if k == "0":
                    return self.parent_of(x)
                if k in ("1", "-1"):
                    return self.name_of(x)
                if k == ":-1":
                    return self.parent_of(x)
            if isinstance(n.value, ast.Call) and isinstance(n.value.func, ast.Attribute) and \
                    n.value.func.attr == "split" and norm(n.slice) == "-1":
                return self.name_of(self.ev(n.value.func.value, depth + 1))
            v = self.ev(n.value, depth + 1)
            return v
        if isinstance(n, ast.BinOp) and isinstance(n.op, ast.Add):
            return self.concat(self.ev(n.left, depth + 1), self.ev(n.right, depth + 1), n)
        if isinstance(n, ast.JoinedStr):
            if not n.values:
                return {"CONST"}
            cur = None
            for v in n.values:
                c = self.ev(v.value if isinstance(v, ast.FormattedValue) else v, depth + 1)
                cur = c if cur is None else self.concat(cur, c, n)
            return cur
        if isinstance(n, ast.IfExp):
            return self.ev(n.body, depth + 1) | self.ev(n.orelse, depth + 1)
        if isinstance(n, ast.Starred):
            return self.ev(n.value, depth + 1)
        if isinstance(n, ast.Call):
            ext = self.ext(n.func) or ""
            if ext == "os.getcwd":
                return {"CWD"}
            if ext == "os.path.join":
                return self.join([self.ev(a, depth + 1) for a in n.args])
            if ext in NORMALISERS and n.args:
                x = self.ev(n.args[0], depth + 1)
                return {("IN_NORM" if c == "IN_RAW" else c) for c in x}
            if ext == "os.path.basename" and n.args:
                return self.name_of(self.ev(n.args[0], depth + 1))
            if ext == "os.path.dirname" and n.args:
                return self.parent_of(self.ev(n.args[0], depth + 1))
            if ext in ("numpy.array", "numpy.unique", "numpy.asarray", "list", "sorted", "tuple", "str") and n.args:
                return self.ev(n.args[0], depth + 1)
            if isinstance(n.func, ast.Attribute):
                recv = self.ev(n.func.value, depth + 1)
                m = n.func.attr
                if m in ("rstrip",) and n.args and (norm(n.args[0]) in SEP_TEXTS):
                    return {("IN_NORM" if c == "IN_RAW" else c) for c in recv}
                if m == "replace":
                    out = set()
                    guarded = self.replace_guarded(n)
                    for c in recv:
                        if c == "IN_NAME" and guarded:
                            out.add("NAME_SUFFIXED")
                        else:
                            out.add({"IN_NAME": "IN_NAME_SAME", "IN_NAME_RAW": "IN_NAME_SAME",
                                     "CHILD_NAME": "CHILD_NAME"}.get(c, c))
                    return out
                if m in ("split", "rsplit", "partition", "rpartition") and n.args and \
                        isinstance(n.args[0], ast.Constant) and isinstance(n.args[0].value, str) and \
                        n.args[0].value not in ("/", "\\") and (recv - {"UNK", "OTHER", "NONE", "CONST"}):
                    # cutting a *path* at a character that is not the separator: the character may sit in a
                    # directory component, and the piece kept is then a different directory altogether
                    return {"MANGLED"}
                if m in ("strip", "lower", "upper", "format", "removeprefix", "removesuffix", "lstrip"):
                    # prefix / suffix removal returns the string unchanged when it does not match
                    return recv
            tg = self.prog.resolve_callable(self.fi, n.func)
            tg = [t for t in tg if isinstance(t, FunctionInfo) and t.node.name != "__init__"]
            if tg:
                out = set()
                for t in tg:
                    params = [p for p in t.params if p != "self"]
                    pc = {}
                    for i, a in enumerate(n.args):
                        if i < len(params):
                            c = self.ev(a, depth + 1)
                            if c - {"UNK", "OTHER"}:
                                pc[params[i]] = c
                    out |= self.penv.return_classes(t, pc)
                return out
            return {"UNK"}
        return {"UNK"}


# ---------------------------------------------------------------------------
# sinks
# ---------------------------------------------------------------------------
SINK_CALLS = {
    "os.mkdir": 0, "os.makedirs": 0, "shutil.rmtree": 0, "os.remove": 0, "os.unlink": 0, "os.rmdir": 0,
    "numpy.save": 0, "numpy.savez": 0, "numpy.savez_compressed": 0, "numpy.savetxt": 0,
    "shutil.move": None, "shutil.copy": None, "shutil.copy2": None, "shutil.copyfile": None, "shutil.copytree": None,
    "os.rename": None, "os.replace": None, "os.symlink": None, "os.truncate": 0, "os.chmod": 0,
}
WRITE_MODES = set("wax+")


class Sink:
    def __init__(self, fi, node, kind, path_node, mode=None):
        self.fi, self.node, self.kind, self.path_node, self.mode = fi, node, kind, path_node, mode
        self.classes = None

    @property
    def key(self):
        return f"{self.kind}({norm(self.path_node)[:50]})"


def open_mode(call):
    mode = "r"
    if len(call.args) > 1:
        mode = call.args[1].value if isinstance(call.args[1], ast.Constant) else "?"
    for k in call.keywords:
        if k.arg == "mode":
            mode = k.value.value if isinstance(k.value, ast.Constant) else "?"
    return mode


def find_sinks(prog, fi):
    out, opens = [], []
    for n in walk_no_nested(fi.node):
        if not isinstance(n, ast.Call):
            continue
        ext = prog.external_name(fi.module, n.func) if isinstance(n.func, (ast.Attribute, ast.Name)) else None
        if isinstance(n.func, ast.Name) and n.func.id == "open" and n.args:
            mode = open_mode(n)
            opens.append((n, mode))
            if mode == "?" or (set(mode) & WRITE_MODES):
                out.append(Sink(fi, n, "open:" + mode, n.args[0], mode))
        elif ext in ("numpy.memmap", "numpy.lib.format.open_memmap") and n.args:
            # np.memmap maps the file read-WRITE by default ('r+'): every store through the array (or a view of
            # it) is written back to the file; only mode 'r' (read-only) and 'c' (copy-on-write) leave it alone
            mode = "r+"
            if len(n.args) > 2:
                mode = n.args[2].value if isinstance(n.args[2], ast.Constant) else "?"
            for k in n.keywords:
                if k.arg == "mode":
                    mode = k.value.value if isinstance(k.value, ast.Constant) else "?"
            if mode not in ("r", "c"):
                out.append(Sink(fi, n, "memmap:" + str(mode), n.args[0], mode))
        elif ext == "numpy.load" and n.args and any(k.arg == "mmap_mode" and not (isinstance(k.value, ast.Constant)
                                                    and k.value.value in (None, "r", "c")) for k in n.keywords):
            out.append(Sink(fi, n, "load:mmap", n.args[0], "r+"))
        elif ext in SINK_CALLS and n.args:
            idxs = [SINK_CALLS[ext]] if SINK_CALLS[ext] is not None else list(range(min(2, len(n.args))))
            for i in idxs:
                if i < len(n.args):
                    out.append(Sink(fi, n, ext, n.args[i]))
        elif isinstance(n.func, ast.Attribute) and n.func.attr == "savefig" and n.args:
            out.append(Sink(fi, n, "savefig", n.args[0]))
    return out, opens


def task_key_classes(penv, prog, site):
    """classes of the task-dict keys (or tuple slots) at a pool site, evaluated in the producer"""
    fe = FunEval(penv, site.fi).run()
    out = {}

    def from_dict(d, fe_):
        for k, v in zip(d.keys, d.values):
            if isinstance(k, ast.Constant):
                out.setdefault(repr(k.value), set()).update(fe_.ev(v))

    def scan(fi_, fe_, task, depth=0):
        if task is None or depth > 4:
            return
        if isinstance(task, ast.Call) and call_name(task) in pools.TRANSPARENT and task.args:
            return scan(fi_, fe_, task.args[0], depth + 1)
        if isinstance(task, ast.Name):
            for n in walk_no_nested(fi_.node):
                if isinstance(n, ast.Call) and call_name(n) == "append" and isinstance(n.func.value, ast.Name) \
                        and n.func.value.id == task.id and n.args:
                    scan(fi_, fe_, n.args[0], depth + 1)
                if isinstance(n, ast.Assign) and any(isinstance(t, ast.Name) and t.id == task.id for t in n.targets):
                    scan(fi_, fe_, n.value, depth + 1)
        elif isinstance(task, ast.Dict):
            from_dict(task, fe_)
        elif isinstance(task, (ast.List, ast.Tuple)):
            if task.elts and not isinstance(task.elts[0], (ast.Dict, ast.List, ast.Tuple, ast.Name)) or \
                    (task.elts and len(task.elts) > 3):
                for i, e in enumerate(task.elts):
                    out.setdefault(str(i), set()).update(fe_.ev(e))
            else:
                for e in task.elts:
                    scan(fi_, fe_, e, depth + 1)
        elif isinstance(task, ast.ListComp):
            scan(fi_, fe_, task.elt, depth + 1)
        elif isinstance(task, ast.Call):
            if call_name(task) == "zip":
                for i, a in enumerate(task.args):
                    out.setdefault(str(i), set()).update(fe_.ev(a))
                return
            for g in prog.resolve_callable(fi_, task.func):
                # bind output-ish parameters from the call site
                pc = {}
                params = [p for p in g.params if p != "self"]
                for i, a in enumerate(task.args):
                    if i < len(params):
                        pc[params[i]] = fe_.ev(a)
                for k in task.keywords:
                    if k.arg:
                        pc[k.arg] = fe_.ev(k.value)
                ge = FunEval(penv, g, param_classes={k: v for k, v in pc.items() if v - {"UNK", "OTHER"}}).run()
                for y in ast.walk(g.node):
                    if isinstance(y, ast.Yield) and y.value is not None:
                        scan(g, ge, y.value, depth + 1)
    scan(site.fi, fe, site.task)
    return out


def worker_param_classes(penv, prog):
    """for every worker function: classes of args['key'] / args[i], joined over all pool sites feeding it"""
    res = {}
    for fi in prog.all_functions():
        for s in pools.find_sites(prog, fi):
            kc = task_key_classes(penv, prog, s)
            for w in s.workers:
                d = res.setdefault(w.site, {})
                for k, v in kc.items():
                    d.setdefault(k, set()).update(v)
    return res


class WorkerEval(FunEval):
    """FunEval for a pool worker: args['k'] / args[i] / tuple-unpacked task elements take the producer's classes"""

    def __init__(self, penv, fi, keyclasses):
        super().__init__(penv, fi)
        self.kc = keyclasses
        self.p = fi.params[0] if fi.params else None
        # (a, b, c) = args
        for n in walk_no_nested(fi.node):
            if isinstance(n, ast.Assign) and isinstance(n.value, ast.Name) and n.value.id == self.p and \
                    isinstance(n.targets[0], (ast.Tuple, ast.List)):
                for i, e in enumerate(n.targets[0].elts):
                    if isinstance(e, ast.Name) and str(i) in self.kc:
                        self.env[e.id] = set(self.kc[str(i)])

    def bind(self, t, v, valnode, replace=False):
        if isinstance(t, (ast.Tuple, ast.List)) and isinstance(valnode, ast.Name) and valnode.id == self.p:
            return
        super().bind(t, v, valnode, replace)

    def ev(self, n, depth=0):
        if isinstance(n, ast.Subscript) and isinstance(n.value, ast.Name) and n.value.id == self.p and \
                isinstance(n.slice, ast.Constant):
            k = repr(n.slice.value) if isinstance(n.slice.value, str) else str(n.slice.value)
            if k in self.kc:
                return set(self.kc[k])
            return {"UNK"}
        return super().ev(n, depth)


# ---------------------------------------------------------------------------
# exception flow
# ---------------------------------------------------------------------------
def sinks_in_swallowing_try(prog, fi, sinks_nodes):
    """X1: sink calls (or calls that reach sinks) lexically inside a try whose handler can complete"""
    out = []
    pm = parents(fi.node)
    for n in sinks_nodes:
        cur = pm.get(n)
        prev = n
        while cur is not None:
            if isinstance(cur, ast.Try) and any(prev is b or prev in list(ast.walk(b)) for b in cur.body):
                for h in cur.handlers:
                    if not always_raises(h.body):
                        out.append((n, cur, h))
            prev = cur
            cur = pm.get(cur)
    return out
