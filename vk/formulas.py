"""E5 — formula conformance helpers on top of rules.expr_ratio."""
import ast

from .poly import Ratio, Poly
from .rules import expr_ratio, local_env, FormulaError, compare_nf, leaf_text
from .model import norm, loc, AnalysisError, walk_no_nested


def A(name):
    return Ratio.atom(name)


def geometry_relation(obj, lv, d, names=("geo_low", "geo_high", "dx", "grid_sizes")):
    """well-formedness of AMReX geometry: geo_high[d] = geo_low[d] + grid_sizes[lv][d]*dx[lv][d]"""
    lo, hi, dx, gs = names
    pre = f"{obj}." if obj else ""
    return {f"{pre}{hi}[{d}]": A(f"{pre}{lo}[{d}]") + A(f"{pre}{gs}[{lv}][{d}]") * A(f"{pre}{dx}[{lv}][{d}]")}


def equal_under(got, want, relations):
    g, w = got, want
    for rel in relations:
        g, w = g.subs(rel), w.subs(rel)
    return g == w


def find_assign(fi, name, nth=0):
    hits = [n for n in walk_no_nested(fi.node) if isinstance(n, ast.Assign) and len(n.targets) == 1
            and norm(n.targets[0]) == name]
    hits.sort(key=lambda n: n.lineno)
    return hits[nth] if len(hits) > nth else None


def formula_rule(ctx, rule, fi, node, want, relations=(), what="", key="", env=None, atom=None):
    """evaluate `node` in fi (with forward substitution) and compare with the spec formula `want`"""
    if node is None:
        ctx.unknown(rule, fi.site, f"expression for {what} not found", key=key)
        return None
    try:
        got = expr_ratio(node, env if env is not None else local_env(fi.node), atom)
    except FormulaError as e:
        ctx.unknown(rule, fi.site, f"cannot evaluate {what}: {e}", key=key, where=loc(fi, node))
        return None
    ok = equal_under(got, want, relations)
    ctx.check(ok, rule, fi.site, f"{what} = {want}" + (" (under the geometry relation hi = lo + n*dx)" if relations else ""),
              f"{what} evaluates to {got}; the specification is {want}", key=key, where=loc(fi, node),
              objects={"got": str(got), "want": str(want)}, semantic=True)
    return got


def level_loops(fi, level_tables=("cells", "boxes", "dx", "grid_sizes", "cell_paths", "grids", "box_arrays",
                                  "barr_indices", "step_numbers", "npoints")):
    """for-loops over range(E) whose variable subscripts a per-level table -> [(loop, var, bound node)]"""
    out = []
    for n in walk_no_nested(fi.node):
        if isinstance(n, ast.For) and isinstance(n.target, ast.Name) and isinstance(n.iter, ast.Call) \
                and norm(n.iter.func) == "range" and n.iter.args:
            v = n.target.id
            used = False
            for s in ast.walk(ast.Module(body=n.body, type_ignores=[])):
                if isinstance(s, ast.Subscript) and isinstance(s.slice, ast.Name) and s.slice.id == v:
                    b = s.value
                    bt = norm(b)
                    if any(bt.endswith("." + t) for t in level_tables):
                        used = True
            if used or v in ("lv", "level", "Lv"):
                out.append((n, v, n.iter))
    return out


def rule_level_range(ctx, rule, fi, obj="self", attr="limit_level", exceptions=None):
    """LEVEL-RANGE: every loop over levels ranges over range(<obj>.<attr> + 1)"""
    exceptions = exceptions or {}
    env = local_env(fi.node)
    n = 0
    for loop, var, it in level_loops(fi):
        args = it.args
        if len(args) == 1:
            lo, hi = Ratio(0), expr_ratio(args[0], env)
        elif len(args) == 2:
            lo, hi = expr_ratio(args[0], env), expr_ratio(args[1], env)
        else:
            continue
        n += 1
        want = expr_ratio(ast.parse(f"{obj}.{attr} + 1", mode="eval").body, env)
        t = norm(it)
        if t in exceptions:
            ctx.ok(rule, fi.site, f"loop {t}: frozen exception — {exceptions[t]}", key=t)
            continue
        ok = lo == Ratio(0) and hi == want
        # a loop over the *length of per-level lists* built elsewhere (results of another method) visits what those
        # lists hold: not a static quantity here
        by_len = len(args) == 1 and norm(args[0]).startswith(("len(", "min(len(")) and "self." not in norm(args[0])
        ctx.decide(ok, not by_len, rule, fi.site, f"level loop ranges over 0..{obj}.{attr} inclusive",
                  f"level loop `for {var} in {t}` does not range over range({obj}.{attr} + 1)", key=t,
                  where=loc(fi, loop))
        # a level loop that is left early does not range over all its levels either
        bad = [e for e in early_exits(loop) if not _predicate_exit(loop, e)]
        ctx.check(not bad, rule, fi.site, f"level loop `for {var} in {t}` visits every level (no early exit)",
                  f"level loop `for {var} in {t}` is left early by `{norm(bad[0]) if bad else ''}` "
                  f"(line {bad[0].lineno if bad else 0}): the levels after that point are never visited, so a finer "
                  f"level that holds the data is ignored", key=t + ":early-exit", where=loc(fi, bad[0]) if bad else None)
    return n


def early_exits(loop):
    """break statements that leave `loop` and return statements inside it"""
    def walk(stmts, inner):
        out = []
        for s in stmts:
            if isinstance(s, ast.Return):
                out.append(s)
            elif isinstance(s, ast.Break) and not inner:
                out.append(s)
            elif isinstance(s, (ast.For, ast.While)):
                out += walk(s.body, True) + walk(s.orelse, inner)
            elif isinstance(s, ast.If):
                out += walk(s.body, inner) + walk(s.orelse, inner)
            elif isinstance(s, ast.With):
                out += walk(s.body, inner)
            elif isinstance(s, ast.Try):
                out += walk(s.body, inner) + walk(s.orelse, inner) + walk(s.finalbody, inner)
                for h in s.handlers:
                    out += walk(h.body, inner)
        return out
    return walk(loop.body, False)


def _predicate_exit(loop, e):
    """exits of a loop that evaluates a for-all / exists predicate over the levels: `return <constant>`, or a
    `break` that directly follows the assignment of a constant to a flag / mode variable"""
    if isinstance(e, ast.Return):
        return e.value is None or isinstance(e.value, ast.Constant)
    for blk in _blocks(loop):
        if e in blk:
            i = blk.index(e)
            prev = blk[i - 1] if i else None
            return isinstance(prev, ast.Assign) and isinstance(prev.value, ast.Constant)
    return False


def _blocks(node):
    for x in ast.walk(node):
        for fld in ("body", "orelse", "finalbody"):
            b = getattr(x, fld, None)
            if isinstance(b, list) and b and isinstance(b[0], ast.stmt):
                yield b
