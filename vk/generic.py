"""Generic lints swept over every function a property's check anchors (the functions its rules looked up or
reported on): loop-carried state (vk/loopstate.py).  Run by run_check.py after the property's own rules."""
from . import loopstate


def anchored_functions(ctx):
    prog = ctx.prog
    out = {}
    for rel, q in sorted(getattr(prog, "requested", set())):
        if prog.has_func(rel, q):
            fi = prog.func(rel, q)
            out[fi.site] = fi
    for r in ctx.results:
        s = r.get("site") or ""
        if "::" not in s:
            continue
        rel, rest = s.split("::", 1)
        parts = rest.split("::")
        for k in range(len(parts), 0, -1):
            q = "::".join(parts[:k]).split("#")[0]
            if prog.has_func(rel, q):
                fi = prog.func(rel, q)
                out[fi.site] = fi
                break
    return [out[k] for k in sorted(out)]


# properties about schedules (C12) and about where tools write (C13) anchor every pool site / every sink of the
# package; a stale table in one of those functions breaks the property of the tool that owns it, not these two
NO_SWEEP = {"C12", "C13"}


def sweep(ctx):
    if ctx.prop in NO_SWEEP:
        return
    fns = anchored_functions(ctx)
    for fi in fns:
        if fi.module.relpath in ctx.prog.excluded:
            continue
        loopstate.rule_loop_state(ctx, ctx.prop, fi)
    ctx.note("generic_lints", {"functions": len(fns), "lints": ["LOOP-STATE"]})
