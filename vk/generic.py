"""Generic lints swept over every function a property's check anchors (the functions its rules looked up or
reported on): loop-carried state (vk/loopstate.py).  Run by run_check.py after the property's own rules."""
from . import loopstate, guards, history


def anchored_functions(ctx):
    prog = ctx.prog
    out = {}
    for rel, q in sorted(getattr(prog, "requested", set())):
        if prog.has_func(rel, q):
            fi = prog.func(rel, q)
            out[fi.site] = fi
    for r in ctx.results:
        s = r.get("site") or ""
        if "::" not in s:
            continue
        rel, rest = s.split("::", 1)
        parts = rest.split("::")
        for k in range(len(parts), 0, -1):
            q = "::".join(parts[:k]).split("#")[0]
            if prog.has_func(rel, q):
                fi = prog.func(rel, q)
                out[fi.site] = fi
                break
    return [out[k] for k in sorted(out)]


# properties about schedules (C12) and about where tools write (C13) anchor every pool site / every sink of the
# package; a stale table in one of those functions breaks the property of the tool that owns it, not these two
NO_SWEEP = {"C12", "C13"}

# functions a property's entry points reach syntactically but never run under the options the property quantifies
# over (one line of reason each)
OUT_OF_SCOPE = {
    # C04 / C20 are stated for *default* validation: `binary_data` is off by default, so `taste_binary_data` (whose
    # unbound `pool` / `self.warn_nans` are finding F04 of C03, which quantifies over every option set) does not run
    "C04": {"amr_kitchen/taste/taste.py::Taster.taste_binary_data"},
    "C20": {"amr_kitchen/taste/taste.py::Taster.taste_binary_data"},
}


UNTRIMMED = ("dx", "grid_sizes", "step_numbers", "factors")


def rule_level_table(ctx, prefix, fi):
    """the reader keeps `dx`, `grid_sizes`, `step_numbers` (and the ratio list) for every level of the Header
    (max_level + 1 entries) while `boxes` / `cells` / `grids` hold the selected levels 0..limit_level only.  Taking the
    *length* of an untrimmed table as the number of levels, or its *last* entry as "the finest selected level", is
    right only without a level limit."""
    import ast
    from .model import norm, walk_no_nested, loc
    if fi.module.relpath.startswith("amr_kitchen/chk2plt/"):
        return      # the checkpoint reader has no level limit: all its per-level tables hold every level
    bad = []
    for n in walk_no_nested(fi.node):
        if isinstance(n, ast.Call) and isinstance(n.func, ast.Name) and n.func.id == "len" and len(n.args) == 1 \
                and isinstance(n.args[0], ast.Attribute) and n.args[0].attr in UNTRIMMED:
            bad.append((n, f"`{norm(n)}` counts every level of the Header, not the selected levels (limit_level + 1)"))
        if isinstance(n, ast.Subscript) and isinstance(n.value, ast.Attribute) and n.value.attr in UNTRIMMED \
                and isinstance(n.ctx, ast.Load):
            sl = n.slice
            neg = isinstance(sl, ast.UnaryOp) and isinstance(sl.op, ast.USub) and isinstance(sl.operand, ast.Constant)
            if neg:
                bad.append((n, f"`{norm(n)}` is the entry of the Header's finest level, not of the finest selected "
                               f"level (limit_level)"))
    # the ratio list has one entry per *coarse* level: it is empty for a plotfile whose finest level is 0, so an
    # element taken at a fixed position without a guard raises IndexError for every single-level plotfile
    pm0 = {}
    for x in ast.walk(fi.node):
        for c in ast.iter_child_nodes(x):
            pm0[c] = x
    for n in walk_no_nested(fi.node):
        if isinstance(n, ast.Subscript) and isinstance(n.value, ast.Attribute) and n.value.attr == "factors" \
                and isinstance(n.ctx, ast.Load) and not isinstance(n.slice, ast.Slice):
            guarded, cur = False, n
            while cur in pm0:
                cur = pm0[cur]
                if isinstance(cur, (ast.If, ast.IfExp, ast.While)) and ("factors" in norm(cur.test) or "max_level" in norm(cur.test)
                                                                          or "limit_level" in norm(cur.test)):
                    guarded = True
                if isinstance(cur, ast.For) and ("max_level" in norm(cur.iter) or "limit_level" in norm(cur.iter)
                                                 or "factors" in norm(cur.iter)):
                    guarded = True      # indexed by a level loop: zero iterations when there is no finer level
                if isinstance(cur, ast.Try):
                    guarded = True
            if not guarded:
                bad.append((n, f"`{norm(n)}` takes an entry of the refinement-ratio list without a guard: the list has "
                               f"one entry per coarse level and is EMPTY for a plotfile whose finest level is 0 "
                               f"(IndexError for every single-level plotfile)"))
    # building the table itself (`t.append(t[-1] * 2)`) is not a read of "the finest level"
    keep = []
    import ast as _a
    par = {}
    for x in _a.walk(fi.node):
        for c in _a.iter_child_nodes(x):
            par[c] = x
    for n, msg in bad:
        p = par.get(n)
        building = False
        while p is not None and not isinstance(p, _a.stmt):
            if isinstance(p, _a.Call) and isinstance(p.func, _a.Attribute) and p.func.attr in ("append", "extend") \
                    and isinstance(n, _a.Subscript) and norm(p.func.value) == norm(n.value):
                building = True
            p = par.get(p)
        if not building:
            keep.append((n, msg))
    ctx.check(not keep, f"{prefix}.LEVEL-TABLE", fi.site,
              "no level count / finest level is taken from a table that is not trimmed to the level limit",
              "; ".join(m for _, m in keep[:2]) + ": with limit_level below the Header's finest level this names "
              "another level", key="level-table", where=loc(fi, keep[0][0]) if keep else None, semantic=True)


def rule_lib_pitfall(ctx, prefix, fi):
    """library calls whose *result shape or content depends on the data* in a way element-wise code does not:
      np.loadtxt / np.genfromtxt without ndmin=2   one row or one column is squeezed to 1-D (a level with one box, a
                                                   plotfile with one field); np.atleast_2d afterwards restores the
                                                   rank but not the orientation
      filter(None, ...)                            drops every falsy element, the index 0 included
    (library knowledge encoded here; base rate 0 on the unchanged tree)"""
    import ast
    from .model import norm, walk_no_nested, loc
    bad = []
    for n in walk_no_nested(fi.node):
        if not isinstance(n, ast.Call):
            continue
        f = norm(n.func)
        if f.split(".")[-1] in ("loadtxt", "genfromtxt"):
            nd = [k for k in n.keywords if k.arg == "ndmin"]
            if not (nd and isinstance(nd[0].value, ast.Constant) and nd[0].value.value == 2):
                bad.append((n, f"`{norm(n)[:70]}` has no ndmin=2: a table of one row (one box) or one column (one field) "
                               f"comes back 1-D, so per-box rows and per-field columns are paired wrongly or lost"))
        if f == "filter" and n.args and isinstance(n.args[0], ast.Constant) and n.args[0].value is None:
            bad.append((n, f"`{norm(n)[:70]}` drops every falsy element — a field index 0 (the first field of the "
                           f"Header) is dropped together with the missing ones"))
    for n in walk_no_nested(fi.node):
        if not isinstance(n, ast.Call):
            continue
        f = norm(n.func)
        if f in ("np.put", "numpy.put", "np.place", "numpy.place") or (
                isinstance(n.func, ast.Attribute) and n.func.attr == "put" and len(n.args) >= 2 and
                not norm(n.func.value).lower().endswith(("queue", "q"))):
            bad.append((n, f"`{norm(n)[:70]}` repeats or truncates the values to fit the index list, where the subscript "
                           f"store `a[idx] = values` raises on a length mismatch: a short result (a worker that stopped "
                           f"early, a truncated input) is spread over the table instead of being reported"))
        if f in ("np.resize", "numpy.resize"):
            bad.append((n, f"`{norm(n)[:70]}` refills the array cyclically when the sizes differ instead of raising"))
        if any(k.arg == "mode" and isinstance(k.value, ast.Constant) and k.value.value in ("wrap", "clip") for k in n.keywords) \
                and f.split(".")[-1] in ("take", "put", "ravel_multi_index", "choose"):
            bad.append((n, f"`{norm(n)[:70]}` maps out-of-range indices onto valid ones instead of raising"))
    # falsy defaults: `x or default` / `if not x` on an optional *numeric* argument treats 0 (level 0, normal 0,
    # index 0, position 0.0) like "not given"
    import re as _re
    NUMERIC = _re.compile(r"(^|_)(level|lv|lev|normal|pos|position|index|idx|offset|start|stop|axis|coord|cn|limit)($|_)")
    a = fi.node.args
    pos = a.posonlyargs + a.args
    dflt = dict(zip([p.arg for p in pos[len(pos) - len(a.defaults):]], a.defaults))
    dflt.update({p.arg: d for p, d in zip(a.kwonlyargs, a.kw_defaults) if d is not None})
    optional = {p for p, d in dflt.items() if isinstance(d, ast.Constant) and d.value is None and NUMERIC.search(p)}

    def _optnum(e):
        if isinstance(e, ast.Name) and e.id in optional:
            return e.id
        if isinstance(e, ast.Attribute) and isinstance(e.value, ast.Name) and e.value.id == "args" and NUMERIC.search(e.attr):
            return norm(e)
        return None
    for n in walk_no_nested(fi.node):
        if isinstance(n, ast.BoolOp) and isinstance(n.op, ast.Or) and _optnum(n.values[0]):
            bad.append((n, f"`{norm(n)[:70]}` takes the fallback whenever `{_optnum(n.values[0])}` is falsy: 0 is a legal "
                           f"value (level 0, normal 0, index 0) and is silently replaced by the default - test `is None`"))
        if isinstance(n, (ast.If, ast.IfExp, ast.While)):
            t = n.test
            if isinstance(t, ast.UnaryOp) and isinstance(t.op, ast.Not):
                t = t.operand
            if _optnum(t) and isinstance(t, ast.Name):
                bad.append((n, f"`{norm(n.test)[:50]}` tests the truth of the optional numeric argument `{t.id}`: 0 is a "
                               f"legal value and takes the branch meant for \"not given\" - test `is None`"))
    # partial I/O that the call itself does not report: `f.readinto(buf)` returns the number of bytes actually read and
    # leaves the rest of the buffer as it was (uninitialised for np.empty) - ignoring the count accepts a short file;
    # a file opened for writing with buffering=0 is a raw FileIO whose write() may accept fewer bytes than given
    pm1 = {id(c): p for p in ast.walk(fi.node) for c in ast.iter_child_nodes(p)}
    for n in walk_no_nested(fi.node):
        if isinstance(n, ast.Call) and isinstance(n.func, ast.Attribute) and n.func.attr in ("readinto", "readinto1") \
                and isinstance(pm1.get(id(n)), ast.Expr):
            bad.append((n, f"`{norm(n)[:60]}` ignores the number of bytes read: at the end of a short file the buffer keeps "
                           f"whatever it held (uninitialised memory for np.empty) and nothing downstream fails - "
                           f"np.fromfile + an exact-shape reshape is what reports a truncated input"))
        if isinstance(n, ast.Call) and isinstance(n.func, ast.Name) and n.func.id == "open" and \
                any(k.arg == "buffering" and isinstance(k.value, ast.Constant) and k.value.value == 0 for k in n.keywords):
            mode = n.args[1].value if len(n.args) > 1 and isinstance(n.args[1], ast.Constant) else \
                next((k.value.value for k in n.keywords if k.arg == "mode" and isinstance(k.value, ast.Constant)), "r")
            if isinstance(mode, str) and set(mode) & set("wax+"):
                bad.append((n, f"`{norm(n)[:70]}` opens an unbuffered (raw) file for writing: its write() may accept fewer "
                               f"bytes than it is given (disk full, quota, signals) and only returns the count - a partial "
                               f"write is neither retried nor raised, the tool returns normally with a truncated file"))
    # bounded line reads: readline(n) returns at most n characters — a FAB header or a header line longer than n (large
    # indices, many digits) is cut in the middle and the rest is read as the next line / as data
    for n in walk_no_nested(fi.node):
        if isinstance(n, ast.Call) and isinstance(n.func, ast.Attribute) and n.func.attr in ("readline", "readlines") and \
                (n.args or n.keywords) and not (n.args and isinstance(n.args[0], ast.Constant) and n.args[0].value in (-1, None)):
            bad.append((n, f"`{norm(n)[:60]}` limits the line to a fixed number of characters: a longer line (a FAB header "
                           f"with many-digit indices or field count) is cut and mis-parsed"))
    # negative-zero slices: x[-n:] is "the last n" only for n > 0; for n == 0 it is the whole sequence (and x[:-n] is
    # empty): a remainder / difference that can be zero needs a guard
    par = {id(c): p for p in ast.walk(fi.node) for c in ast.iter_child_nodes(p)}
    for n in walk_no_nested(fi.node):
        if not (isinstance(n, ast.Subscript) and isinstance(n.slice, ast.Slice)):
            continue
        for bound, which in ((n.slice.lower, "lower"), (n.slice.upper, "upper")):
            if isinstance(bound, ast.UnaryOp) and isinstance(bound.op, ast.USub) and not isinstance(bound.operand, ast.Constant):
                v = norm(bound.operand)
                guarded, cur = False, n
                while id(cur) in par:
                    cur = par[id(cur)]
                    if isinstance(cur, (ast.If, ast.IfExp, ast.While)) and v in norm(cur.test):
                        guarded = True
                if not guarded:
                    bad.append((n, f"`{norm(n)[:60]}` counts from the end by `{v}`, which can be 0: then the slice is "
                                   + ("the whole sequence, not the empty tail" if which == "lower" else
                                      "empty, not the whole sequence") + " (no guard on the zero case)"))
    # narrow numeric containers: byte offsets reach and pass 2**31 in production files, header numbers and box data
    # are float64 on disk; a 32-bit (or smaller) dtype literal wraps / overflows the first and rounds the second
    NARROW = {"int32", "int16", "int8", "uint32", "uint16", "uint8", "float32", "float16", "single", "half", "intc",
              "short", "f4", "f2", "i4", "i2", "i1", "u4", "u2", "u1", "<f4", "<i4", ">f4", ">i4"}

    def narrow(e):
        if isinstance(e, ast.Attribute) and e.attr in NARROW:
            return norm(e)
        if isinstance(e, ast.Constant) and isinstance(e.value, str) and e.value in NARROW:
            return repr(e.value)
        return None
    for n in walk_no_nested(fi.node):
        if not isinstance(n, ast.Call):
            continue
        hits = [narrow(k.value) for k in n.keywords if k.arg == "dtype"]
        if isinstance(n.func, ast.Attribute) and n.func.attr in ("astype", "view") and n.args:
            hits.append(narrow(n.args[0]))
        if norm(n.func).split(".")[-1] in ("array", "asarray", "zeros", "empty", "ones", "full", "fromfile", "frombuffer") \
                and len(n.args) >= 2:
            hits.append(narrow(n.args[1]))
        if isinstance(n.func, ast.Attribute) and n.func.attr in NARROW and isinstance(n.func.value, ast.Name) and \
                n.func.value.id in ("np", "numpy"):
            hits.append(norm(n.func))
        for h in [h for h in hits if h]:
            bad.append((n, f"`{norm(n)[:70]}` stores file-derived numbers in a {h} container: byte offsets of 2 GiB and "
                           f"more wrap or overflow in 32 bits, and float64 header values / box data are rounded (or "
                           f"flushed to 0 / inf) in float32"))
    ctx.check(not bad, f"{prefix}.LIB-PITFALL", fi.site,
              "no data-dependent squeeze / falsy filtering / narrow numeric container in the table handling of this function",
              "; ".join(m for _, m in bad[:2]), key="lib-pitfall", where=loc(fi, bad[0][0]) if bad else None,
              semantic=True)


def rule_unbound(ctx, prefix, fi):
    """U1: a name that is read but bound nowhere (local, enclosing, module, builtins) raises NameError when reached;
    U2: `self.<a>` read in a method while no class of the hierarchy ever stores it raises AttributeError.  Whatever
    operation reaches that statement fails for every input (the repository's own instance: `pool` in
    Taster.taste_binary_data)."""
    import ast
    from .model import undefined_names, self_attrs_assigned, walk_no_nested, loc
    m = fi.module
    if any(isinstance(n, ast.ImportFrom) and any(a.name == "*" for a in n.names) for n in ast.walk(m.tree)):
        return
    seen = set()
    # a name read only while building the argument of a `raise` changes which exception is raised, not whether
    in_raise = {id(x) for r in walk_no_nested(fi.node) if isinstance(r, ast.Raise) for x in ast.walk(r)}
    for n in undefined_names(ctx.prog, fi):
        if n.id in seen:
            continue
        if id(n) in in_raise:
            ctx.info(f"{prefix}.U1", fi.site, f"name `{n.id}` is unbound inside a raise statement (the operation is "
                                              f"refused either way, with NameError instead of the intended exception)", n.id)
            continue
        seen.add(n.id)
        ctx.finding(f"{prefix}.U1", fi.site, f"name `{n.id}` is read but bound nowhere (NameError when reached)",
                    key=n.id, where=loc(fi, n), semantic=True)
    ci = getattr(fi, "cls", None)
    if ci is None:
        return
    mro = ctx.prog.mro(ci)
    # every base must be a class of the analysed program (or object): an external base may define attributes
    for c in mro:
        for b in c.node.bases:
            bn = ast.unparse(b)
            if bn != "object" and not any(x.node.name == bn.split(".")[-1] for x in mro):
                return
    attrs = self_attrs_assigned(ctx.prog, ci)
    if any(isinstance(x, ast.Call) and isinstance(x.func, ast.Name) and x.func.id in ("setattr", "vars")
           for c in mro for x in ast.walk(c.node)) or any(
            isinstance(x, ast.Attribute) and x.attr == "__dict__" for c in mro for x in ast.walk(c.node)):
        return
    first = fi.params[0] if fi.params else "self"
    for n in walk_no_nested(fi.node):
        if isinstance(n, ast.Attribute) and isinstance(n.ctx, ast.Load) and isinstance(n.value, ast.Name) and \
                n.value.id == first == "self" and n.attr not in attrs and not n.attr.startswith("__") and \
                n.attr not in seen:
            seen.add(n.attr)
            ctx.finding(f"{prefix}.U2", fi.site, f"attribute `self.{n.attr}` is read but never assigned in the class "
                        f"hierarchy (AttributeError when reached)", key=f"self.{n.attr}", where=loc(fi, n), semantic=True)


def rule_negative_wrap(ctx, prefix, fi):
    """NEG-WRAP: `if k < 0: k += E` turns a negative index into a position counted from the end only when E is the
    *number of entries* of what k indexes; the index of the last entry (a maximum, `x[-1]`, `len(x) - 1`, the finest
    level number) is one short: -1 then selects the entry before the last one and -n stays negative"""
    import ast
    from .model import norm, walk_no_nested, loc
    for n in walk_no_nested(fi.node):
        if not isinstance(n, ast.If):
            continue
        neg = None
        for c in ast.walk(n.test):
            if isinstance(c, ast.Compare) and len(c.ops) == 1 and isinstance(c.ops[0], ast.Lt) and \
                    isinstance(c.comparators[0], ast.Constant) and c.comparators[0].value == 0 and \
                    isinstance(c.left, (ast.Name, ast.Attribute)):
                neg = norm(c.left)
        if neg is None:
            continue
        for b in n.body:
            if isinstance(b, ast.AugAssign) and isinstance(b.op, ast.Add) and norm(b.target) == neg:
                e = norm(b.value)
            elif isinstance(b, ast.Assign) and norm(b.targets[0]) == neg and isinstance(b.value, ast.BinOp) and \
                    isinstance(b.value.op, ast.Add) and neg in (norm(b.value.left), norm(b.value.right)):
                e = norm(b.value.right) if norm(b.value.left) == neg else norm(b.value.left)
            else:
                continue
            import re
            count = bool(re.fullmatch(r"len\(.+\)|.+\.size|.+\.shape\[\d+\]|(self\.)?(limit_level|max_level) \+ 1|"
                                      r"1 \+ (self\.)?(limit_level|max_level)|(self\.)?(nfields|nvars|ndims|nfidxs|size)", e))
            last = bool(re.fullmatch(r"max\(.+\)|np\.max\(.+\)|.+\[-1\]|len\(.+\) - 1|(self\.)?(limit_level|max_level)", e))
            ctx.decide(count, last, f"{prefix}.NEG-WRAP", fi.site,
                       f"negative `{neg}` is wrapped by the number of entries ({e})",
                       f"`if {norm(n.test)}: {neg} += {e}` wraps a negative index by the index of the *last* entry, not by "
                       f"the number of entries: {neg} = -1 selects the entry before the last one, and the most negative "
                       f"legal value stays negative", key=f"negwrap:{neg}", where=loc(fi, b))


def rule_zip_len(ctx, prefix, fi):
    """ZIP-LEN: zip() stops at its shortest operand without a word.  Pairing a sequence whose length is a closed formula
    (names generated over range(n), `[x] * n`) with a list that a loop grows under a data-dependent condition (one
    `append` per *decision*, not per iteration) relies on the formula bounding the number of decisions; when it does
    not, the trailing items of the grown list are dropped silently (boxes never written, results never placed)."""
    import ast
    from .model import norm, walk_no_nested, loc, parents
    pm = parents(fi.node)
    binds = {}
    for n in walk_no_nested(fi.node):
        if isinstance(n, ast.Assign) and len(n.targets) == 1 and isinstance(n.targets[0], ast.Name):
            binds.setdefault(n.targets[0].id, []).append(n.value)

    def closed(e):
        if isinstance(e, ast.Name) and len(binds.get(e.id, [])) == 1:
            e = binds[e.id][0]
        if isinstance(e, ast.ListComp) and len(e.generators) == 1 and isinstance(e.generators[0].iter, ast.Call) \
                and norm(e.generators[0].iter.func) == "range" and not e.generators[0].ifs:
            return norm(e.generators[0].iter)
        if isinstance(e, ast.BinOp) and isinstance(e.op, ast.Mult) and (isinstance(e.left, ast.List) or isinstance(e.right, ast.List)):
            return norm(e)
        return None

    def grown_conditionally(e):
        if not (isinstance(e, ast.Name) and len(binds.get(e.id, [])) == 1 and isinstance(binds[e.id][0], ast.List)
                and not binds[e.id][0].elts):
            return None
        for c in walk_no_nested(fi.node):
            if isinstance(c, ast.Call) and isinstance(c.func, ast.Attribute) and c.func.attr == "append" \
                    and isinstance(c.func.value, ast.Name) and c.func.value.id == e.id:
                p, in_loop, cond = pm.get(c), False, None
                while p is not None and p is not fi.node:
                    if isinstance(p, ast.If) and cond is None:
                        cond = p
                    if isinstance(p, (ast.For, ast.While)):
                        in_loop = True
                        break
                    p = pm.get(p)
                if in_loop and cond is not None:
                    return cond
        return None
    for z in walk_no_nested(fi.node):
        if not (isinstance(z, ast.Call) and norm(z.func) == "zip" and len(z.args) >= 2):
            continue
        cl = [(a, closed(a)) for a in z.args]
        gr = [(a, grown_conditionally(a)) for a in z.args]
        cl = [(a, t) for a, t in cl if t]
        gr = [(a, c) for a, c in gr if c is not None]
        if cl and gr:
            # a length test relating the two anywhere in the function discharges the obligation
            names = {norm(a) for a, _ in cl} | {norm(a) for a, _ in gr}
            tested = any(isinstance(t, (ast.Compare, ast.Assert)) and sum(1 for x in ast.walk(t) if isinstance(x, ast.Call)
                         and norm(x.func) == "len" and x.args and norm(x.args[0]) in names) >= 2 for t in ast.walk(fi.node))
            ctx.check(tested, f"{prefix}.ZIP-LEN", fi.site, "zip of a generated sequence with a grown list is guarded by a length test",
                      f"`{norm(z)[:70]}` pairs `{norm(cl[0][0])}` (length fixed by `{cl[0][1][:50]}`) with `{norm(gr[0][0])}`, "
                      f"which grows by one entry each time `{norm(gr[0][1].test)[:60]}` holds: nothing relates the two lengths, "
                      f"and zip drops the trailing entries of the longer one silently", key="zip-len:" + norm(gr[0][0]),
                      where=loc(fi, z), semantic=True)


def sweep(ctx):
    if ctx.prop in NO_SWEEP:
        return
    anchored = [f for f in anchored_functions(ctx) if f.module.relpath not in ctx.prog.excluded]
    # the lints hold for every function the anchored ones can reach (the reader's constructor, the header parsers,
    # the helpers): a statement that raises or skips there breaks the operation whatever function the property names
    seen = {}
    for f in ctx.prog.reachable(list(anchored)):
        if f.module.relpath not in ctx.prog.excluded and f.site not in OUT_OF_SCOPE.get(ctx.prop, ()):
            seen[f.site] = f
    fns = [seen[k] for k in sorted(seen)]
    for fi in fns:
        loopstate.rule_loop_state(ctx, ctx.prop, fi)
        rule_level_table(ctx, ctx.prop, fi)
        rule_lib_pitfall(ctx, ctx.prop, fi)
        rule_unbound(ctx, ctx.prop, fi)
        rule_negative_wrap(ctx, ctx.prop, fi)
        guards.rule_new_guard(ctx, ctx.prop, fi)
        rule_zip_len(ctx, ctx.prop, fi)
    nh = history.sweep(ctx, ctx.prop, fns)
    ctx.note("generic_lints", {"anchored_functions": len(anchored), "functions_swept_(anchored_and_reachable)": len(fns),
                               "lints": ["LOOP-STATE", "LEVEL-TABLE", "LIB-PITFALL", "U1", "U2", "NEG-WRAP", "NEW-GUARD", "ZIP-LEN",
                                         "MODULE-STATE", "INSTANCE-STATE", "MEMO-ORDER", "INSTANCE-MEMO"]})
