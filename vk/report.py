"""Result collection, known-findings triage, evidence and exit codes."""
import json
import os
import time

VERIF = os.path.dirname(os.path.dirname(os.path.abspath(__file__)))
KNOWN_FILE = os.path.join(VERIF, "known_findings.json")


# rules whose verdict is computed by an engine in a semantic domain wherever they are emitted from: resolved pool
# sites and consumers (P*), exception / path-class flow (W*, X*), scoped loop-state lints, level-loop ranges
SEMANTIC_RULES = {"P1", "P1b", "P2", "P3", "P3-GLOBALS", "P3-ARG-MUTATION", "P3-MODULE-REF", "P7", "X1", "X2", "X3",
                  "W0", "W1", "W2", "W3", "LOOP-STATE", "LEVEL-RANGE", "U1", "U2", "U4", "U5"}


class Ctx:
    """Collects rule-instance results for one property check."""

    def __init__(self, prop, tier, prog):
        self.prop = prop
        self.tier = tier
        self.prog = prog
        self.results = []      # dicts: rule, site, key, verdict, witness, objects
        self.assumptions = []
        self.analysed = {}     # free-form "what was analysed"
        self.floors = []       # (name, measured, floor)
        self.t0 = time.time()

    # verdicts -------------------------------------------------------------
    def ok(self, rule, site, what, key="", objects=None):
        self.results.append(dict(rule=rule, site=site, key=key, verdict="ok",
                                 witness=what, objects=objects))

    def finding(self, rule, site, what, key="", objects=None, where=None, semantic=False):
        """semantic=True: the verdict was computed in a semantic domain (interpreter events, polynomials, path
        classes, resolved pool sites, scoped lints) and holds whatever the statement structure of the function is.
        Otherwise the rule compares the *shape* of statements with the shape it expects; such a rule is decisive only
        where the function still has the statement structure of the reference tree (leaves may differ) — on a
        restructured function it abstains (see finish())."""
        if not semantic and rule.split(".", 1)[-1] in SEMANTIC_RULES:
            semantic = True
        self.results.append(dict(rule=rule, site=site, key=key, verdict="finding",
                                 witness=what, objects=objects, where=where, semantic=semantic))

    def unknown(self, rule, site, what, key="", where=None):
        """the construct the rule examines is outside the domain the rule can decide (an idiom the evaluators do not
        model, an atom the rule cannot resolve, an anchor that is no longer there): neither ok nor a finding.
        Any such result makes the run end with ANALYSIS-ERROR / exit 2 unless a positive violation was found too."""
        self.results.append(dict(rule=rule, site=site, key=key, verdict="unknown", witness=what, where=where))

    def decide(self, cond, decidable, rule, site, what_ok, what_bad=None, key="", objects=None, where=None,
               why_unknown=None):
        """three-valued check: ok if cond; finding if not cond and the observed construct lies in the rule's domain
        (decidable); unknown otherwise"""
        if cond:
            self.ok(rule, site, what_ok, key, objects)
        elif decidable:
            self.finding(rule, site, what_bad or ("NOT: " + what_ok), key, objects, where, semantic=True)
        else:
            self.unknown(rule, site, (why_unknown or "construct not recognised") + ": " + (what_bad or what_ok), key, where)
        return cond

    def attempt(self, fn, *a, **kw):
        """run one rule (group); an obligation it cannot evaluate is recorded as undecided and the remaining rules of
        the check still run (a positive violation elsewhere must not be hidden behind an analysis error)"""
        from .model import AnalysisError
        try:
            return fn(*a, **kw)
        except AnalysisError as e:
            self.unknown(e.rule, e.site, e.reason)
            return None

    def info(self, rule, site, what, key=""):
        self.results.append(dict(rule=rule, site=site, key=key, verdict="info", witness=what))

    def check(self, cond, rule, site, what_ok, what_bad=None, key="", objects=None, where=None, semantic=False):
        if cond:
            self.ok(rule, site, what_ok, key, objects)
        else:
            self.finding(rule, site, what_bad or ("NOT: " + what_ok), key, objects, where, semantic)
        return cond

    def assume(self, text):
        if text not in self.assumptions:
            self.assumptions.append(text)

    def floor(self, name, measured, floor):
        """instance floor: the number of sites confirmed by hand on the pinned tree"""
        self.floors.append((name, measured, floor))

    def note(self, k, v):
        self.analysed[k] = v


def load_known():
    if not os.path.exists(KNOWN_FILE):
        return []
    with open(KNOWN_FILE) as fh:
        return json.load(fh)["findings"]


# a shape rule stays decisive while the function is within this many added / removed / split / merged statements of
# the reference shape (small edits); beyond it the function has been rewritten and the rule abstains
DRIFT_TOLERANCE = int(os.environ.get("VERIF_DRIFT_TOLERANCE", "2"))


def site_drift(prog, site):
    """None/0 when the function named by the site has the statement structure of the reference tree; otherwise a
    short description (number of statements that differ, or 'new function')"""
    if "::" not in (site or ""):
        return None
    rel, rest = site.split("::", 1)
    m = prog.modules.get(rel)
    if m is None:
        return None
    parts = rest.split("::")
    for k in range(len(parts), 0, -1):
        q = "::".join(parts[:k]).split("#")[0]
        if q in m.drift:
            d = m.drift[q]
            if d is None:
                return "function absent from the reference"
            return f"{d} statements differ" if d > DRIFT_TOLERANCE else None
        if q in m.classes:
            ds = [v for kq, v in m.drift.items() if kq.startswith(q + ".")]
            if any(v is None for v in ds):
                return "class has methods absent from the reference"
            tot = sum(ds)
            return f"{tot} statements differ in the class" if tot > DRIFT_TOLERANCE else None
    return None


def fid(r):
    return f"{r['rule']}@{r['site']}" + (f"#{r['key']}" if r.get("key") else "")


def finish(ctx, explanation, trusted_base, level="other"):
    """print lines, write evidence + replay files, return exit code"""
    import signal
    try:
        signal.signal(signal.SIGPIPE, signal.SIG_DFL)
    except Exception:
        pass
    from .model import AnalysisError
    prop = ctx.prop
    for name, measured, floor in ctx.floors:
        if measured < floor:
            # vacuous-pass guard: undecided (exit 2), but findings of the rules that did match are still reported
            ctx.unknown("FLOOR", name, f"matched {measured} sites, fewer than the {floor} confirmed by hand on the "
                                       f"pinned tree (vacuous-pass guard)")
    known = [k for k in load_known() if prop in k["properties"]]
    known_open = {k["id"]: k for k in known if k["status"] == "known"}
    findings = [r for r in ctx.results if r["verdict"] == "finding"]
    oks = [r for r in ctx.results if r["verdict"] == "ok"]
    infos = [r for r in ctx.results if r["verdict"] == "info"]
    unknowns = [r for r in ctx.results if r["verdict"] == "unknown"]
    violations, knowns = [], []
    for r in findings:
        if fid(r) in known_open:
            knowns.append(r)
            continue
        d = None if r.get("semantic") else site_drift(ctx.prog, r["site"])
        if d:
            # a shape rule on a restructured function: abstain
            r["verdict"] = "unknown"
            r["witness"] = (f"shape rule on a function whose statement structure differs from the reference tree "
                            f"({d}): not decided — " + r["witness"])
            unknowns.append(r)
        else:
            violations.append(r)
    findings = [r for r in findings if r["verdict"] == "finding"]
    evdir = os.environ.get("VERIF_EVIDENCE_DIR") or os.path.join(VERIF, "evidence")
    os.makedirs(evdir, exist_ok=True)
    rdir = os.path.join(evdir, "replay")
    # report ----------------------------------------------------------------
    print(f"[{prop}] tier={ctx.tier} rule-instances={len(ctx.results)} ok={len(oks)} "
          f"findings={len(findings)} (known={len(knowns)}, new={len(violations)}) undecided={len(unknowns)} "
          f"info={len(infos)}")
    print(f"[{prop}] analysed: {json.dumps(ctx.analysed, sort_keys=True)}")
    for name, measured, floor in ctx.floors:
        print(f"[{prop}] floor {name}: matched {measured} (>= {floor})")
    seen_known = set()
    for r in knowns:
        k = known_open[fid(r)]
        if fid(r) in seen_known:
            continue
        seen_known.add(fid(r))
        print(f"KNOWN-FINDING: property={prop} {fid(r)} {k['what_fails']}")
    for i, r in enumerate(violations):
        os.makedirs(rdir, exist_ok=True)
        path = os.path.join(rdir, f"{prop}_{i}.json")
        with open(path, "w") as fh:
            json.dump(dict(property=prop, rule=r["rule"], site=r["site"], key=r["key"],
                           witness=r["witness"], objects=r.get("objects"), where=r.get("where"),
                           id=fid(r)), fh, indent=1, default=str)
        print(f"FINDING {fid(r)} at {r.get('where') or r['site']}: {r['witness']}")
        print(f"VIOLATION property={prop} replay={path}")
    seen_unknown = set()
    for r in unknowns:
        if fid(r) in seen_unknown:
            continue
        seen_unknown.add(fid(r))
        print(f"ANALYSIS-ERROR property={prop} rule={r['rule']} site={r['site']}"
              + (f"#{r['key']}" if r.get("key") else "") + f" at {r.get('where') or r['site']} "
              f"reason=undecided: {r['witness']}")
    distinct = len({fid(r) for r in ctx.results if r["verdict"] in ("ok", "finding")})
    samples = []
    for r in (violations + knowns + oks)[:40]:
        samples.append({"id": fid(r), "verdict": r["verdict"], "witness": r["witness"],
                        "objects": r.get("objects")})
    ev = {
        "property_id": prop,
        "tier": ctx.tier,
        "seed": int(os.environ.get("VERIF_SEED", "0") or 0),
        "level": level,
        "coverage": {
            "explanation": explanation,
            "obligations": len(oks) + len(findings),
            "discharged": len(oks),
            "known_findings_reported": sorted(seen_known),
            "evaluations": len(ctx.results),
            "distinct_nontrivial": distinct,
            "rule": ("one evaluation per rule instance x matched site in the parsed program; "
                     "distinct = distinct (rule, site, key) triples that matched a real construct"),
            "samples": json.loads(json.dumps(samples, default=str)),
            "exhaustive": True,
            "analysed": json.loads(json.dumps(ctx.analysed, default=str)),
            "instance_floors": [{"name": n, "matched": m, "floor": f} for n, m, f in ctx.floors],
            "info": [f"{fid(r)}: {r['witness']}" for r in infos][:40],
            "undecided": [f"{fid(r)}: {r['witness']}" for r in unknowns][:40],
            "checker_cmd": f"/venv/bin/python /verif/run_check.py {prop} --tier {ctx.tier}",
            "trusted_base": trusted_base,
        },
        "assumptions": ctx.assumptions,
        "wall_s": round(time.time() - ctx.t0, 3),
        "violations": len(violations),
    }
    with open(os.path.join(evdir, f"{prop}.json"), "w") as fh:
        json.dump(ev, fh, indent=1, default=str)
    return 1 if violations else (2 if unknowns else 0)
